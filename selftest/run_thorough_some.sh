#!/bin/sh
for P in "$@"; do
  S=$(date +%s)
  OUT=$(./check $P --tier thorough 2>&1 | grep -E "^\[|VIOLATION|UNDECIDED|CHECKER-ERROR" | head -6)
  echo "$P $(( $(date +%s) - S ))s :: $OUT"
done
