#!/bin/sh
# runs every thorough check sequentially (used with `vp run`); prints one summary line per property
for P in C16 C19 C20 C06 C12 C15 C18 C17 C11 C08 C09 C05 C13 C04 C03 C14 C07 C01 C10 C02; do
  S=$(date +%s)
  OUT=$(./check $P --tier thorough 2>&1 | grep -E "^\[|VIOLATION|UNDECIDED|CHECKER-ERROR|KNOWN" | head -6)
  echo "$P $(( $(date +%s) - S ))s :: $OUT"
done
