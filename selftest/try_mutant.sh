#!/bin/sh
# usage: try_mutant.sh <patch.diff> <prop> [<prop> ...]
# applies the patch to a scratch copy of /repo (never to /repo itself), runs the quick checks against it, removes the copy
set -u
PATCH="$1"; shift
SCR=$(mktemp -d /tmp/verif_mut.XXXXXX)
cp -r /repo/seismic_zfp "$SCR/seismic_zfp"
cp -r /repo/test_data "$SCR/test_data" 2>/dev/null
( cd "$SCR" && patch -p1 -s < "$PATCH" ) || { echo "PATCH-FAILED $PATCH"; rm -rf "$SCR"; exit 9; }
for P in "$@"; do
  OUT=$(cd /verif && VERIF_REPO="$SCR" VERIF_EVIDENCE_DIR="$SCR/evidence" ./check "$P" --tier quick 2>&1 | grep -v conda)
  CODE=$?
  echo "$OUT" | grep -E "^\[|VIOLATION|UNDECIDED|CHECKER-ERROR" | head -8
  echo "== $P exit-lines done"
done
rm -rf "$SCR"
