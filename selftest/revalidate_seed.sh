#!/bin/sh
# usage: revalidate_seed.sh <seed id>   -- demo passes on a scratch copy of /repo HEAD, fails with the patch, pytest pass count unchanged
ID="$1"
SCR=$(mktemp -d /tmp/verif_reseed.XXXXXX)
cp -r /repo/seismic_zfp /repo/tests /repo/test_data "$SCR/" 2>/dev/null
cp /repo/setup.py /repo/setup.cfg /repo/pyproject.toml "$SCR/" 2>/dev/null
mkdir -p "$SCR/_mut"; cp /verif/seeded/$ID/demo.py "$SCR/_mut/demo.py"
cd "$SCR"
PYTHONPATH="$SCR" TREE="$SCR" /venv/bin/python _mut/demo.py >/dev/null 2>&1; echo "clean demo exit $?"
B=$(PYTHONPATH="$SCR" /venv/bin/python -m pytest -q -p no:cacheprovider --timeout=900 --continue-on-collection-errors tests 2>&1 | tail -1)
patch -p1 -s < /verif/seeded/$ID/patch.diff || echo PATCH-FAILED
PYTHONPATH="$SCR" TREE="$SCR" /venv/bin/python _mut/demo.py >/dev/null 2>&1; echo "mutant demo exit $?"
M=$(PYTHONPATH="$SCR" /venv/bin/python -m pytest -q -p no:cacheprovider --timeout=900 --continue-on-collection-errors tests 2>&1 | tail -1)
echo "tests clean: $B"; echo "tests mutant: $M"
cd /; rm -rf "$SCR"
