#!/opt/veriftools/pyvenv/bin/python
"""CPython cross-check of the symbolic executor: the engine runs real functions of /repo on CONCRETE arguments (no symbols: it then
acts as an interpreter of its Python subset) and the result -- value or exception class -- is compared with what /venv/bin/python
computes for the same call.  A disagreement means the engine's semantics of some construct is wrong (exit 1).  Usage: crosscheck.py [seed]"""
import json
import os
import random
import subprocess
import sys

HERE = os.path.dirname(os.path.abspath(__file__))
sys.path.insert(0, os.path.dirname(HERE))
REPO = os.environ.get('VERIF_REPO', '/repo')

NATIVE = r'''
import json, sys
sys.path.insert(0, %r)
import numpy as np
from seismic_zfp import utils
from seismic_zfp.version import SeismicZfpVersion
cases = json.load(sys.stdin)
out = []
def norm(v):
    if isinstance(v, (bytes, bytearray)): return ['bytes', list(v)]
    if isinstance(v, (tuple, list)): return [norm(x) for x in v]
    if isinstance(v, (np.integer,)): return int(v)
    if isinstance(v, (np.floating,)): return float(v)
    if isinstance(v, np.ndarray): return ['array', [norm(x) for x in v.tolist()]]
    if isinstance(v, float) and v == int(v): return int(v)
    return v
for (fn, args) in cases:
    try:
        if fn == 'version_fields':
            v = SeismicZfpVersion(args[0]); r = [v.major, v.minor, v.patch, bool(v.changes_exist), v.encoding]
        elif fn == 'version_gt':
            r = bool(SeismicZfpVersion(args[0]) > SeismicZfpVersion(args[1]))
        else:
            a = [tuple(x) if isinstance(x, list) else x for x in args]
            if fn in ('bytes_to_int', 'bytes_to_signed_int'): a = [bytes(a[0])]
            if fn == 'coord_to_index': a = [a[0], np.array(a[1]), a[2]]
            r = getattr(utils, fn)(*a)
        out.append(['ok', norm(r)])
    except Exception as e:
        out.append(['raise', type(e).__name__])
print(json.dumps(out))
'''


def gen_cases(rnd):
    cases = []
    for _ in range(60):
        cases.append(('pad', [rnd.randrange(0, 5000), rnd.choice([1, 4, 8, 64, 512, 4096])]))
    for v in [0, 1, 255, 256, 65535, 2 ** 31 - 1, 2 ** 32 - 1, 2 ** 32, -1] + [rnd.randrange(0, 2 ** 32) for _ in range(10)]:
        cases.append(('int_to_bytes', [v]))
    for v in [0, 1, -1, -2 ** 31, 2 ** 31 - 1, 2 ** 31, -2 ** 31 - 1] + [rnd.randrange(-2 ** 31, 2 ** 31) for _ in range(10)]:
        cases.append(('signed_int_to_bytes', [v]))
    for _ in range(15):
        b = [rnd.randrange(256) for _ in range(rnd.choice([2, 4]))]
        cases.append(('bytes_to_int', [b]))
        cases.append(('bytes_to_signed_int', [b]))
    for _ in range(40):
        bits = rnd.choice([-4, -2, -1, 0, 1, 2, 3, 4, 8, 16, 32, 64, 0.5, 0.25])
        bs = [rnd.choice([-1, 1, 2, 4, 8, 16, 64, 256, 512, 2048]) for _ in range(3)]
        cases.append(('define_blockshape_3d', [bits, bs]))
        cases.append(('define_blockshape_2d', [bits, [1] + bs[1:]]))
    for _ in range(30):
        cases.append(('get_chunk_cache_size', [rnd.randrange(1, 600), rnd.randrange(1, 600)]))
    for _ in range(30):
        M, m, p, d = rnd.randrange(4), rnd.randrange(1024), rnd.randrange(1024), rnd.random() < 0.5
        cases.append(('version_fields', [(M << 21) + (m << 11) + 2 * p + (0 if d else 1)]))
        cases.append(('version_gt', [(M << 21) + (m << 11) + 2 * p + (0 if d else 1), (0 << 21) + (2 << 11) + 2 * 1 + 1]))
    for _ in range(30):
        a0, d, n = rnd.randrange(-50, 50), rnd.choice([-3, -1, 1, 2, 5]), rnd.randrange(2, 12)
        ax = [a0 + k * d for k in range(n)]
        cases.append(('coord_to_index', [rnd.choice(ax + [a0 + n * d, a0 - d, a0 + 1000]), ax, rnd.random() < 0.5]))
    return cases


def engine_results(cases):
    from pyvc import run as R
    from pyvc.frontend import Program
    from pyvc.smt import Explorer
    from pyvc.values import PyRaise, Unsupported, is_sym
    from pyvc import bytesmodel as BM
    from pyvc.npmodel import SArray
    prog = Program(REPO)
    interp = R.make_interp(prog)
    out = []

    def norm(v):
        from pyvc.symex import untag
        v = untag(v)
        if isinstance(v, BM.BytesBase):
            n = v.length
            vals = []
            for q in range(n):
                t = v.tok(q)
                vals.append(None)
            f = v if isinstance(v, BM.Packed) else (v.field(0, n) if hasattr(v, 'field') else None)
            if isinstance(f, BM.Packed):
                import struct
                return ['bytes', list(struct.pack(f.fmt if f.fmt[0] in '<>' else '<' + f.fmt, int(f.value)))]
            return ['bytes', '?']
        if isinstance(v, (tuple, list)):
            return [norm(x) for x in v]
        if isinstance(v, SArray):
            return ['array', [norm(v.fn((k,))) for k in range(v.shape[0])]]
        if isinstance(v, bool):
            return v
        if isinstance(v, float) and v == int(v):
            return int(v)
        if hasattr(v, 'z'):
            import z3
            s = z3.simplify(v.z)
            if z3.is_int_value(s):
                return s.as_long()
            if z3.is_true(s) or z3.is_false(s):
                return z3.is_true(s)
            if z3.is_rational_value(s):
                fr = s.as_fraction()
                return int(fr) if fr.denominator == 1 else float(fr)
            return '?sym'
        return v

    for (fn, args) in cases:
        res = {}

        def path(ctx, fn=fn, args=args):
            interp.current_fuc = None
            interp.call_depth = 0
            try:
                if fn in ('version_fields', 'version_gt'):
                    cls = prog.klass('SeismicZfpVersion')
                    objs = []
                    from pyvc.values import SObj
                    for a_ in args:
                        o = SObj(cls)
                        interp.inline(cls.find_method('__init__'), [a_], {}, o)
                        objs.append(o)
                    if fn == 'version_fields':
                        v = objs[0]
                        res['r'] = ['ok', norm([v.fields['major'], v.fields['minor'], v.fields['patch'], v.fields['changes_exist'], v.fields['encoding']])]
                    else:
                        r = interp.inline(cls.find_method('__gt__'), [objs[1]], {}, objs[0])
                        res['r'] = ['ok', norm(r)]
                    return
                f = prog.function(f'utils.py::{fn}')
                a = [tuple(x) if isinstance(x, list) and fn.startswith('define') else x for x in args]
                if fn in ('bytes_to_int', 'bytes_to_signed_int'):
                    a = [bytes(a[0])]
                if fn == 'coord_to_index':
                    from pyvc.values import Ite, ops_cmp

                    def mkfn(L):
                        def fn(idx):
                            k = idx[0]
                            if isinstance(k, int):
                                return L[k]
                            r = L[-1]
                            for j in range(len(L) - 2, -1, -1):
                                r = Ite(ops_cmp('==', k, j), L[j], r)
                            return r
                        return fn
                    a = [a[0], SArray((len(a[1]),), mkfn(a[1]), 'int64'), a[2]]
                r = interp.inline(f, a, {}, None)
                import z3 as _z3
                if ctx.feasible(_z3.BoolVal(True)):          # (a path whose assumptions are contradictory is not an execution)
                    nr = norm(r)
                    if nr == '?sym':
                        # a value pinned down by the path condition (e.g. "the first index where ..."): read it off a model, check it is unique
                        s_ = _z3.Solver()
                        for f_ in ctx.pc:
                            s_.add(f_)
                        if s_.check() == _z3.sat:
                            val = s_.model().eval(r.z, model_completion=True)
                            s_.add(r.z != val)
                            nr = val.as_long() if s_.check() == _z3.unsat else '?not-unique'
                    res['r'] = ['ok', nr]
            except PyRaise as e:
                import z3 as _z3
                if ctx.feasible(_z3.BoolVal(True)):
                    res['r'] = ['raise', e.cls.split('.')[-1]]
            except Unsupported as e:
                res['r'] = ['unsupported', str(e)[:80]]
        ex = Explorer('crosscheck')
        ex.prog = prog
        try:
            ex.run(path)
        except Exception as e:
            res['r'] = ['engine-error', f'{type(e).__name__}: {e}'[:100]]
        out.append(res.get('r', ['no-result']))
    return out


def main():
    seed = int(sys.argv[1]) if len(sys.argv) > 1 else 0
    rnd = random.Random(seed)
    cases = gen_cases(rnd)
    p = subprocess.run(['/venv/bin/python', '-c', NATIVE % REPO], input=json.dumps(cases), capture_output=True, text=True)
    native = json.loads(p.stdout.strip().splitlines()[-1])
    eng = engine_results(cases)
    bad, skipped = [], 0
    for c_, n_, e_ in zip(cases, native, eng):
        if e_[0] in ('unsupported', 'no-result'):
            skipped += 1
            continue
        if n_[0] == 'raise' and e_[0] == 'raise':
            if n_[1] != e_[1] and not (n_[1] in ('AssertionError',) and e_[1] in ('AssertionError',)):
                bad.append((c_, n_, e_))
            continue
        if n_ != e_:
            bad.append((c_, n_, e_))
    print(f'crosscheck: {len(cases)} concrete calls, {len(cases) - skipped} compared, {skipped} outside the engine subset, {len(bad)} disagreements')
    for b in bad[:12]:
        print('  DISAGREE', b)
    sys.exit(1 if bad else 0)


main()
