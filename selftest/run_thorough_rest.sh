#!/bin/sh
for P in C04 C03 C14 C07 C01 C10 C02 C09 C13; do
  S=$(date +%s)
  OUT=$(./check $P --tier thorough 2>&1 | grep -E "^\[|VIOLATION|UNDECIDED|CHECKER-ERROR" | head -6)
  echo "$P $(( $(date +%s) - S ))s :: $OUT"
done
