#!/bin/sh
# applies each behaviour-preserving refactoring in selftest/harmless/ to a scratch copy of /repo and runs the quick checks named in its .props:
# every one must stay at exit 0 (GREEN); anything else is a false alarm of the machinery (or exit 3: an interface the contracts name was renamed)
cd /verif
for D in selftest/harmless/*.diff; do
  N=$(basename $D .diff)
  PROPS=$(cat selftest/harmless/$N.props)
  OUT=$(selftest/try_mutant.sh /verif/$D $PROPS 2>&1 | grep -v conda)
  if echo "$OUT" | grep -q "VIOLATION\|UNDECIDED\|CHECKER-ERROR\|PATCH-FAILED"; then echo "$N NOT-GREEN: $(echo "$OUT" | grep 'VIOLATION\|UNDECIDED\|CHECKER-ERROR\|PATCH-FAILED' | head -2 | cut -c1-200)"; else echo "$N GREEN ($PROPS)"; fi
done
