#!/usr/bin/env python3
"""gen_seed_table.py: rewrite the table of DESIGN.md section R.7 from seeded/*/meta.json (rows only; the prose after the table is kept)"""
import json, os, re
rows = []
n = det = nat = neu = 0
for sid in sorted(os.listdir('/verif/seeded')):
    p = f'/verif/seeded/{sid}/meta.json'
    if not os.path.exists(p):
        continue
    m = json.load(open(p))
    n += 1
    d = m.get('detected_by') or ''
    note = ' '.join(str(m.get('needs_to_manifest', '')).split())[:170].replace('|', '/')
    if d.startswith('neutralised'):
        neu += 1
        ob, nr = 'neutralised by a repair', '-'
    elif 'obligation' in d:
        det += 1
        ob = '`' + d.split('obligation ')[1].strip() + '`'
        nr = 'yes' if m.get('native_replay') else 'no'
        nat += nr == 'yes'
    else:
        ob, nr = 'NOT DETECTED (' + str(m.get('sweep_status')) + ')', '-'
    rows.append(f'| {sid} | {note} | {ob} | {nr} |')
s = open('/verif/DESIGN.md').read().split('\n')
i0 = next(i for i, l in enumerate(s) if l.startswith('|---|---|---|---|') and any('R.7' in x for x in s[max(0, i - 4):i]))
i1 = i0 + 1
while s[i1].startswith('|'):
    i1 += 1
s[i0 + 1:i1] = rows
open('/verif/DESIGN.md', 'w').write('\n'.join(s))
print(f'{n} seeds: {det} detected ({nat} native replay), {neu} neutralised, {n - det - neu} not detected')
