#!/bin/sh
# usage: sweep_seeds.sh [ids...]  -- apply every seeded change to a scratch copy of /repo and run the quick check of the property it breaks
cd /verif
IDS="$@"; [ -z "$IDS" ] && IDS=$(ls seeded)
for ID in $IDS; do
  P=$(echo $ID | cut -d_ -f1)
  OUT=$(selftest/try_mutant.sh /verif/seeded/$ID/patch.diff $P 2>&1 | grep -v conda)
  if echo "$OUT" | grep -q PATCH-FAILED; then R="PATCH-FAILED";
  elif echo "$OUT" | grep -q "^VIOLATION"; then R="DETECTED $(echo "$OUT" | grep '^VIOLATION' | head -1 | sed 's/.*replay=//' | cut -c1-150)";
  elif echo "$OUT" | grep -q "UNDECIDED\|CHECKER-ERROR"; then R="UNDECIDED $(echo "$OUT" | grep 'UNDECIDED\|CHECKER-ERROR' | head -1 | cut -c1-150)";
  else R="MISSED"; fi
  echo "$ID $R"
done
