#!/usr/bin/env python3
"""validate_seed.py <agent mut dir> <i> <seed id> <property> : confirm a sub-agent's mutation in a fresh scratch worktree of
/repo HEAD (demo passes on the clean tree, fails with the patch, the test suite's pass set is unchanged) and store it
under /verif/seeded/<seed id>/."""
import json, os, subprocess, sys, shutil, tempfile, re
mutdir, i, sid, prop = sys.argv[1], sys.argv[2], sys.argv[3], sys.argv[4]
patch = os.path.join(mutdir, f'mut{i}.diff'); demo = os.path.join(mutdir, f'demo{i}.py'); note = os.path.join(mutdir, f'note{i}.txt')
wt = tempfile.mkdtemp(prefix='verif_seed_')
os.rmdir(wt)
subprocess.run(['git', '-C', '/repo', 'worktree', 'add', '-q', '--detach', wt, 'HEAD'], check=True)
def run(cmd, **kw):
    env = dict(os.environ, PYTHONPATH=wt, TREE=wt)
    return subprocess.run(cmd, cwd=wt, env=env, capture_output=True, text=True, **kw)
def tests():
    p = run(['/venv/bin/python', '-m', 'pytest', '-q', '-p', 'no:cacheprovider', '--timeout=900', '--continue-on-collection-errors', '-rA', 'tests'], timeout=1800)
    passed = sorted(set(re.findall(r'^PASSED (\S+)', p.stdout, re.M)))
    return passed
res = {'seed': sid, 'property': prop}
try:
    os.makedirs(os.path.join(wt, '_mut'), exist_ok=True)
    shutil.copy(demo, os.path.join(wt, '_mut', 'demo.py'))
    base_pass = tests()
    d0 = run(['/venv/bin/python', '_mut/demo.py'], timeout=1800)
    ap = subprocess.run(['git', '-C', wt, 'apply', '--3way', patch], capture_output=True, text=True)
    if ap.returncode != 0:
        ap = subprocess.run(['patch', '-p1', '-s', '-i', patch], cwd=wt, capture_output=True, text=True)
    res['applied'] = ap.returncode == 0
    d1 = run(['/venv/bin/python', '_mut/demo.py'], timeout=1800)
    mut_pass = tests()
    res.update(demo_clean_exit=d0.returncode, demo_mutant_exit=d1.returncode, baseline_passed=len(base_pass), mutant_passed=len(mut_pass),
               tests_lost=sorted(set(base_pass) - set(mut_pass)), demo_mutant_tail=d1.stdout[-600:])
    ok = res['applied'] and d0.returncode == 0 and d1.returncode != 0 and not res['tests_lost']
    res['confirmed'] = ok
    if ok:
        out = os.path.join('/verif/seeded', sid)
        os.makedirs(out, exist_ok=True)
        diff = subprocess.run(['git', '-C', wt, 'diff', 'HEAD', '--', 'seismic_zfp'], capture_output=True, text=True).stdout
        open(os.path.join(out, 'patch.diff'), 'w').write(diff)
        shutil.copy(demo, os.path.join(out, 'demo.py'))
        meta = {'id': sid, 'breaks_property': prop, 'needs_to_manifest': open(note).read() if os.path.exists(note) else '',
                'source': 'fresh sub-agent given only the property text and a scratch worktree',
                'confirmed': {'repo_head': subprocess.run(['git', '-C', '/repo', 'rev-parse', '--short', 'HEAD'], capture_output=True, text=True).stdout.strip(),
                              'ran': ['pytest tests (pass set unchanged: %d passed)' % len(mut_pass), 'demo.py on clean tree -> exit 0', 'demo.py with patch -> exit %d' % d1.returncode]},
                'detected_by': None}
        json.dump(meta, open(os.path.join(out, 'meta.json'), 'w'), indent=1)
finally:
    subprocess.run(['git', '-C', '/repo', 'worktree', 'remove', '--force', wt])
print(json.dumps(res, indent=1)[:1500])
