#!/usr/bin/env python3
"""record_sweep.py <sweep output files...>: write the result of selftest/sweep_seeds.sh into seeded/<id>/meta.json (detected_by)"""
import json, os, sys, re
res = {}
for fn in sys.argv[1:]:
    for line in open(fn):
        m = re.match(r'^(C\d\d_m\d+\w*) (DETECTED|MISSED|PATCH-FAILED|UNDECIDED)\s*(.*)$', line.strip())
        if m:
            res[m.group(1)] = (m.group(2), m.group(3))
for sid, (st, rest) in sorted(res.items()):
    p = os.path.join('/verif/seeded', sid, 'meta.json')
    if not os.path.exists(p):
        continue
    meta = json.load(open(p))
    prop = sid.split('_')[0]
    if 'neutralised' in str(meta.get('status_on_current_tree', '')):
        meta['detected_by'] = 'neutralised (demonstration passes with the patch on the repaired tree)'
    elif st == 'DETECTED':
        ob = rest.split()[0].replace(f'replays/{prop}/', '').replace('.json', '')
        meta['detected_by'] = f'./check {prop} --tier quick  ->  VIOLATION, obligation {ob}' + ('  (bounded stage)' if ob.startswith('bounded_') else '')
        meta['native_replay'] = 'no-failing-input-found' not in rest
    else:
        meta['detected_by'] = None
        meta['sweep_status'] = st
    json.dump(meta, open(p, 'w'), indent=1)
    print(sid, meta['detected_by'])
