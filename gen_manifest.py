#!/usr/bin/env python3
"""Regenerates MANIFEST.json from the per-property descriptions below (kept valid at all times)."""
import json, os
HERE = os.path.dirname(os.path.abspath(__file__))
props = [json.loads(l) for l in open(os.path.join(HERE, 'properties.jsonl'))]
CLAIMED = {}
TECH = ""
exec(open(os.path.join(HERE, 'manifest_claims.py')).read())
checks = []
na = []
for p in props:
    pid = p['id']
    if pid in CLAIMED:
        c = CLAIMED[pid]
        checks.append({
            'property_id': pid,
            'quick_cmd': f'./check {pid} --tier quick',
            'thorough_cmd': f'./check {pid} --tier thorough',
            'evidence_file': f'/verif/evidence/{pid}.json',
            'replay_cmd_template': f'./check {pid} --replay {{path}}',
            'engine': 'pyvc',
            'level_claimed': {'category': c.get('category', 'proof'), 'text': c['text'], 'design_ref': c.get('design_ref', f'DESIGN.md section R.3 (as built) and section 5 {pid} (plan)')},
            'level_note': c['note'],
            'technique': c.get('technique', TECH),
        })
    else:
        na.append({'property_id': pid, 'reason': NOT_APPLICABLE.get(pid, 'check not built yet in this round (contract-based design in DESIGN.md section 5); not claimed')})
m = {
    'version': 1,
    'setup_cmd': './setup.sh',
    'hooks': {'guard': 'SEISMIC_ZFP_VERIF', 'enable': 'no hooks: contracts are sidecars in /verif/contracts; nothing in /repo is instrumented',
              'baseline_off_cmd': 'cd /repo && /venv/bin/python -m pytest -ra -q -p no:cacheprovider --timeout=900 --continue-on-collection-errors',
              'source_commits': [], 'add_only': True},
    'engines': [
        {'name': 'pyvc', 'path': '/verif/pyvc', 'serves_properties': sorted(CLAIMED), 'kind_free_text': 'VC generator: symbolic execution of the real Python AST under sidecar contracts, obligations discharged by z3 5.1 (cvc5 fallback)'},
        {'name': 'bounded', 'path': '/verif/bounded', 'serves_properties': sorted(p[:-3] for p in __import__('os').listdir(__import__('os').path.join(__import__('os').path.dirname(__import__('os').path.abspath(__file__)), 'bounded')) if p.endswith('.py')), 'kind_free_text': 'bounded stand-ins (C03 version strings, C12 re-blocker, C19 near-miss floats) on the real code under /venv/bin/python; labelled bounded, never counted as proved'},
        {'name': 'oracle', 'path': '/verif/oracle', 'serves_properties': sorted(CLAIMED), 'kind_free_text': 'independent spec encoder/decoder and native replay drivers (counter-models of failed obligations are replayed on the real code)'},
    ],
    'checks': checks,
    'not_applicable': na,
    'notes': 'Technique: contract-based deductive verification of the real code (DESIGN.md). Exit codes: 0 held, 1 violation, 2 undecided, 3 checker error.',
}
json.dump(m, open(os.path.join(HERE, 'MANIFEST.json'), 'w'), indent=1)
print('claimed', sorted(CLAIMED), 'not_applicable', [x['property_id'] for x in na])
