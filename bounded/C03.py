"""Bounded stand-in for the part of C03 outside the VC theories: SeismicZfpVersion(<string>) on the grammar of version
strings setuptools_scm / PEP 440 can emit for this project, executed on the real constructor against an independent
parser; plus encode/decode/order on a sample of the 8.4M (major<4, minor, patch<1024, flag) space incl. all gate
neighbourhoods.  Labelled bounded; never counted as proved."""
import argparse
import itertools
import json
import random
import re
import sys

from seismic_zfp.version import SeismicZfpVersion


def oracle_parse(s):
    """independent reading of 'X.Y[.Z]<suffix>': numbers, dev flag = any suffix"""
    parts = s.split('+', 1)[0]
    nums = []
    i = 0
    rest = parts
    for _ in range(3):
        m = re.match(r'^(\d+)', rest)
        if not m:
            break
        nums.append(int(m.group(1)))
        rest = rest[m.end():]
        if rest.startswith('.') and len(nums) < 3 and re.match(r'^\.\d', rest):
            rest = rest[1:]
        else:
            break
    while len(nums) < 3:
        nums.append(0)
    suffix = s[len('.'.join(str(n) for n in nums[:len([x for x in nums])])):] if False else None
    consumed = re.match(r'^\d+\.\d+(?:\.\d+)?', s).end()
    return nums[0], nums[1], nums[2], s[consumed:] != ''


def enc(M, m, p, dev):
    return (M << 21) + (m << 11) + 2 * p + (0 if dev else 1)


def main():
    ap = argparse.ArgumentParser()
    ap.add_argument('--tier', default='quick')
    ap.add_argument('--seed', type=int, default=0)
    ap.add_argument('--replay', default=None)
    a = ap.parse_args()
    rnd = random.Random(a.seed)
    nums = [0, 1, 2, 6, 7, 9, 10, 11, 16, 21, 99, 100, 123, 1023]
    suffixes = ['', 'rc1', '.dev', '.dev3', '.dev1+g45bcf9689', '.dev12+g1a2b3c4.d20240101', '+d20240101', '.post1', '.post1.dev2+gabcdef0', 'a1', 'b2']
    strings = []
    for M, m in itertools.product([0, 1, 3], nums):
        for p in nums:
            for sfx in suffixes:
                strings.append(f'{M}.{m}.{p}{sfx}')
        for sfx in ['.dev1+g45bcf9689', '.dev7', '+d20240101']:
            strings.append(f'{M}.{m}{sfx}')          # the tag-less form setuptools_scm emits
    if a.replay:
        strings = [json.loads(a.replay)['string']]
    elif a.tier == 'quick':
        rnd.shuffle(strings)
        strings = strings[:4000]
    failures = []
    n = 0
    for s in strings:
        n += 1
        try:
            v = SeismicZfpVersion(s)
            got = (v.major, v.minor, v.patch, bool(v.changes_exist), v.encoding)
        except Exception as e:
            failures.append({'id': 'parse:' + s, 'string': s, 'what': f'{type(e).__name__} on a version string setuptools_scm can emit'})
            continue
        M, m, p, dev = oracle_parse(s)
        want = (M, m, p, dev, enc(M, m, p, dev))
        if got != want:
            failures.append({'id': 'parse:' + s, 'string': s, 'what': f'parsed as {got}, expected {want}'})
    # codec / order on samples around the gates and at random
    gates = [(0, 2, 1), (0, 1, 6)]
    pts = set()
    for (M, m, p) in gates:
        for dp in (-1, 0, 1):
            for dev in (False, True):
                pts.add((M, m, max(p + dp, 0), dev))
    for _ in range(3000 if a.tier == 'quick' else 60000):
        pts.add((rnd.randrange(4), rnd.randrange(1024), rnd.randrange(1024), rnd.random() < 0.5))
    pts = sorted(pts)
    for (M, m, p, dev) in pts:
        n += 1
        e = enc(M, m, p, dev)
        v = SeismicZfpVersion(e)
        if (v.major, v.minor, v.patch, bool(v.changes_exist)) != (M, m, p, dev) or v.encoding != e:
            failures.append({'id': f'codec:{e}', 'string': str(e), 'what': f'decode(encode({(M, m, p, dev)})) = {(v.major, v.minor, v.patch, v.changes_exist)}'})
    for i in range(0, len(pts) - 1, 7):
        x, y = pts[i], pts[i + 1]
        n += 1
        vx, vy = SeismicZfpVersion(enc(*x)), SeismicZfpVersion(enc(*y))
        kx = (x[0], x[1], x[2], 0 if x[3] else 1)
        ky = (y[0], y[1], y[2], 0 if y[3] else 1)
        if (vy > vx) != (ky > kx):
            failures.append({'id': f'order:{x}:{y}', 'string': str(x), 'what': f'order of {x} and {y} not preserved'})
    if a.replay:
        print('REPRODUCED ' + failures[0]['what'] if failures else 'not reproduced')
        return
    print(json.dumps({'cases': n, 'distinct_nontrivial': len(set(strings)) + len(pts), 'failures': failures[:30],
                      'rule': 'version strings X.Y[.Z]<suffix> over a numeral set x 11 suffix forms (incl. the tag-less X.Y.devN+gH form); '
                              'codec/order on gate neighbourhoods + random points of major<4, minor,patch<1024, both flags',
                      'samples': strings[:4], 'bound': 'finite grammar sample as stated'}))


main()
