"""Bounded stand-in for C12 (re-blocking to the 64x64x4 layout): the copying loops of SgzConverter.convert_to_adv_sgz are outside
the reach of the VC generator (see contracts/c_reblock.py), so the real function is run on a grid of default-layout 2-bit files and
its output is compared with the specification: conformance of the written file (spec oracle), decoded volume bitwise equal on every
real voxel (spec decoder on both files AND the real reader on both), axes, trace count, SEG-Y file headers, every trace header,
source-data hash.  Labelled bounded; never counted as proved.  Bound: the shapes / header-array counts listed in CASES."""
import argparse
import json
import os
import shutil
import sys
import tempfile
import warnings

import numpy as np

HERE = os.path.dirname(os.path.abspath(__file__))
sys.path.insert(0, os.path.dirname(HERE))
from oracle import specsgz as S, segygen as G      # noqa: E402

QUICK = [((3, 5, 6), 2, False), ((4, 4, 6), 2, False), ((8, 5, 6), 3, False), ((63, 4, 6), 2, False), ((64, 8, 6), 2, False), ((65, 3, 6), 3, False),
         ((5, 68, 6), 2, False), ((8, 8, 1030), 2, False), ((8, 128, 6), 2, False), ((6, 7, 9), 2, True), ((12, 5, 6), 0, False),
         ((4, 68, 1030), 2, False), ((5, 64, 6), 2, False), ((6, 7, 9), 'dup', False)]
THOROUGH = QUICK + [((68, 68, 6), 3, False), ((129, 5, 6), 2, False), ((5, 129, 6), 2, False), ((128, 64, 6), 2, False), ((64, 64, 5), 3, False),
                    ((16, 16, 2050), 2, False), ((66, 9, 6), 2, True), ((7, 64, 6), 0, False), ((4, 128, 1025), 3, False)]


def make_source(d, shape, n_arrays, irregular, seed):
    """-> (path of a default-layout 2-bit SGZ, description)"""
    import segyio
    from seismic_zfp.conversion import NumpyConverter, SegyConverter
    rng = np.random.default_rng(seed)
    cube = rng.standard_normal(shape).astype(np.float32)
    src = os.path.join(d, 'src.sgz')
    il = [100 + 2 * k for k in range(shape[0])]
    xl = [7 + 3 * k for k in range(shape[1])]
    with G.LibVersion('0.2.8'), warnings.catch_warnings():
        warnings.simplefilter('ignore')
        if irregular or n_arrays == 0 or n_arrays == 'dup':
            present = None
            if irregular:
                present = np.ones(shape[:2], dtype=bool)
                present[0, 0] = False
                present[shape[0] // 2, shape[1] - 1] = False
                present[shape[0] - 1, 1] = False
            extra = {21: (np.arange(shape[0] * shape[1]) * 3 + 1).astype(np.int32)}
            if n_arrays == 'dup':
                # a duplicated header word (heuristic detection stores ONE array for SourceX and CDP_X) followed by further stored fields
                extra[73] = extra[181] = (np.arange(shape[0] * shape[1]) * 7 + 1000).astype(np.int32)
                extra[185] = (np.arange(shape[0] * shape[1]) % shape[1] + 5000).astype(np.int32)
            ntr = G.write_segy(os.path.join(d, 's.sgy'), cube, il, xl, present=present, extra_headers=extra)
            with SegyConverter(os.path.join(d, 's.sgy')) as c:
                c.run(src, bits_per_voxel=2, header_detection='strip' if n_arrays == 0 else 'heuristic')
        else:
            th = {}
            if n_arrays >= 3:
                th[segyio.tracefield.TraceField.CDP] = (np.arange(shape[0] * shape[1], dtype=np.int32) * 5 - 17).reshape(shape[:2])
            with NumpyConverter(cube, ilines=np.array(il, dtype=np.int32), xlines=np.array(xl, dtype=np.int32), trace_headers=th) as c:
                c.run(src, bits_per_voxel=2)
    return src


def check_case(shape, n_arrays, irregular, seed):
    from seismic_zfp.conversion import SgzConverter
    from seismic_zfp.read import SgzReader
    probs = []
    d = tempfile.mkdtemp(prefix='verif_c12_')
    try:
        src = make_source(d, shape, n_arrays, irregular, seed)
        out = os.path.join(d, 'adv.sgz')
        try:
            with SgzConverter(src) as c:
                c.convert_to_adv_sgz(out)
        except Exception as e:
            return [f'convert_to_adv_sgz raised {type(e).__name__}: {e}']
        a, b = open(src, 'rb').read(), open(out, 'rb').read()
        for p in S.check_conf(b):
            probs.append('adv file not conformant: ' + p)
        ha, hb = S.parse_header(a), S.parse_header(b)
        if hb['b'] != (64, 64, 4):
            probs.append(f"blockshape words {hb['b']}")
        for k in ('nZ', 'nX', 'nI', 'z0', 'xl0', 'il0', 'dz', 'xl_step', 'il_step', 'rate', 'alen', 'narrays', 'tracecount_word', 'version', 'hash', 'table'):
            if ha[k] != hb[k]:
                probs.append(f'header field {k} changed: {str(ha[k])[:40]} -> {str(hb[k])[:40]}')
        if a[4096:8192] != b[4096:8192]:
            probs.append('stored SEG-Y file header block changed')
        try:
            da, db = S.decode(a), S.decode(b)
            if not np.array_equal(da['volume'], db['volume']):
                probs.append(f"spec decode differs on {int((da['volume'] != db['volume']).sum())} real voxels")
            for code in da['arrays']:
                if code not in db['arrays'] or not np.array_equal(da['arrays'][code], db['arrays'][code]):
                    probs.append(f'footer array of field {code} differs under the spec decoder')
        except Exception as e:
            probs.append(f'spec decoder failed on the adv file: {type(e).__name__}: {e}')
        try:
            with SgzReader(src) as ra, SgzReader(out) as rb:
                if not np.array_equal(ra.read_volume(), rb.read_volume()):
                    probs.append('real reader: read_volume differs')
                if list(ra.ilines) != list(rb.ilines) or list(ra.xlines) != list(rb.xlines) or list(ra.zslices) != list(rb.zslices):
                    probs.append('real reader: axes differ')
                if ra.tracecount != rb.tracecount:
                    probs.append(f'real reader: tracecount {ra.tracecount} -> {rb.tracecount}')
                bad = 0
                for t in range(ra.tracecount):
                    if dict(ra.gen_trace_header(t)) != dict(rb.gen_trace_header(t)):
                        bad += 1
                if bad:
                    probs.append(f'real reader: {bad} of {ra.tracecount} trace headers differ')
                if ra.get_source_data_hash() != rb.get_source_data_hash():
                    probs.append('source-data hash changed')
        except Exception as e:
            probs.append(f'real reader failed on the adv file: {type(e).__name__}: {e}')
    except Exception as e:
        import traceback
        probs.append(f'harness error: {type(e).__name__}: {e} @ {traceback.format_exc().splitlines()[-3].strip()}')
    finally:
        shutil.rmtree(d, ignore_errors=True)
    return probs


def case_id(shape, n_arrays, irregular):
    return f"adv:{'x'.join(map(str, shape))}:arrays{n_arrays}:{'irregular' if irregular else 'regular'}"


def main():
    ap = argparse.ArgumentParser()
    ap.add_argument('--tier', default='quick')
    ap.add_argument('--seed', type=int, default=0)
    ap.add_argument('--replay', default=None)
    a = ap.parse_args()
    cases = THOROUGH if a.tier == 'thorough' else QUICK
    if a.replay:
        r = json.loads(a.replay)
        cases = [(tuple(r['shape']), r['n_arrays'], r['irregular'])]
    failures = []
    devnull = open(os.devnull, 'w')
    real_stdout = sys.stdout
    for (shape, n_arrays, irregular) in cases:
        sys.stdout = devnull
        try:
            probs = check_case(shape, n_arrays, irregular, a.seed)
        finally:
            sys.stdout = real_stdout
        if probs:
            failures.append({'id': case_id(shape, n_arrays, irregular), 'shape': list(shape), 'n_arrays': n_arrays, 'irregular': irregular, 'what': '; '.join(probs[:4])})
    if a.replay:
        print('REPRODUCED ' + failures[0]['what'] if failures else 'not reproduced')
        return
    print(json.dumps({'cases': len(cases), 'distinct_nontrivial': len(set(case_id(*c) for c in cases)), 'failures': failures, 'rule': 'default-layout 2-bit sources over a grid of cube shapes (below/at/above one and two 64-blocks per axis, '
                      'sample counts around 1024) x 0/2/3 stored header arrays (and one file with a duplicated header word) x regular/irregular; adv file vs source under the spec oracle and the real reader',
                      'bound': f'{len(cases)} listed (shape, arrays, regularity) cases', 'samples': [case_id(*c) for c in cases[:4]]}))


main()
