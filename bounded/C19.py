"""Bounded stand-in for C19 (labelled bounded, never counted as proved): the near-miss grid of the
property's quantifier executed on the real define_blockshape_3d/_2d under CPython against an
independent validity oracle written with exact fractions."""
import argparse
import itertools
import json
import random
import sys
from fractions import Fraction

from seismic_zfp.utils import define_blockshape_3d, define_blockshape_2d

RATES = [Fraction(1, 4), Fraction(1, 2), 1, 2, 4, 8, 16, 32]
POW2 = [2 ** j for j in range(2, 14)]


def oracle_valid(r, b, two_d):
    try:
        r = Fraction(r)
    except Exception:
        return False
    if r not in [Fraction(x) for x in RATES]:
        return False
    dims = b[1:] if two_d else b
    if two_d and b[0] != 1:
        return False
    if any(d not in POW2 for d in dims):
        return False
    if r * b[0] * b[1] * b[2] != 32768:
        return False
    if two_d and 16 * r < 9:
        return False
    return True


def requested(bits):
    v = float(bits) if isinstance(bits, str) else bits
    if v == -1:
        return None
    return Fraction(-1) / Fraction(v) if v < -1 else Fraction(v)


def run_case(bits, bs, two_d):
    fn = define_blockshape_2d if two_d else define_blockshape_3d
    try:
        r, b = fn(bits, bs)
    except Exception as e:
        # refused: must not have been a valid, fully determined request
        free = sum(1 for x in list(bs) + [float(bits) if isinstance(bits, str) else bits] if x == -1)
        if free <= 1:
            want_r = requested(bits)
            cands = []
            rs = [want_r] if want_r is not None else [Fraction(x) for x in RATES]
            for rr in rs:
                for k in range(3):
                    pass
                if -1 in bs:
                    k = list(bs).index(-1)
                    if two_d and k == 0:
                        continue
                    for d in POW2:
                        bb = list(bs); bb[k] = d
                        if oracle_valid(rr, bb, two_d):
                            cands.append((rr, bb))
                elif oracle_valid(rr, bs, two_d):
                    cands.append((rr, list(bs)))
            if cands:
                return f'valid setting refused with {type(e).__name__}: completion {cands[0]}'
        return None
    if not oracle_valid(r, b, two_d):
        return f'accepted invalid setting -> {(r, b)}'
    want_r = requested(bits)
    if want_r is not None and Fraction(r) != want_r:
        return f'rate changed: asked {want_r} got {r}'
    for k in range(3):
        if bs[k] != -1 and bs[k] != b[k]:
            return f'dimension {k} changed'
    return None


def main():
    ap = argparse.ArgumentParser()
    ap.add_argument('--tier', default='quick')
    ap.add_argument('--seed', type=int, default=0)
    ap.add_argument('--replay', default=None)
    a = ap.parse_args()
    if a.replay:
        fl = json.loads(a.replay)
        msg = run_case(fl['bits'], tuple(fl['blockshape']), fl['two_d'])
        print('REPRODUCED ' + msg if msg else 'not reproduced')
        return
    rnd = random.Random(a.seed)
    bits_grid = list(range(-16, -1)) + [-1, 0, 0.25, 0.5, 1, 2, 3, 4, 5, 6, 7, 8, 12, 16, 24, 32, 0.3, 0.75, 1.5, 2.0, 4.0,
                                         0.1, 33, 64, '0.25', '0.5', '1', '2', '4', '8', '16', '32', '-1', '-2', '-4', '3', '0.3',
                                         0.49999999999999994, 0.5000000000000001, 3.9999999999999996, 4.000000000000001]
    dims = [-1, 0, 1, 2, 3, 4, 5, 6, 8, 12, 16, 32, 48, 64, 128, 256, 512, 1000, 1024, 2048, 4096, 8192, 16384, -4, -8]
    cases = []
    for bits in bits_grid:
        for bs in itertools.product(dims, repeat=3):
            p = 1
            for d in bs:
                p *= abs(d) if d not in (0, -1) else 1
            if p <= 2 ** 17:
                cases.append((bits, bs))
    if a.tier == 'quick':
        rnd.shuffle(cases)
        cases = cases[:20000]
    failures = []
    n = 0
    seen = set()
    for bits, bs in cases:
        for two_d in (False, True):
            if two_d and bs[0] != 1:
                continue
            n += 1
            seen.add((repr(bits), bs, two_d))
            msg = run_case(bits, bs, two_d)
            if msg:
                failures.append({'id': f'{bits!r}|{bs}|{two_d}', 'bits': bits, 'blockshape': list(bs), 'two_d': two_d, 'what': msg})
    print(json.dumps({'cases': n, 'distinct_nontrivial': len(seen), 'failures': failures[:50],
                      'rule': 'grid bits_per_voxel (ints -16..64, dyadic and non-dyadic floats, adjacent floats, numeric strings) x blockshape in a '
                              '25-value set^3 with product <= 2^17; every case distinct; quick = random 20000-case subset, thorough = whole grid',
                      'samples': [{'bits': repr(c[0]), 'blockshape': c[1]} for c in cases[:5]], 'bound': 'finite grid as stated'}))


main()
