"""Independent spec-level SGZ encoder / decoder / conformance checker (DESIGN section 3).

Written from docs/file-specification.md and the README only; shares no code with seismic_zfp.
Runs under /venv/bin/python (needs numpy + zfpy).  Everything is done cell by cell (4x4x4 or 4x4
compression units), so it does not rely on the stream-order axiom AX-ZFP-ENC/DEC it is used to probe.

Layout (3-D):  blocks of shape b = (b0,b1,b2) voxels, 4096 bytes each, in C order of block
coordinates; inside a block the cells (a_k = b_k/4 per axis) in C order; each cell ub = 64*rate/8
bytes.  2-D: b0 = 1, cells are 4x4, ub = 16*rate/8.
"""
import struct
from fractions import Fraction

import numpy as np
import zfpy

BLK = 4096
ZT = zfpy.dtype_to_ztype(np.dtype('float32'))


def pad_to(n, m):
    return m * ((n + m - 1) // m)


def unit_bytes(rate, ndim):
    v = Fraction(rate) * (4 ** ndim) / 8
    assert v.denominator == 1, (rate, ndim)
    return int(v)


def enc_cell(cell, rate):
    """ub bytes of one 4x4x4 / 4x4 cell at fixed rate (zfp pads the stream to 64-bit words)."""
    ub = unit_bytes(rate, cell.ndim)
    raw = zfpy.compress_numpy(np.ascontiguousarray(cell, dtype=np.float32), rate=float(rate), write_header=False)
    return bytes(raw[:ub])


def dec_cell(buf, rate, ndim):
    ub = unit_bytes(rate, ndim)
    assert len(buf) == ub
    padded = bytes(buf) + bytes((-len(buf)) % 8)
    return zfpy._decompress(padded, ZT, (4,) * ndim, rate=float(rate))


def edge_pad(cube, shape):
    pads = [(0, s - d) for d, s in zip(cube.shape, shape)]
    return np.pad(cube, pads, 'edge')


def zero_pad(cube, shape):
    pads = [(0, s - d) for d, s in zip(cube.shape, shape)]
    return np.pad(cube, pads, 'constant')


def spec_off3(iu, xu, zu, G, a, ub):
    blk = ((iu // a[0]) * G[1] + xu // a[1]) * G[2] + zu // a[2]
    cell = ((iu % a[0]) * a[1] + xu % a[1]) * a[2] + zu % a[2]
    return BLK * blk + ub * cell


def spec_off2(xu, zu, G, a, ub):
    blk = (xu // a[1]) * G[2] + zu // a[2]
    cell = (xu % a[1]) * a[2] + zu % a[2]
    return BLK * blk + ub * cell


def zfp_image(cube, rate):
    """DEC(ENC(cell)) cell by cell of a cube whose dims are multiples of 4 (2-D or 3-D)."""
    out = np.zeros(cube.shape, dtype=np.float32)
    nd = cube.ndim
    if nd == 3:
        for i in range(0, cube.shape[0], 4):
            for x in range(0, cube.shape[1], 4):
                for z in range(0, cube.shape[2], 4):
                    out[i:i+4, x:x+4, z:z+4] = dec_cell(enc_cell(cube[i:i+4, x:x+4, z:z+4], rate), rate, 3)
    else:
        for x in range(0, cube.shape[0], 4):
            for z in range(0, cube.shape[1], 4):
                out[x:x+4, z:z+4] = dec_cell(enc_cell(cube[x:x+4, z:z+4], rate), rate, 2)
    return out


def expected_readback(cube, rate, blockshape, fill='edge'):
    """The volume a conforming reader returns for `cube` written with (rate, blockshape): the ZFP
    fixed-rate image of the cube padded to the blockshape, restricted to the real extent."""
    if cube.ndim == 3:
        P = tuple(pad_to(n, b) for n, b in zip(cube.shape, blockshape))
    else:
        P = (pad_to(cube.shape[0], blockshape[1]), pad_to(cube.shape[1], blockshape[2]))
    padded = edge_pad(cube, P) if fill == 'edge' else zero_pad(cube, P)
    img = zfp_image(padded, rate)
    return img[tuple(slice(0, n) for n in cube.shape)]


def enc_version(major, minor, patch, dev=False):
    return (major << 21) + (minor << 11) + 2 * patch + (0 if dev else 1)


def dec_version(e):
    return (e >> 21, (e >> 11) & 1023, (e >> 1) & 1023, e % 2 == 0)


def rate_code(rate):
    r = Fraction(rate)
    return int(r) if r >= 1 else -int(1 / r)


def code_rate(c):
    return Fraction(c) if c > 0 else Fraction(1, -c)


def footer_stride(version_enc, alen):
    if version_enc > enc_version(0, 2, 1):
        return 512 * ((alen + 511) // 512)
    return alen


def encode(cube, rate, blockshape, ilines=None, xlines=None, z0_ms=0, dz_us=4000, header_arrays=None,
           constants=None, aliases=None, version=(0, 2, 5, False), tracecount=None, segy_header=None,
           fill='edge', hash20=None, source_code=20, detection_code=0, cell_bytes=None):
    """Write an SGZ file image (bytes) straight from the specification.

    cube: float32 (nI,nX,nZ) for 3-D, (nT,nZ) for 2-D (blockshape[0] == 1).
    header_arrays: {field code: int32 array of length nI*nX (or nT)} stored in ascending code order.
    constants: {field code: constant value};  aliases: {field code: code of a stored array}.
    cell_bytes: optional callable (cell coordinates tuple) -> ub bytes overriding the encoder (used to
                build files with recognisable / random cells cheaply)."""
    rate = Fraction(rate)
    two_d = cube.ndim == 2
    b = tuple(blockshape)
    ver = enc_version(*version)
    if two_d:
        nT, nZ = cube.shape
        P = (1, pad_to(nT, b[1]), pad_to(nZ, b[2]))
        ub = unit_bytes(rate, 2)
        grid = nT
    else:
        nI, nX, nZ = cube.shape
        P = tuple(pad_to(n, bb) for n, bb in zip(cube.shape, b))
        ub = unit_bytes(rate, 3)
        grid = nI * nX
    G = tuple(p // bb for p, bb in zip(P, b))
    a = tuple(max(bb // 4, 1) for bb in b)
    nblocks = G[0] * G[1] * G[2]
    data = bytearray(BLK * nblocks)
    padded = (edge_pad if fill == 'edge' else zero_pad)(cube, P[1:] if two_d else P)
    if two_d:
        for xu in range(P[1] // 4):
            for zu in range(P[2] // 4):
                off = spec_off2(xu, zu, G, a, ub)
                cb = cell_bytes((xu, zu)) if cell_bytes else enc_cell(padded[4*xu:4*xu+4, 4*zu:4*zu+4], rate)
                data[off:off+ub] = cb
    else:
        for iu in range(P[0] // 4):
            for xu in range(P[1] // 4):
                for zu in range(P[2] // 4):
                    off = spec_off3(iu, xu, zu, G, a, ub)
                    cb = cell_bytes((iu, xu, zu)) if cell_bytes else \
                        enc_cell(padded[4*iu:4*iu+4, 4*xu:4*xu+4, 4*zu:4*zu+4], rate)
                    data[off:off+ub] = cb
    header_arrays = dict(sorted((header_arrays or {}).items()))
    constants = constants or {}
    aliases = aliases or {}
    h = bytearray(2 * BLK)
    P32 = lambda v: struct.pack('<I', v)
    S32 = lambda v: struct.pack('<i', v)
    h[0:4] = P32(2)
    h[4:8] = P32(nZ)
    h[16:20] = S32(int(z0_ms))
    h[28:32] = S32(int(dz_us))
    if not two_d:
        ilines = list(range(nI)) if ilines is None else list(ilines)
        xlines = list(range(nX)) if xlines is None else list(xlines)
        h[8:12] = P32(nX)
        h[12:16] = P32(nI)
        h[20:24] = S32(xlines[0])
        h[24:28] = S32(ilines[0])
        h[32:36] = S32(xlines[1] - xlines[0] if nX > 1 else 1)
        h[36:40] = S32(ilines[1] - ilines[0] if nI > 1 else 1)
    h[40:44] = S32(rate_code(rate))
    h[44:48] = P32(b[0]); h[48:52] = P32(b[1]); h[52:56] = P32(b[2])
    h[56:60] = P32(nblocks)
    alen = 4 * grid
    h[60:64] = P32(alen)
    h[64:68] = P32(len(header_arrays))
    h[68:72] = P32(grid if tracecount is None else tracecount)
    h[72:76] = P32(ver)
    h[76:80] = P32(source_code)
    h[80:84] = P32(detection_code)
    if hash20 is not None:
        h[960:980] = hash20
    rows = table_rows(header_arrays.keys(), constants, aliases)
    for i, (code, const, ref) in enumerate(rows):
        h[980+12*i:980+12*i+12] = S32(code) + S32(const) + S32(ref)
    if segy_header is not None:
        assert len(segy_header) == 3600
        h[BLK:BLK+3600] = segy_header
    out = bytes(h) + bytes(data)
    stride = footer_stride(ver, alen)
    for code, arr in header_arrays.items():
        raw = np.asarray(arr, dtype='<i4').tobytes()
        assert len(raw) == alen
        out += raw + bytes(stride - alen)
    return out


TRACE_FIELD_CODES = [1, 5, 9, 13, 17, 21, 25, 29, 31, 33, 35, 37, 41, 45, 49, 53, 57, 61, 65, 69, 71, 73, 77, 81, 85, 89,
                     91, 93, 95, 97, 99, 101, 103, 105, 107, 109, 111, 113, 115, 117, 119, 121, 123, 125, 127, 129, 131,
                     133, 135, 137, 139, 141, 143, 145, 147, 149, 151, 153, 155, 157, 159, 161, 163, 165, 167, 169, 171,
                     173, 175, 177, 179, 181, 185, 189, 193, 197, 201, 203, 205, 209, 211, 213, 215, 217, 219, 223, 225,
                     229, 231]     # SEG-Y rev1 trace header field start bytes (the 89 fields of the spec's table)
assert len(TRACE_FIELD_CODES) == 89


def table_rows(stored, constants, aliases):
    stored = set(stored)
    rows = []
    for code in TRACE_FIELD_CODES:
        if code in stored:
            rows.append((code, 0, code))
        elif code in aliases:
            rows.append((code, 0, aliases[code]))
        else:
            rows.append((code, int(constants.get(code, 0)), 0))
    return rows


def parse_header(buf):
    U = lambda o: struct.unpack('<I', buf[o:o+4])[0]
    S = lambda o: struct.unpack('<i', buf[o:o+4])[0]
    h = dict(nblocks=U(0), nZ=U(4), nX=U(8), nI=U(12), z0=S(16), xl0=S(20), il0=S(24), dz=S(28), xl_step=S(32),
             il_step=S(36), rate=code_rate(S(40)) if S(40) != 0 else None, b=(U(44), U(48), U(52)), diskblocks=U(56),
             alen=U(60), narrays=U(64), tracecount_word=U(68), version=U(72), source=U(76), detection=U(80),
             hash=bytes(buf[960:980]))
    h['table'] = [(S(980+12*i), S(984+12*i), S(988+12*i)) for i in range(89)]
    if h['b'] == (0, 0, 0) and h['rate']:
        # files written before the blockshape words existed: 4 x 4 x (2048/rate)
        h['b'] = (4, 4, int(2048 / h['rate']))
    return h


def check_conf(buf, expect_version=None):
    """Conformance problems of an SGZ file image w.r.t. the specification (empty list = conformant)."""
    probs = []
    if len(buf) < 2 * BLK:
        return ['file shorter than the 8192-byte header']
    h = parse_header(buf)
    if h['nblocks'] not in (1, 2):
        probs.append(f"header block count {h['nblocks']}")
    r, b = h['rate'], h['b']
    if r is None or r not in [Fraction(1, 4), Fraction(1, 2), 1, 2, 4, 8, 16, 32]:
        probs.append(f'bit rate {r}')
        return probs
    two_d = b[0] == 1
    dims = b[1:] if two_d else b
    if any(d < 4 or d & (d - 1) for d in dims):
        probs.append(f'blockshape {b} not powers of two >= 4')
        return probs
    if r * b[0] * b[1] * b[2] != 32768:
        probs.append(f'block is {r*b[0]*b[1]*b[2]} bits, not 32768')
    ver = h['version']
    newer = ver > enc_version(0, 2, 1)
    if two_d:
        nT = h['tracecount_word'] if newer else h['alen'] // 4
        P = (1, pad_to(nT, b[1]), pad_to(h['nZ'], b[2]))
        grid = nT
    else:
        P = (pad_to(h['nI'], b[0]), pad_to(h['nX'], b[1]), pad_to(h['nZ'], b[2]))
        grid = h['nI'] * h['nX']
    if 8 * BLK * h['diskblocks'] != r * P[0] * P[1] * P[2]:
        probs.append(f"disk blocks {h['diskblocks']} != padded voxels x bits / 8 / 4096 = {r*P[0]*P[1]*P[2]/8/BLK}")
    if h['alen'] != 4 * grid:
        probs.append(f"array length word {h['alen']} != 4 x grid traces {4*grid}")
    self_rows = [t for t in h['table'] if t[0] == t[2] and t[0] != 0]
    if h['narrays'] != len(self_rows):
        probs.append(f"array count {h['narrays']} != self-pointing table rows {len(self_rows)}")
    codes = [t[0] for t in h['table']]
    if codes != TRACE_FIELD_CODES:
        probs.append('table rows are not the 89 trace-header fields in order')
    stored = set(t[0] for t in self_rows)
    for (code, const, ref) in h['table']:
        if ref != 0 and ref != code and ref not in stored:
            probs.append(f'table row {code} aliases {ref} which is not stored')
    stride = footer_stride(ver, h['alen'])
    want = BLK * h['nblocks'] + BLK * h['diskblocks'] + h['narrays'] * stride
    if len(buf) != want:
        if not (not newer and len(buf) == want) :
            probs.append(f'file length {len(buf)} != header + data + {h["narrays"]} arrays x stride {stride} = {want}')
    if newer and not two_d and h['tracecount_word'] > grid:
        probs.append(f"trace count {h['tracecount_word']} exceeds grid {grid}")
    if expect_version is not None and ver != expect_version:
        probs.append(f'version word {dec_version(ver)} != writing library {dec_version(expect_version)}')
    return probs


def decode(buf):
    """Spec decoder: header dict + padded decoded volume + footer arrays (by field code)."""
    h = parse_header(buf)
    r, b = h['rate'], h['b']
    two_d = b[0] == 1
    ver = h['version']
    newer = ver > enc_version(0, 2, 1)
    data0 = BLK * h['nblocks']
    if two_d:
        nT = h['tracecount_word'] if newer else h['alen'] // 4
        P = (1, pad_to(nT, b[1]), pad_to(h['nZ'], b[2]))
        ub = unit_bytes(r, 2)
    else:
        P = (pad_to(h['nI'], b[0]), pad_to(h['nX'], b[1]), pad_to(h['nZ'], b[2]))
        ub = unit_bytes(r, 3)
    G = tuple(p // bb for p, bb in zip(P, b))
    a = tuple(max(bb // 4, 1) for bb in b)
    if two_d:
        vol = np.zeros(P[1:], dtype=np.float32)
        for xu in range(P[1] // 4):
            for zu in range(P[2] // 4):
                o = data0 + spec_off2(xu, zu, G, a, ub)
                vol[4*xu:4*xu+4, 4*zu:4*zu+4] = dec_cell(buf[o:o+ub], r, 2)
        real = vol[:nT, :h['nZ']]
    else:
        vol = np.zeros(P, dtype=np.float32)
        for iu in range(P[0] // 4):
            for xu in range(P[1] // 4):
                for zu in range(P[2] // 4):
                    o = data0 + spec_off3(iu, xu, zu, G, a, ub)
                    vol[4*iu:4*iu+4, 4*xu:4*xu+4, 4*zu:4*zu+4] = dec_cell(buf[o:o+ub], r, 3)
        real = vol[:h['nI'], :h['nX'], :h['nZ']]
    foot0 = data0 + BLK * h['diskblocks']
    stride = footer_stride(ver, h['alen'])
    arrays = {}
    k = 0
    for (code, const, ref) in h['table']:
        if code == ref and code != 0:
            o = foot0 + k * stride
            arrays[code] = np.frombuffer(buf[o:o+h['alen']], dtype='<i4').copy()
            k += 1
    h.update(padded=vol, volume=real, arrays=arrays, foot0=foot0, stride=stride, P=P, G=G, ub=ub, two_d=two_d,
             data0=data0)
    return h


def header_value(h, code, g):
    """value of trace-header field `code` at grid position g per the table + footer"""
    for (c, const, ref) in h['table']:
        if c == code:
            if ref == 0 or const != 0:
                return const
            return int(h['arrays'][ref][g])
    raise KeyError(code)
