"""SEG-Y generators for replays and bounded stand-ins (uses segyio only; run under /venv/bin/python)."""
import numpy as np
import segyio


def write_segy(path, cube, ilines, xlines, t0_ms=0, dt_us=4000, fmt=5, present=None, extra_headers=None, two_d=False):
    """cube: (nI,nX,nZ) float32 (or (nT,nZ) when two_d).  present: optional boolean (nI,nX) mask of traces that exist
    (irregular survey; traces written inline-sorted).  extra_headers: {field code: int array over written traces}."""
    if two_d:
        nT, nZ = cube.shape
        spec = segyio.spec()
        spec.samples = t0_ms + np.arange(nZ) * (dt_us / 1000.0)
        spec.tracecount = nT
        spec.format = fmt
        with segyio.create(path, spec) as f:
            for t in range(nT):
                f.trace[t] = cube[t]
                h = {segyio.TraceField.TRACE_SEQUENCE_FILE: t + 1, segyio.TraceField.TRACE_SAMPLE_COUNT: nZ,
                     segyio.TraceField.TRACE_SAMPLE_INTERVAL: dt_us, segyio.TraceField.DelayRecordingTime: t0_ms}
                for k, arr in (extra_headers or {}).items():
                    h[k] = int(arr[t])
                f.header[t] = h
            f.bin[segyio.BinField.Interval] = dt_us
            f.bin[segyio.BinField.Samples] = nZ
        return nT
    nI, nX, nZ = cube.shape
    ilines, xlines = list(ilines), list(xlines)
    if present is None:
        spec = segyio.spec()
        spec.sorting = 2
        spec.format = fmt
        spec.samples = t0_ms + np.arange(nZ) * (dt_us / 1000.0)
        spec.ilines = ilines
        spec.xlines = xlines
        with segyio.create(path, spec) as f:
            t = 0
            for i in range(nI):
                for x in range(nX):
                    f.trace[t] = cube[i, x]
                    h = {segyio.TraceField.INLINE_3D: ilines[i], segyio.TraceField.CROSSLINE_3D: xlines[x], segyio.TraceField.offset: 0,
                         segyio.TraceField.TRACE_SEQUENCE_FILE: t + 1, segyio.TraceField.TRACE_SAMPLE_COUNT: nZ,
                         segyio.TraceField.TRACE_SAMPLE_INTERVAL: dt_us, segyio.TraceField.DelayRecordingTime: t0_ms}
                    for k, arr in (extra_headers or {}).items():
                        h[k] = int(arr[t])
                    f.header[t] = h
                    t += 1
            f.bin[segyio.BinField.Interval] = dt_us
            f.bin[segyio.BinField.Samples] = nZ
        return nI * nX
    idx = [(i, x) for i in range(nI) for x in range(nX) if present[i, x]]
    spec = segyio.spec()
    spec.samples = t0_ms + np.arange(nZ) * (dt_us / 1000.0)
    spec.tracecount = len(idx)
    spec.format = fmt
    with segyio.create(path, spec) as f:
        for t, (i, x) in enumerate(idx):
            f.trace[t] = cube[i, x]
            h = {segyio.TraceField.INLINE_3D: ilines[i], segyio.TraceField.CROSSLINE_3D: xlines[x], segyio.TraceField.offset: 0,
                 segyio.TraceField.TRACE_SEQUENCE_FILE: t + 1, segyio.TraceField.TRACE_SAMPLE_COUNT: nZ,
                 segyio.TraceField.TRACE_SAMPLE_INTERVAL: dt_us, segyio.TraceField.DelayRecordingTime: t0_ms}
            for k, arr in (extra_headers or {}).items():
                h[k] = int(arr[t])
            f.header[t] = h
        f.bin[segyio.BinField.Interval] = dt_us
        f.bin[segyio.BinField.Samples] = nZ
    return len(idx)


class LibVersion:
    """context manager: make the writer stamp a given library version (the sandbox's distribution metadata says
    0.1.dev1, which makes the reader apply pre-0.2.2 conventions to freshly written files: known finding C03/KF-VERSION)"""
    def __init__(self, version='0.2.8'):
        self.version = version

    def __enter__(self):
        import seismic_zfp.conversion_utils as cu

        class _D:
            version = self.version

        class _P:
            @staticmethod
            def get_distribution(name):
                return _D
        self._cu = cu
        self._old = cu.pkg_resources
        cu.pkg_resources = _P
        return self

    def __exit__(self, *a):
        self._cu.pkg_resources = self._old
