"""Native replay for C16: force the schedule of a counterexample on the real pipeline (run under /venv/bin/python).

argv[1] = JSON {'schedule': [step names from pyvc.threads], 'N': plane sets}.  The replay patches queue.Queue *as seen by
seismic_zfp.conversion_utils* with a subclass that stalls a worker right after the task_done() the schedule says is
followed by the main thread's return, runs a NumPy conversion, and compares the output with the same conversion run
without stalls (and with the layout header + blocks in order + footer).  Prints one JSON line."""
import json
import os
import sys
import tempfile
import threading
import time
import queue as _queue

import numpy as np

HERE = os.path.dirname(os.path.abspath(__file__))
sys.path.insert(0, os.path.dirname(HERE))


def run(n_sets, stall_on, tmp):
    import seismic_zfp.conversion_utils as cu
    from seismic_zfp.conversion import NumpyConverter
    from oracle.segygen import LibVersion
    errors = []
    old_hook = threading.excepthook
    threading.excepthook = lambda a: errors.append(f'{a.exc_type.__name__}: {a.exc_value}')
    made = []

    class StallQueue(_queue.Queue):
        def __init__(self, *a, **k):
            super().__init__(*a, **k)
            self.idx = len(made)
            made.append(self)
            self.done = 0

        def task_done(self):
            super().task_done()
            self.done += 1
            if stall_on is not None and self.idx == stall_on and self.done == n_sets:
                time.sleep(0.6)
    old_q = cu.Queue
    cu.Queue = StallQueue
    fn = os.path.join(tmp, f'p_{stall_on}.sgz')
    try:
        rng = np.random.default_rng(0)
        cube = rng.standard_normal((4 * n_sets, 5, 6)).astype(np.float32)
        hdr = {189: np.repeat(np.arange(4 * n_sets, dtype=np.int32), 5).reshape(4 * n_sets, 5)}
        with LibVersion('0.2.8'):
            with NumpyConverter(cube, trace_headers=hdr) as c:
                c.run(fn, bits_per_voxel=8)
        time.sleep(0.8)            # let stalled workers finish whatever they still do
        data = open(fn, 'rb').read()
    except Exception as e:
        errors.append(f'{type(e).__name__}: {e}')
        data = b''
    finally:
        cu.Queue = old_q
        threading.excepthook = old_hook
    return data, errors


def main():
    req = json.loads(sys.argv[1])
    n_sets = int(req.get('N', 1))
    tmp = tempfile.mkdtemp(prefix='verif_pipe_')
    out = {'reproduced': False, 'detail': []}
    try:
        base, e0 = run(n_sets, None, tmp)
        for stall in (0, 1):
            data, errs = run(n_sets, stall, tmp)
            if errs or data != base:
                out['reproduced'] = True
                out['detail'].append({'stalled_after_last_task_done_of_queue': ['compression_queue', 'writing_queue'][stall],
                                      'worker_errors': errs, 'file_differs_from_unstalled_run': data != base,
                                      'lengths': [len(base), len(data)]})
        if e0:
            out['reproduced'] = True
            out['detail'].append({'unstalled_run_errors': e0})
        if not out['detail']:
            out['detail'] = 'stalled runs produced the same file and no worker error'
    finally:
        import shutil
        shutil.rmtree(tmp, ignore_errors=True)
    out['case'] = {'route': 'NumpyConverter', 'plane_sets': n_sets, 'schedule': req.get('schedule', [])[:40]}
    print(json.dumps(out, default=str))


main()
