"""Concrete execution of one read call of the real code against the independent oracle.

Used (a) to replay counter-models of the deductive stage, (b) by the bounded stand-ins.  Runs under
/venv/bin/python.  A *case* is a dict:
   {'shape': [nI,nX,nZ] | [nT,nZ], 'rate': r, 'blockshape': [b0,b1,b2], 'method': name, 'args': {...},
    'preload': bool, 'seed': int}
The verdict lists every discrepancy between the real behaviour and what the specification demands:
value (bitwise vs the spec decoder), exception class (IndexError iff out of the real extent), and the backend
read log (inside the data section, no byte twice, only blocks / units the request needs).
"""
import io
import os
import sys
import tempfile
import traceback
from fractions import Fraction

import numpy as np

HERE = os.path.dirname(os.path.abspath(__file__))
sys.path.insert(0, os.path.dirname(HERE))
from oracle import specsgz as S      # noqa: E402


class CountingFile(io.FileIO):
    """file object logging every (offset, requested, returned) read; optional fault injection"""
    def __init__(self, *a, **k):
        super().__init__(*a, **k)
        self.log = []
        self._p = 0
        self.fault = None          # (k, kind): fail the k-th read from now: 'raise' | 'short' | 'empty'
        self._count = 0

    def seek(self, o, w=0):
        self._p = o
        return super().seek(o, w)

    def read(self, n=-1):
        if self.fault is not None:
            k, kind = self.fault
            if self._count == k:
                self._count += 1
                if kind == 'raise':
                    raise OSError('injected I/O error')
                b = super().read(n)
                b = b[:len(b) // 2] if kind == 'short' else b''
                self.log.append((self._p, n, len(b)))
                return b
        self._count += 1
        b = super().read(n)
        self.log.append((self._p, n, len(b)))
        return b


_FILE_CACHE = {}


def oracle_file(shape, rate, blockshape, seed=0, tmpdir=None, version=(0, 2, 5, False), cheap=True):
    """SGZ image written by the spec encoder; cells are random bytes decoded by zfp (cheap) or a real cube"""
    key = (tuple(shape), str(rate), tuple(blockshape), seed, version)
    if key in _FILE_CACHE and os.path.exists(_FILE_CACHE[key][0]):
        return _FILE_CACHE[key]
    rng = np.random.default_rng(seed)
    two_d = len(shape) == 2
    cube = rng.standard_normal(shape).astype(np.float32)
    n_tr = shape[0] if two_d else shape[0] * shape[1]
    hdr = {189: (np.arange(n_tr) // (1 if two_d else shape[1]) + 100).astype(np.int32),
           193: (np.arange(n_tr) % (n_tr if two_d else shape[1]) * 2 + 7).astype(np.int32),
           1: np.arange(1, n_tr + 1, dtype=np.int32)}
    kw = {}
    if not two_d:
        kw = dict(ilines=range(100, 100 + shape[0]), xlines=range(7, 7 + 2 * shape[1], 2))
    buf = S.encode(cube, Fraction(rate), tuple(blockshape), header_arrays=hdr, constants={115: shape[-1], 117: 4000},
                   version=version, **kw)
    d = tmpdir or tempfile.mkdtemp(prefix='verif_sgz_')
    fn = os.path.join(d, f'o_{abs(hash(key))}.sgz')
    with open(fn, 'wb') as f:
        f.write(buf)
    dec = S.decode(buf)
    _FILE_CACHE[key] = (fn, dec, hdr)
    return _FILE_CACHE[key]


def blocks_of_box(dec, lo, hi):
    """set of data-section block numbers intersecting the (padded-index) box"""
    b, G = dec['h_b'], dec['G']
    out = set()
    if dec['two_d']:
        for bx in range(lo[0] // b[1], (hi[0] - 1) // b[1] + 1):
            for bz in range(lo[1] // b[2], (hi[1] - 1) // b[2] + 1):
                out.add(bx * G[2] + bz)
        return out
    for bi in range(lo[0] // b[0], (hi[0] - 1) // b[0] + 1):
        for bx in range(lo[1] // b[1], (hi[1] - 1) // b[1] + 1):
            for bz in range(lo[2] // b[2], (hi[2] - 1) // b[2] + 1):
                out.add((bi * G[1] + bx) * G[2] + bz)
    return out


def expected(dec, method, args):
    """(kind, value): kind in value|IndexError|WrongDim ; plus the box (padded index space) the call needs"""
    V = dec['volume']
    two_d = dec['two_d']
    n = V.shape
    g = lambda k, d=None: args.get(k, d)
    if two_d:
        if method in ('read_inline', 'read_crossline', 'read_zslice', 'read_subvolume', 'read_volume',
                      'read_correlated_diagonal', 'read_anticorrelated_diagonal'):
            return 'WrongDim', None, None
        if method == 'read_subplane':
            a, b_, c, d = g('min_trace'), g('max_trace'), g('min_z'), g('max_z')
            if not (0 <= a < b_ <= n[0] and 0 <= c < d <= n[1]):
                return 'IndexError', None, None
            return 'value', V[a:b_, c:d], ([a, c], [b_, d])
        if method == 'get_trace':
            i = g('index')
            lo = 0 if g('min_sample_id') is None else g('min_sample_id')
            hi = n[1] if g('max_sample_id') is None else g('max_sample_id')
            if not (0 <= i < n[0] and 0 <= lo < hi <= n[1]):
                return 'IndexError', None, None
            b1 = dec['h_b'][1]
            tb = b1 * (i // b1)
            return 'value', V[i, lo:hi], ([tb, 0], [tb + b1, dec['P'][2] if b1 == 4 else n[1]])
        raise KeyError(method)
    if method == 'read_subplane':
        return 'WrongDim', None, None
    if method == 'read_inline':
        i = g('il_id')
        if not 0 <= i < n[0]:
            return 'IndexError', None, None
        return 'value', V[i], ([i, 0, 0], [i + 1, n[1], n[2]])
    if method == 'read_crossline':
        i = g('xl_id')
        if not 0 <= i < n[1]:
            return 'IndexError', None, None
        return 'value', V[:, i, :], ([0, i, 0], [n[0], i + 1, n[2]])
    if method == 'read_zslice':
        i = g('zslice_id')
        if not 0 <= i < n[2]:
            return 'IndexError', None, None
        return 'value', V[:, :, i], ([0, 0, i], [n[0], n[1], i + 1])
    if method == 'read_volume':
        return 'value', V, ([0, 0, 0], list(n))
    if method == 'read_subvolume':
        lo = [g('min_il'), g('min_xl'), g('min_z')]
        hi = [g('max_il'), g('max_xl'), g('max_z')]
        ext = dec['P'] if g('access_padding', False) else n
        if not all(0 <= lo[k] < hi[k] <= ext[k] for k in range(3)):
            return 'IndexError', None, None
        src = dec['padded'] if g('access_padding', False) else V
        return 'value', src[lo[0]:hi[0], lo[1]:hi[1], lo[2]:hi[2]], (lo, hi)
    if method in ('read_correlated_diagonal', 'read_anticorrelated_diagonal'):
        anti = method.startswith('read_anti')
        p = 'ad' if anti else 'cd'
        d = g(p + '_id')
        if anti:
            pts = [(i, d - i) for i in range(n[0]) if 0 <= d - i < n[1]]
            ok_id = 0 <= d < n[0] + n[1] - 1
        else:
            pts = [(x + d, x) for x in range(n[1]) if 0 <= x + d < n[0]]
            ok_id = -n[1] < d < n[0]
        if not ok_id:
            return 'IndexError', None, None
        a_, b_ = g('min_' + p + '_idx'), g('max_' + p + '_idx')
        if a_ is not None and b_ is not None:
            if not 0 <= a_ < b_ <= len(pts):
                return 'IndexError', None, None
            pts = pts[a_:b_]
        lo, hi = g('min_sample_idx'), g('max_sample_idx')
        if lo is not None and hi is not None:
            if not 0 <= lo < hi <= n[2]:
                return 'IndexError', None, None
        else:
            lo, hi = 0, n[2]
        return 'value', np.array([V[i, x, lo:hi] for (i, x) in pts], dtype=np.float64), None
    if method == 'get_trace':
        i = g('index')
        lo = 0 if g('min_sample_id') is None else g('min_sample_id')
        hi = n[2] if g('max_sample_id') is None else g('max_sample_id')
        if not (0 <= i < n[0] * n[1] and 0 <= lo < hi <= n[2]):
            return 'IndexError', None, None
        il, xl = divmod(i, n[1])
        return 'value', V[il, xl, lo:hi], ([il, xl, lo], [il + 1, xl + 1, hi])
    raise KeyError(method)


def run_case(case, tmpdir=None):
    """-> list of discrepancy strings (empty = the real code behaves as specified on this case)"""
    from seismic_zfp.read import SgzReader
    from seismic_zfp.utils import WrongDimensionalityError
    fn, dec, hdr = oracle_file(case['shape'], case['rate'], case['blockshape'], case.get('seed', 0), tmpdir)
    dec['h_b'] = dec['b']
    probs = []
    f = CountingFile(fn, 'rb')
    try:
        rd = SgzReader(f, preload=bool(case.get('preload')))
        open_reads = list(f.log)
        f.log.clear()
        kind, val, box = expected(dec, case['method'], case['args'])
        try:
            got = getattr(rd, case['method'])(**case['args'])
            exc = None
        except WrongDimensionalityError as e:
            got, exc = None, 'WrongDim'
        except IndexError as e:
            got, exc = None, 'IndexError'
        except Exception as e:
            got, exc = None, type(e).__name__
        if kind != 'value':
            if exc != kind:
                probs.append(f'expected {kind}, got {"a result of shape " + str(np.shape(got)) if exc is None else exc}')
        else:
            if exc is not None:
                probs.append(f'in-range call raised {exc}')
            else:
                got = np.asarray(got)
                want = np.asarray(val)
                if got.shape != want.shape and not (got.ndim == 0 and want.size == 1):
                    probs.append(f'shape {got.shape} != expected {want.shape}')
                elif not np.array_equal(got.reshape(want.shape), want):
                    probs.append(f'values differ from the spec decode at {int((got.reshape(want.shape) != want).sum())} positions')
            # read log
            d0, d1 = dec['data0'], dec['data0'] + S.BLK * dec['diskblocks']
            if case.get('preload'):
                if f.log:
                    probs.append(f'preload: {len(f.log)} backend reads after open')
            else:
                need = blocks_of_box(dec, *box) if box is not None else None
                if box is None:
                    f.log.clear()      # (diagonals: read log not specified here)
                seen = []
                for (off, req, ret) in f.log:
                    if ret != req:
                        probs.append(f'short read at {off} ({ret} of {req})')
                    if off < d0 or off + req > d1:
                        probs.append(f'read [{off},{off+req}) outside the data section [{d0},{d1})')
                        continue
                    for (o2, r2) in seen:
                        if off < o2 + r2 and o2 < off + req:
                            probs.append(f'bytes [{max(off,o2)},{min(off+req,o2+r2)}) fetched twice')
                    seen.append((off, req))
                    if need is not None:
                        for blk in range((off - d0) // S.BLK, (off + req - 1 - d0) // S.BLK + 1):
                            if blk not in need:
                                probs.append(f'block {blk} fetched but not needed by the request')
                                break
        rd.close()
    except Exception as e:
        probs.append('harness/real code error: ' + ''.join(traceback.format_exception_only(type(e), e)).strip())
    finally:
        try:
            f.close()
        except Exception:
            pass
    return sorted(set(probs))[:8]


def cleanup():
    for (fn, _, _) in _FILE_CACHE.values():
        try:
            os.remove(fn)
            os.rmdir(os.path.dirname(fn))
        except OSError:
            pass
    _FILE_CACHE.clear()
