"""End-to-end scenario batteries used to replay counter-models of the conversion / header / export / irregular / cache contracts on
the real code (run under /venv/bin/python).  A counter-model of a per-function obligation usually fixes only a few sizes; the
battery builds real inputs with those sizes (and a few neighbouring ones), runs the public API and compares with what the property
demands.  Each function returns a list of discrepancy strings (empty = behaves as specified on these inputs)."""
import hashlib
import os
import shutil
import tempfile
import warnings

import numpy as np

from oracle import segygen as G


def _tmp():
    return tempfile.mkdtemp(prefix='verif_bat_')


def _quiet():
    import contextlib, io
    return contextlib.redirect_stdout(io.StringIO())


def headers_numpy(model):
    """NumPy route: header arrays of several integer dtypes, key orders and trace counts (incl. multiples of 128) read back exactly"""
    import segyio
    from seismic_zfp.conversion import NumpyConverter
    from seismic_zfp.read import SgzReader
    TF = segyio.tracefield.TraceField
    probs = []
    d = _tmp()
    try:
        shapes = [(8, 16), (5, 6), (2, 64)]
        for (nI, nX) in shapes:
            cube = np.zeros((nI, nX, 8), dtype=np.float32)
            grid = np.arange(nI * nX).reshape(nI, nX)
            for name, th in (('defaults only', {}),
                             ('crossline only', {TF.CROSSLINE_3D: (grid % nX * 3 + 7).astype(np.int32)}),
                             ('int64 + field above 193', {TF.ShotPoint: (grid * 5).astype(np.int64), TF.CDP: (grid * 2 - 9).astype(np.int16)}),
                             ('unsorted dict', dict([(TF.CDP_Y, (grid + 3).astype(np.int32)), (TF.TRACE_SEQUENCE_FILE, (grid + 1).astype(np.int32)), (TF.CDP_X, (grid * 7).astype(np.int32))]))):
                fn = os.path.join(d, 'n.sgz')
                with G.LibVersion('0.2.8'), _quiet():
                    with NumpyConverter(cube, trace_headers=dict(th)) as c:
                        c.run(fn, bits_per_voxel=4)
                want = {int(k): np.asarray(v).astype(np.int64).ravel() for k, v in th.items()}
                want.setdefault(189, np.repeat(np.arange(nI), nX))
                want.setdefault(193, np.tile(np.arange(nX) if 193 not in want else want.get(193)[:nX], nI) if 193 not in want else want[193])
                with SgzReader(fn) as r:
                    for k, arr in want.items():
                        got = np.array([int(r.gen_trace_header(t)[k]) for t in range(nI * nX)])
                        if not np.array_equal(got, arr):
                            probs.append(f'NumPy route {nI}x{nX} [{name}]: field {k} reads back wrong at {int((got != arr).sum())} of {nI * nX} traces')
    except Exception as e:
        probs.append(f'NumPy header battery: {type(e).__name__}: {e}')
    finally:
        shutil.rmtree(d, ignore_errors=True)
    return probs


def headers_segy(model, two_d=False):
    """SEG-Y route, all four detection modes: every stored/constant field of every trace reads back equal to the source (heuristic: inputs
    satisfying the property's precondition), strip reads zeros; text and binary file headers byte-identical"""
    from seismic_zfp.conversion import SegyConverter
    from seismic_zfp.read import SgzReader
    import segyio
    probs = []
    d = _tmp()
    try:
        for (nI, nX) in ((8, 16), (5, 6)):
            n = nI * nX
            cube = np.random.default_rng(0).standard_normal((nI, nX, 12)).astype(np.float32)
            # fields: 21 and 17 share their FIRST value only; 41 is a non-zero constant; 45 differs first/last
            extra = {21: (np.arange(n) * 3 + 5).astype(np.int32), 17: (5 + np.arange(n) * 7).astype(np.int32), 41: np.full(n, 77, np.int32), 45: (np.arange(n) % 11 + 1).astype(np.int32)}
            extra[45][-1] = 99
            sgy = os.path.join(d, 's.sgy')
            G.write_segy(sgy, cube, range(1, nI + 1), range(1, nX + 1), extra_headers=extra)
            with segyio.open(sgy) as f:
                src = [dict((int(k), int(v)) for k, v in f.header[t].items()) for t in range(n)]
            head = open(sgy, 'rb').read(3600)
            for mode in ('heuristic', 'thorough', 'exhaustive', 'strip'):
                out = os.path.join(d, f'o_{mode}.sgz')
                with G.LibVersion('0.2.8'), _quiet(), warnings.catch_warnings():
                    warnings.simplefilter('ignore')
                    with SegyConverter(sgy) as c:
                        c.run(out, bits_per_voxel=8, header_detection=mode)
                with SgzReader(out) as r:
                    if bytes(r.headerbytes[4096:4096 + 3600]) != head:
                        probs.append(f'SEG-Y route {nI}x{nX} [{mode}]: stored SEG-Y file header differs from the source')
                    bad = 0
                    for t in range(n):
                        h = {int(k): int(v) for k, v in r.gen_trace_header(t).items()}
                        want = src[t] if mode != 'strip' else {k: 0 for k in src[t]}
                        if any(h.get(k, 0) != v for k, v in want.items() if k not in (233, 237)):
                            bad += 1
                    if bad:
                        probs.append(f'SEG-Y route {nI}x{nX} [{mode}]: {bad} of {n} trace headers differ from the source')
    except Exception as e:
        import traceback
        probs.append(f'SEG-Y header battery: {type(e).__name__}: {e} @ {traceback.format_exc().splitlines()[-3].strip()}')
    finally:
        shutil.rmtree(d, ignore_errors=True)
    return probs


def export(model):
    """SGZ -> SEG-Y: file headers byte-identical, format kept for IEEE / IBM sources (also with ensemble fold >= 256), every trace header
    equal, samples equal to the SGZ decode (IEEE exactly)"""
    import segyio
    from seismic_zfp.conversion import SegyConverter, SgzConverter
    from seismic_zfp.read import SgzReader
    probs = []
    d = _tmp()
    try:
        for fmt, fold in ((5, 1), (5, 300), (1, 1)):
            cube = np.random.default_rng(1).standard_normal((5, 6, 20)).astype(np.float32)
            sgy, sgz, back = os.path.join(d, 'a.sgy'), os.path.join(d, 'a.sgz'), os.path.join(d, 'b.sgy')
            G.write_segy(sgy, cube, range(1, 6), range(10, 16), fmt=fmt, extra_headers={21: (np.arange(30) * 3 + 1).astype(np.int32)})
            with segyio.open(sgy, 'r+') as f:
                f.bin[segyio.BinField.EnsembleFold] = fold
            with G.LibVersion('0.2.8'), _quiet():
                with SegyConverter(sgy) as c:
                    c.run(sgz, bits_per_voxel=16)
                with SgzConverter(sgz) as c:
                    c.convert_to_segy(back)
            a, b = open(sgy, 'rb').read(3600), open(back, 'rb').read(3600)
            if a != b:
                probs.append(f'export (format {fmt}, fold {fold}): SEG-Y file headers differ from byte {next(i for i in range(3600) if a[i] != b[i])}')
            with segyio.open(sgy) as f, segyio.open(back) as g, SgzReader(sgz) as r:
                if g.bin[segyio.BinField.Format] != fmt:
                    probs.append(f'export (format {fmt}, fold {fold}): exported format code {g.bin[segyio.BinField.Format]}')
                if list(f.ilines) != list(g.ilines) or list(f.xlines) != list(g.xlines) or f.tracecount != g.tracecount:
                    probs.append(f'export (format {fmt}): geometry differs')
                for t in range(f.tracecount):
                    if dict(f.header[t]) != dict(g.header[t]):
                        probs.append(f'export (format {fmt}): trace header {t} differs')
                        break
                dec = r.read_volume().reshape(30, 20)
                exp_ = np.array([g.trace[t] for t in range(30)])
                if fmt == 5 and not np.array_equal(dec, exp_):
                    probs.append('export (IEEE): samples differ from the SGZ decode')
                if fmt == 1 and not np.allclose(dec, exp_, rtol=2 ** -20, atol=1e-30):
                    probs.append('export (IBM): samples differ from the SGZ decode by more than IBM rounding')
    except Exception as e:
        probs.append(f'export battery: {type(e).__name__}: {e}')
    finally:
        shutil.rmtree(d, ignore_errors=True)
    return probs


def irregular(model):
    """irregular survey with holes at the first position, in the middle and adjacent: trace i / header i = i-th source trace, grid reads zero at holes"""
    import segyio
    from seismic_zfp.conversion import SegyConverter
    from seismic_zfp.read import SgzReader
    probs = []
    d = _tmp()
    try:
        for (nI, nX, holes, ils, xls) in ((5, 6, [(0, 0), (2, 3), (2, 4), (4, 5)], 2, 3), (9, 4, [(1, 1), (8, 0)], 1, 5)):
            cube = np.random.default_rng(2).standard_normal((nI, nX, 16)).astype(np.float32)
            present = np.ones((nI, nX), bool)
            for h in holes:
                present[h] = False
            il = [100 + ils * k for k in range(nI)]; xl = [7 + xls * k for k in range(nX)]
            sgy, sgz = os.path.join(d, 'i.sgy'), os.path.join(d, 'i.sgz')
            ntr = G.write_segy(sgy, cube, il, xl, present=present, extra_headers={21: (np.arange(int(present.sum())) * 3 + 1).astype(np.int32)})
            with G.LibVersion('0.2.8'), _quiet(), warnings.catch_warnings():
                warnings.simplefilter('ignore')
                with SegyConverter(sgy) as c:
                    c.run(sgz, bits_per_voxel=16)
            with segyio.open(sgy, ignore_geometry=True) as f, SgzReader(sgz) as r:
                if list(r.ilines) != il or list(r.xlines) != xl:
                    probs.append(f'irregular {nI}x{nX}: axes {list(r.ilines)[:3]}.. / {list(r.xlines)[:3]}.. differ from the inferred grid')
                if r.tracecount != ntr or r.structured:
                    probs.append(f'irregular {nI}x{nX}: tracecount {r.tracecount} / structured {r.structured}')
                for t in range(ntr):
                    if not np.allclose(r.get_trace(t), f.trace[t], atol=0.05):
                        probs.append(f'irregular {nI}x{nX}: get_trace({t}) is not the {t}-th source trace')
                        break
                r2 = SgzReader(sgz)
                for t in range(ntr):
                    h = r2.gen_trace_header(t)
                    if int(h[189]) != f.header[t][189] or int(h[193]) != f.header[t][193] or int(h[21]) != f.header[t][21]:
                        probs.append(f'irregular {nI}x{nX}: gen_trace_header({t}) is not the header of the {t}-th source trace')
                        break
                vol = r.read_volume()
                for (i, x) in holes:
                    if not np.allclose(vol[i, x], 0, atol=0.05):          # (16-bit rate: the ZFP image of the zero-filled grid is zero up to codec error)
                        probs.append(f'irregular {nI}x{nX}: hole ({i},{x}) does not read as (the image of) zeros')
    except Exception as e:
        probs.append(f'irregular battery: {type(e).__name__}: {e}')
    finally:
        shutil.rmtree(d, ignore_errors=True)
    return probs


def two_d(model):
    """2-D line: negative first sample time, sample axis, trace order, headers"""
    import segyio
    from seismic_zfp.conversion import SegyConverter
    from seismic_zfp.read import SgzReader
    probs = []
    d = _tmp()
    try:
        for nT in (5, 37):
            sec = np.random.default_rng(3).standard_normal((nT, 20)).astype(np.float32)
            sgy, sgz = os.path.join(d, 't.sgy'), os.path.join(d, 't.sgz')
            G.write_segy(sgy, sec, None, None, two_d=True, t0_ms=-100, extra_headers={181: (1000 + 3 * np.arange(nT)).astype(np.int32)})
            with G.LibVersion('0.2.8'), _quiet():
                with SegyConverter(sgy) as c:
                    c.run(sgz, bits_per_voxel=16, blockshape=(1, 16, -1))
            with segyio.open(sgy, ignore_geometry=True) as f, SgzReader(sgz) as r:
                if not np.allclose(r.zslices, f.samples):
                    probs.append(f'2-D {nT} traces: sample axis {list(r.zslices)[:3]}.. differs from the source {list(f.samples)[:3]}..')
                if r.tracecount != nT:
                    probs.append(f'2-D: tracecount {r.tracecount}')
                for t in range(nT):
                    if not np.allclose(r.get_trace(t), f.trace[t], atol=0.05) or int(r.gen_trace_header(t)[181]) != f.header[t][181]:
                        probs.append(f'2-D: trace/header {t} is not the {t}-th source trace/header')
                        break
                if r.get_source_data_hash() != hashlib.sha1(sec.tobytes()).hexdigest():
                    probs.append('2-D: stored hash is not the SHA-1 of the source samples')
    except Exception as e:
        probs.append(f'2-D battery: {type(e).__name__}: {e}')
    finally:
        shutil.rmtree(d, ignore_errors=True)
    return probs


def cache_histories(model):
    """history independence on a regular and an irregular file: the probed read after several histories equals the read on a fresh reader
    (the history of the open known finding D16 -- padding-convention mismatch on irregular files -- is left out here)"""
    import segyio
    from seismic_zfp.conversion import NumpyConverter, SegyConverter
    from seismic_zfp.read import SgzReader
    probs = []
    d = _tmp()
    try:
        TF = segyio.tracefield.TraceField
        cube = np.random.default_rng(4).standard_normal((6, 7, 16)).astype(np.float32)
        grid = np.arange(42).reshape(6, 7)
        reg = os.path.join(d, 'r.sgz')
        with G.LibVersion('0.2.8'), _quiet():
            with NumpyConverter(cube, trace_headers={TF.CDP: (grid * 3).astype(np.int32)}) as c:
                c.run(reg, bits_per_voxel=8)
        present = np.ones((6, 7), bool); present[0, 0] = False; present[3, 3] = False
        sgy, irr = os.path.join(d, 'i.sgy'), os.path.join(d, 'i.sgz')
        G.write_segy(sgy, cube, range(1, 7), range(1, 8), present=present)
        with G.LibVersion('0.2.8'), _quiet(), warnings.catch_warnings():
            warnings.simplefilter('ignore')
            with SegyConverter(sgy) as c:
                c.run(irr, bits_per_voxel=8)
        probes = [('gen_trace_header(5, load_all)', lambda r: {int(k): int(v) for k, v in r.gen_trace_header(5, load_all_headers=True).items()}),
                  ('gen_trace_header(5)', lambda r: {int(k): int(v) for k, v in r.gen_trace_header(5).items()}),
                  ('get_trace(7)', lambda r: r.get_trace(7).tolist()),
                  ('get_trace(7, override)', lambda r: r.get_trace(7, override_unstructured_mapping=True).tolist()),
                  ('read_inline(2)', lambda r: r.read_inline(2).tolist()),
                  ('get_tracefield_values(189)', lambda r: np.asarray(r.get_tracefield_values(189)).tolist())]
        histories = [('get_tracefield_values(21)', lambda r: r.get_tracefield_values(21)), ('get_trace(3)', lambda r: r.get_trace(3)),
                     ('read_crossline(1)', lambda r: r.read_crossline(1)), ('gen_trace_header(0)', lambda r: r.gen_trace_header(0))]
        for fn, kind in ((reg, 'regular'), (irr, 'irregular')):
            for pname, probe in probes:
                if kind == 'regular' and 'override' in pname:
                    continue
                try:
                    want = probe(SgzReader(fn))
                except Exception as e:
                    want = ('raises', type(e).__name__)
                for hname, hist in histories:
                    if kind == 'irregular' and (('tracefield' in hname and 'gen_trace_header' in pname) or ('gen_trace_header' in hname and 'tracefield' in pname)):
                        continue          # D16 (known finding)
                    for preload in (False, True):
                        r = SgzReader(fn, preload=preload, chunk_cache_size=1)
                        try:
                            hist(r)
                        except Exception:
                            pass
                        try:
                            got = probe(r)
                        except Exception as e:
                            got = ('raises', type(e).__name__)
                        if got != want:
                            probs.append(f'{kind}: {pname} after {hname} (preload={preload}) differs from the same read on a fresh reader')
    except Exception as e:
        probs.append(f'cache battery: {type(e).__name__}: {e}')
    finally:
        shutil.rmtree(d, ignore_errors=True)
    return sorted(set(probs))[:8]


def source_hash(model):
    """NumPy cubes whose SHA-1 starts with 0, 00 and a non-zero digit: the hash the reader reports is the full 40-digit digest of the samples"""
    import hashlib
    from seismic_zfp.conversion import NumpyConverter
    from seismic_zfp.read import SgzReader
    probs = []
    want = {'0': None, '00': None, 'x': None}
    seed = 0
    while any(v is None for v in want.values()) and seed < 4000:
        cube = np.random.default_rng(seed).standard_normal((4, 4, 8)).astype(np.float32)
        h = hashlib.sha1(cube.tobytes()).hexdigest()
        k = '00' if h.startswith('00') else '0' if h.startswith('0') else 'x'
        if want[k] is None:
            want[k] = (cube, h)
        seed += 1
    d = _tmp()
    with _quiet(), G.LibVersion('0.2.8'):
        for k, v in want.items():
            if v is None:
                continue
            cube, h = v
            p = os.path.join(d, f'h{k}.sgz')
            with NumpyConverter(cube) as c:
                c.run(p, bits_per_voxel=8)
            with SgzReader(p) as r:
                got = r.get_source_data_hash()
            if got != h:
                probs.append(f'get_source_data_hash() = {got!r} but the SHA-1 of the source samples is {h!r}')
    shutil.rmtree(d, ignore_errors=True)
    return probs
