"""Replay a counter-model of the deductive stage on the real code (run under /venv/bin/python).

argv[1] = JSON {'prop', 'obligation', 'model', 'fuc'}.  Prints one JSON line
   {'reproduced': true|false|null, 'detail': ..., 'case': ...}
reproduced=true  : the real code, run on the concrete scenario built from the model, violates the specification
reproduced=false : the scenario runs and behaves as specified (abstraction slack or a contract-side failure)
reproduced=null  : no scenario could be built for this obligation
"""
import json
import os
import re
import sys

HERE = os.path.dirname(os.path.abspath(__file__))
sys.path.insert(0, os.path.dirname(HERE))


def parse_fuc(fuc):
    m = re.match(r'^(?P<file>[\w.]+)::(?P<qual>[\w.]+)(\[(?P<var>[^\]]*)\])?$', fuc)
    if not m:
        return None
    var = m.group('var') or ''
    cfg = re.match(r'^(?P<rate>[\d.]+)@(?P<b0>\d+)x(?P<b1>\d+)x(?P<b2>\d+)', var)
    return m.group('file'), m.group('qual'), var, cfg


def ival(model, *names):
    for n in names:
        if n in model:
            try:
                return int(model[n])
            except ValueError:
                return None
    return None


def main():
    req = json.loads(sys.argv[1])
    model = req.get('model') or {}
    parsed = parse_fuc(req.get('fuc') or '')
    if not parsed or parsed[3] is None:
        print(json.dumps({'reproduced': None, 'detail': 'no scenario builder for this function'}))
        return
    file, qual, var, cfg = parsed
    rate = float(cfg.group('rate'))
    b = [int(cfg.group('b0')), int(cfg.group('b1')), int(cfg.group('b2'))]
    two_d = b[0] == 1
    if two_d:
        shape = [ival(model, 'n_traces'), ival(model, 'n_samples')]
    else:
        shape = [ival(model, 'n_ilines'), ival(model, 'n_xlines'), ival(model, 'n_samples')]
    if any(s is None or s < 1 for s in shape):
        print(json.dumps({'reproduced': None, 'detail': f'model has no usable cube shape: {shape}'}))
        return
    vox = 1
    for s_, bb in zip(shape, b[1:] if two_d else b):
        vox *= bb * ((s_ + bb - 1) // bb)
    if vox > 6_000_000:
        print(json.dumps({'reproduced': None, 'detail': f'model cube too large to materialise ({vox} padded voxels)'}))
        return
    from oracle import native_calls as NC
    method = qual.split('.')[-1]
    known_args = {'read_inline': ['il_id'], 'read_crossline': ['xl_id'], 'read_zslice': ['zslice_id'], 'read_volume': [],
                  'read_subvolume': ['min_il', 'max_il', 'min_xl', 'max_xl', 'min_z', 'max_z'],
                  'read_subplane': ['min_trace', 'max_trace', 'min_z', 'max_z'],
                  'get_trace': ['index', 'min_sample_id', 'max_sample_id'],
                  'read_correlated_diagonal': ['cd_id', 'min_cd_idx', 'max_cd_idx', 'min_sample_idx', 'max_sample_idx'],
                  'read_anticorrelated_diagonal': ['ad_id', 'min_ad_idx', 'max_ad_idx', 'min_sample_idx', 'max_sample_idx']}
    loader_map = loader_cases(method, model, shape, rate, b, two_d) if method not in known_args else None
    if loader_map:
        cases = loader_map
    elif method not in known_args:
        # other internal functions: exercise the public methods over the whole file instead
        cases = sweep_cases(shape, rate, b, two_d)
    else:
        args = {}
        for k in known_args[method]:
            v = ival(model, k)
            if v is not None:
                args[k] = v
        if 'padded' in var and method in ('read_subvolume', 'read_subplane'):
            args['access_padding'] = True
        missing = [k for k in known_args[method] if k not in args and not k.startswith(('min_', 'max_'))]
        if missing:
            print(json.dumps({'reproduced': None, 'detail': f'model lacks arguments {missing}'}))
            return
        cases = [dict(shape=shape, rate=rate, blockshape=b, method=method, args=args, preload='preload' in var)]
    bad = []
    try:
        for case in cases:
            probs = NC.run_case(case)
            if probs:
                bad.append({'case': case, 'problems': probs})
                if len(bad) >= 3:
                    break
    finally:
        NC.cleanup()
    print(json.dumps({'reproduced': bool(bad), 'detail': bad[:3] if bad else f'{len(cases)} concrete call(s) behaved as specified',
                      'case': cases[0] if cases else None}, default=str))


def loader_cases(method, model, shape, rate, b, two_d):
    """public calls that drive a loader function with the arguments of the model"""
    mk = lambda m, **a: dict(shape=shape, rate=rate, blockshape=b, method=m, args=a)
    iv = lambda k: ival(model, k)
    if method == 'read_and_decompress_il_set' and iv('i') is not None:
        return [mk('read_inline', il_id=i) for i in range(iv('i'), min(iv('i') + 4, shape[0]))]
    if method == 'read_and_decompress_xl_set' and iv('x') is not None:
        return [mk('read_crossline', xl_id=i) for i in range(iv('x'), min(iv('x') + 4, shape[1]))]
    if method == 'read_and_decompress_zslice_set' and iv('zslice_id') is not None:
        z0 = 4 * (iv('zslice_id') // 4)
        return [mk('read_zslice', zslice_id=i) for i in range(z0, min(z0 + 4, shape[2]))]
    if method == 'read_and_decompress_zslice_set_adv' and iv('zslice_first_block_offset') is not None:
        z0 = 4 * iv('zslice_first_block_offset')
        return [mk('read_zslice', zslice_id=i) for i in range(z0, min(z0 + 4, shape[2]))]
    if method in ('read_and_decompress_chunk_range', 'read_unshuffle_and_decompress_chunk_range'):
        ks = ['min_il', 'max_il', 'min_xl', 'max_xl', 'min_z', 'max_z']
        if all(iv(k) is not None for k in ks):
            a = {k: iv(k) for k in ks}
            a['access_padding'] = True
            return [mk('read_subvolume', **a)]
    if method == 'read_and_decompress_trace_range' and iv('min_id') is not None:
        return [mk('get_trace', index=i) for i in range(iv('min_id'), min(iv('min_id') + 4, shape[0]))]
    if method == 'read_unshuffle_and_decompress_chunk_range_2d':
        ks = ['min_id', 'max_id', 'min_z', 'max_z']
        if all(iv(k) is not None for k in ks):
            return [mk('read_subplane', min_trace=iv('min_id'), max_trace=iv('max_id'), min_z=iv('min_z'), max_z=iv('max_z'), access_padding=True)]
    return None


def sweep_cases(shape, rate, b, two_d):
    cases = []
    if two_d:
        nT, nZ = shape
        for i in range(nT):
            cases.append(dict(shape=shape, rate=rate, blockshape=b, method='get_trace', args={'index': i}))
        cases.append(dict(shape=shape, rate=rate, blockshape=b, method='read_subplane', args=dict(min_trace=0, max_trace=nT, min_z=0, max_z=nZ)))
        return cases
    nI, nX, nZ = shape
    for i in list(range(min(nI, 9))) + [nI - 1]:
        cases.append(dict(shape=shape, rate=rate, blockshape=b, method='read_inline', args={'il_id': i}))
    for i in list(range(min(nX, 9))) + [nX - 1]:
        cases.append(dict(shape=shape, rate=rate, blockshape=b, method='read_crossline', args={'xl_id': i}))
    for i in list(range(min(nZ, 9))) + [nZ - 1]:
        cases.append(dict(shape=shape, rate=rate, blockshape=b, method='read_zslice', args={'zslice_id': i}))
    cases.append(dict(shape=shape, rate=rate, blockshape=b, method='read_volume', args={}))
    return cases


if __name__ == '__main__':
    main()
