"""Replay a counter-model of the deductive stage on the real code (run under /venv/bin/python).

argv[1] = JSON {'prop', 'obligation', 'model', 'fuc'}.  Prints one JSON line
   {'reproduced': true|false|null, 'detail': ..., 'case': ...}
reproduced=true  : the real code, run on the concrete scenario built from the model, violates the specification
reproduced=false : the scenario runs and behaves as specified (abstraction slack or a contract-side failure)
reproduced=null  : no scenario could be built for this obligation
"""
import json
import os
import re
import sys

HERE = os.path.dirname(os.path.abspath(__file__))
sys.path.insert(0, os.path.dirname(HERE))


def parse_fuc(fuc):
    m = re.match(r'^(?P<file>[\w.]+)::(?P<qual>[\w.]+)(\[(?P<var>[^\]]*)\])?$', fuc)
    if not m:
        return None
    var = m.group('var') or ''
    cfg = re.match(r'^(?P<rate>[\d.]+)@(?P<b0>\d+)x(?P<b1>\d+)x(?P<b2>\d+)', var)
    return m.group('file'), m.group('qual'), var, cfg


def ival(model, *names):
    for n in names:
        if n in model:
            try:
                return int(model[n])
            except ValueError:
                return None
    return None


def main():
    req = json.loads(sys.argv[1])
    model = req.get('model') or {}
    parsed = parse_fuc(req.get('fuc') or '')
    if parsed and parsed[1].split('.')[-1] in ('define_blockshape_3d', 'define_blockshape_2d'):
        print(json.dumps(replay_blockshape(parsed[1].split('.')[-1], model)))
        return
    if parsed and parsed[0] == 'accessors.py':
        print(json.dumps(replay_accessor(parsed[1], parsed[2], model), default=str))
        return
    if parsed and parsed[1].split('.')[-1] == '_parse_coordinates':
        print(json.dumps(replay_axes_reader(model), default=str))
        return
    # end-to-end scenario batteries for the contracts of the conversion / header / export / irregular / cache path
    if parsed:
        fn = parsed[1]
        var = parsed[2] or ''
        ob = req.get('obligation') or ''
        bat = None
        if fn.startswith('HeaderwordInfo.') or fn in ('NumpyConverter.__init__', 'NumpyConverter.write_headers', 'SeismicFileConverter.write_headers',
                                                       'make_header_seismic_file', 'SeismicFileConverter.get_blank_header_info'):
            bat = ['headers_numpy', 'headers_segy']
        elif fn.startswith('SgzConverter.') and 'adv' not in fn:
            bat = ['export']
        elif fn == 'SgzReader.gen_trace_header':
            bat = (['irregular'] if 'irregular' in var else []) + ['headers_numpy', 'cache_histories']
        elif fn in ('SgzReader.read_variant_headers', 'SgzReader.get_unstructured_mask') or (fn == 'SgzReader.get_trace' and 'irregular' in var):
            bat = ['irregular', 'cache_histories']
        elif fn in ('unstructured_io_thread_func', 'InferredGeometry3d.get_range') or 'irregular' in var:
            bat = ['irregular']
        elif fn == 'SgzReader.__init__' and '2d' in var:
            bat = ['two_d']
        elif fn in ('MinimalInlineReader.read_line',):
            bat = []
        elif fn == 'SgzReader.get_source_data_hash':
            bat = ['source_hash']
        if bat:
            from oracle import batteries as B
            probs = []
            for b in bat:
                probs += getattr(B, b)(model)
            print(json.dumps({'reproduced': bool(probs), 'detail': probs[:6] if probs else f'batteries {bat} behaved as specified', 'case': {'batteries': bat}}, default=str))
            return
    if parsed and parsed[3] is None and parsed[1].split('.')[-1] in ('io_thread_func', 'io_thread_func_2d', 'read_line', 'run', 'run_conversion_loop', 'detect_geometry', '__init__', 'get_blank_header_info'):
        # contracts without a (rate, blockshape) variant: replay through the SEG-Y route with default settings (both readers)
        m_ = parsed[1].split('.')[-1]
        two = m_ == 'io_thread_func_2d'
        res = replay_segy_route(model, 1.0 if two else 4.0, [1, 16, 2048] if two else [4, 4, 512], two, parsed[2] or '')
        if not two and not res.get('reproduced'):
            res2 = replay_segy_route(model, 2.0, [8, 8, 256], False, parsed[2] or '')
            if res2.get('reproduced'):
                res = res2
        print(json.dumps(res, default=str))
        return
    if not parsed or parsed[3] is None:
        print(json.dumps({'reproduced': None, 'detail': 'no scenario builder for this function'}))
        return
    file, qual, var, cfg = parsed
    rate = float(cfg.group('rate'))
    b = [int(cfg.group('b0')), int(cfg.group('b1')), int(cfg.group('b2'))]
    two_d = b[0] == 1
    if two_d:
        shape = [ival(model, 'n_traces'), ival(model, 'n_samples')]
    else:
        shape = [ival(model, 'n_ilines', 'source.n_ilines'), ival(model, 'n_xlines', 'source.n_xlines'), ival(model, 'n_samples')]
    if any(s is None or s < 1 for s in shape):
        print(json.dumps({'reproduced': None, 'detail': f'model has no usable cube shape: {shape}'}))
        return
    vox = 1
    for s_, bb in zip(shape, b[1:] if two_d else b):
        vox *= bb * ((s_ + bb - 1) // bb)
    if vox > 6_000_000:
        print(json.dumps({'reproduced': None, 'detail': f'model cube too large to materialise ({vox} padded voxels)'}))
        return
    from oracle import native_calls as NC
    method = qual.split('.')[-1]
    if 'ghost.fault' in (req.get('obligation') or '') or 'ghost.pool' in (req.get('obligation') or ''):
        print(json.dumps(replay_faults(b, rate, two_d), default=str))
        return
    if qual.startswith('SgzCropper.'):
        print(json.dumps(replay_crop(model, shape, rate, b), default=str))
        return
    if method in ('seismic_file_producer', 'seismic_file_producer_2d', 'io_thread_func', 'io_thread_func_2d', 'read_line') or (method == 'make_header' and 'window' in var):
        print(json.dumps(replay_segy_route(model, rate, b, two_d, var), default=str))
        return
    if method in ('make_header', 'numpy_producer'):
        print(json.dumps(replay_writer(model, rate, b, two_d, var), default=str))
        return
    known_args = {'read_inline': ['il_id'], 'read_crossline': ['xl_id'], 'read_zslice': ['zslice_id'], 'read_volume': [],
                  'read_subvolume': ['min_il', 'max_il', 'min_xl', 'max_xl', 'min_z', 'max_z'],
                  'read_subplane': ['min_trace', 'max_trace', 'min_z', 'max_z'],
                  'get_trace': ['index', 'min_sample_id', 'max_sample_id'],
                  'read_correlated_diagonal': ['cd_id', 'min_cd_idx', 'max_cd_idx', 'min_sample_idx', 'max_sample_idx'],
                  'read_anticorrelated_diagonal': ['ad_id', 'min_ad_idx', 'max_ad_idx', 'min_sample_idx', 'max_sample_idx']}
    loader_map = loader_cases(method, model, shape, rate, b, two_d) if method not in known_args else None
    if loader_map:
        cases = loader_map
    elif method not in known_args:
        # other internal functions: exercise the public methods over the whole file instead
        cases = sweep_cases(shape, rate, b, two_d)
    else:
        args = {}
        for k in known_args[method]:
            v = ival(model, k)
            if v is not None:
                args[k] = v
        if 'padded' in var and method in ('read_subvolume', 'read_subplane'):
            args['access_padding'] = True
        missing = [k for k in known_args[method] if k not in args and not k.startswith(('min_', 'max_'))]
        if missing:
            print(json.dumps({'reproduced': None, 'detail': f'model lacks arguments {missing}'}))
            return
        cases = [dict(shape=shape, rate=rate, blockshape=b, method=method, args=args, preload='preload' in var)]
    bad = []
    try:
        for case in cases:
            probs = NC.run_case(case)
            if probs:
                bad.append({'case': case, 'problems': probs})
                if len(bad) >= 3:
                    break
    finally:
        NC.cleanup()
    print(json.dumps({'reproduced': bool(bad), 'detail': bad[:3] if bad else f'{len(cases)} concrete call(s) behaved as specified',
                      'case': cases[0] if cases else None}, default=str))


def replay_faults(b, rate, two_d):
    """inject a failure (exception / short read / empty read) at every position of the range-read sequence of every
    public read method on an oracle-written file of this layout: a call that returns normally is the failing input"""
    from oracle import native_calls as NC
    from seismic_zfp.read import SgzReader
    shape = [9, 17] if two_d else [9, 10, 13]
    fn, dec, hdr = NC.oracle_file(shape, rate, b)
    if two_d:
        calls = [('get_trace', {'index': 5}), ('read_subplane', dict(min_trace=1, max_trace=8, min_z=2, max_z=15))]
    else:
        calls = [('read_crossline', {'xl_id': 5}), ('read_zslice', {'zslice_id': 3}), ('read_inline', {'il_id': 2}),
                 ('read_subvolume', dict(min_il=0, max_il=9, min_xl=1, max_xl=7, min_z=0, max_z=13)), ('get_trace', {'index': 11}),
                 ('read_volume', {}), ('gen_trace_header', {'index': 7})]
    bad = []
    tried = 0
    try:
        for method, args in calls:
            for kind in ('raise', 'short', 'empty'):
                for k in range(0, 40):
                    f = NC.CountingFile(fn, 'rb')
                    try:
                        rd = SgzReader(f)
                        f._count = 0
                        f.log.clear()
                        f.fault = (k, kind)
                        try:
                            getattr(rd, method)(**args)
                            raised = False
                        except Exception:
                            raised = True
                        hit = f._count > k
                    finally:
                        f.close()
                    if not hit:
                        break
                    tried += 1
                    if not raised:
                        bad.append(f'{method}({args}) returned normally although range read #{k} of the call failed ({kind})')
                        break
    finally:
        NC.cleanup()
    return {'reproduced': bool(bad), 'detail': bad[:6] or f'{tried} injected faults all surfaced as exceptions',
            'case': {'shape': shape, 'rate': rate, 'blockshape': b}}


def replay_blockshape(fn, model):
    """run the real define_blockshape on the model's arguments against the exact-fraction validity oracle"""
    from fractions import Fraction
    import seismic_zfp.utils as U
    bits = model.get('bits_per_voxel', model.get('bits_per_voxel(str)'))
    try:
        bits_v = float(Fraction(bits)) if bits is not None else None
    except Exception:
        bits_v = None
    bs = [ival(model, f'blockshape[{k}]') for k in range(3)]
    if bits_v is None or any(x is None for x in bs):
        return {'reproduced': None, 'detail': 'model lacks arguments'}
    if bits_v == int(bits_v):
        bits_v = int(bits_v)
    RATES = [Fraction(1, 4), Fraction(1, 2)] + [Fraction(x) for x in (1, 2, 4, 8, 16, 32)]
    POW2 = [2 ** j for j in range(2, 14)]
    two_d = fn.endswith('2d')

    def valid(r, b):
        try:
            r = Fraction(r)
        except Exception:
            return False
        return r in RATES and all(d in POW2 for d in (b[1:] if two_d else b)) and (not two_d or (b[0] == 1 and 16 * r >= 9)) and r * b[0] * b[1] * b[2] == 32768
    try:
        r, b = getattr(U, fn)(bits_v, tuple(bs))
    except Exception as e:
        return {'reproduced': False, 'detail': f'refused with {type(e).__name__} (refusals of invalid settings are correct; completeness is replayed by the bounded grid)',
                'case': {'bits_per_voxel': bits_v, 'blockshape': bs}}
    if not valid(r, b):
        return {'reproduced': True, 'detail': f'{fn}({bits_v}, {tuple(bs)}) accepted the invalid setting {(r, b)}', 'case': {'bits_per_voxel': bits_v, 'blockshape': bs}}
    return {'reproduced': False, 'detail': f'accepted valid setting {(r, b)}'}


def replay_accessor(qual, var, model):
    """the subscript of the model on seismic_zfp.open(sgz) vs segyio.open(sgy) for a generated cube with the model's axis"""
    import tempfile, shutil
    import numpy as np
    import segyio
    import seismic_zfp
    from oracle import segygen as G
    from seismic_zfp.conversion import SegyConverter
    n = min(max(ival(model, 'axis_length') or 5, 2), 12)
    by_number = qual.startswith('SliceAccessor')
    k0 = ival(model, 'first_line_number') or 1
    inc = ival(model, 'line_increment') or 1
    if abs(inc) > 50 or abs(k0) > 10 ** 6:
        return {'reproduced': None, 'detail': 'axis of the model too large to materialise'}
    def g(k):
        v = model.get('subscript.' + k)
        return None if v is None else int(v)
    d = tempfile.mkdtemp(prefix='verif_acc_')
    probs = []
    try:
        il = [k0 + j * inc for j in range(n)] if by_number else list(range(1, n + 1))
        xl = [20, 21, 22]
        rng = np.random.default_rng(0)
        cube = rng.standard_normal((len(il), 3, 8)).astype(np.float32)
        sgy, sgz = d + '/a.sgy', d + '/a.sgz'
        G.write_segy(sgy, cube, il, xl)
        with G.LibVersion('0.2.8'):
            with SegyConverter(sgy) as c:
                c.run(sgz, bits_per_voxel=16)
        if 'int' in var:
            subs = [int(model['subscript'])] if 'subscript' in model else []
        else:
            subs = [slice(g('start'), g('stop'), g('step'))]
            # plus the neighbourhood of default combinations on this axis
            lo, hi = min(il), max(il)
            if by_number:
                subs += [slice(None, None, None), slice(None, None, abs(inc) * 2 * (1 if inc > 0 else -1)), slice(lo, None, None), slice(None, hi, None),
                         slice(None, None, -abs(inc)), slice(il[1], None, 2 * inc)]
            else:
                subs += [slice(None, None, -1), slice(None, None, -2), slice(3, None, -1), slice(-2, None, None), slice(None, -1, 2)]
        with segyio.open(sgy) as s, seismic_zfp.open(sgz) as z:
            for sub in subs:
                def ev(f):
                    acc = f.iline if by_number else f.depth_slice
                    try:
                        r = acc[sub]
                        r = list(r) if isinstance(sub, slice) else [r]
                        return ('ok', [tuple(np.asarray(x).shape) for x in r], [np.asarray(x) for x in r])
                    except (IndexError, KeyError) as e:
                        return ('rejected', None, None)
                a, b = ev(s), ev(z)
                if a[0] != b[0] or (a[0] == 'ok' and a[1] != b[1]):
                    probs.append(f'{"iline" if by_number else "depth_slice"}[{sub}]: segyio -> {a[0]} {len(a[1]) if a[1] is not None else ""} items, seismic_zfp -> {b[0]} {len(b[1]) if b[1] is not None else ""} items (axis {il})')
                elif a[0] == 'ok':
                    for x, y in zip(a[2], b[2]):
                        if not np.allclose(x, y, rtol=1e-3, atol=1e-3):
                            probs.append(f'{"iline" if by_number else "depth_slice"}[{sub}]: items in a different order than segyio (axis {il})')
                            break
    except Exception as e:
        probs.append(f'{type(e).__name__}: {e}')
    finally:
        shutil.rmtree(d, ignore_errors=True)
    return {'reproduced': bool(probs), 'detail': probs[:6] or 'same structure as segyio', 'case': {'axis': il, 'subscripts': [str(x) for x in subs]}}


def axis_from(model, name, n):
    s0, st = ival(model, name + '[0]'), ival(model, name + '_step')
    if s0 is None or st in (None, 0):
        return list(range(n))
    return [s0 + k * st for k in range(n)]


def replay_writer(model, rate, b, two_d, var):
    """convert a random cube with the model's shape / axes through the real NumPy route (library version stamped
    0.2.8) and check the file against the specification: conformance, spec decode == expected image, reader axes"""
    import tempfile, shutil
    import numpy as np
    from oracle import specsgz as S, segygen as G
    if two_d or 'irregular' in var:
        return {'reproduced': None, 'detail': 'writer replay implemented for the regular 3-D NumPy route only'}
    shape = [ival(model, 'n_ilines'), ival(model, 'n_xlines'), ival(model, 'n_samples')]
    if any(x is None for x in shape):
        return {'reproduced': None, 'detail': 'model lacks a shape'}
    shape = [min(max(x, 2), 40 if k < 2 else 3 * b[2] + 3) for k, x in enumerate(shape)]     # small cube, same kind of residues
    il, xl = axis_from(model, 'ilines', shape[0]), axis_from(model, 'xlines', shape[1])
    t0, dt = ival(model, 't0_ms') or 0, ival(model, 'interval_us') or 4000
    if any(abs(v) >= 2 ** 31 for v in il + xl):
        return {'reproduced': None, 'detail': 'axis values outside int32 after shrinking'}
    from seismic_zfp.conversion import NumpyConverter
    from seismic_zfp.read import SgzReader
    rng = np.random.default_rng(0)
    cube = rng.standard_normal(shape).astype(np.float32)
    d = tempfile.mkdtemp(prefix='verif_w_')
    probs = []
    try:
        fn = d + '/w.sgz'
        samples = t0 + np.arange(shape[2]) * (dt / 1000.0)
        with G.LibVersion('0.2.8'):
            with NumpyConverter(cube, ilines=np.array(il, dtype=np.int32), xlines=np.array(xl, dtype=np.int32), samples=samples) as c:
                c.run(fn, bits_per_voxel=rate, blockshape=tuple(b))
        buf = open(fn, 'rb').read()
        h = S.parse_header(buf)
        from fractions import Fraction
        P = [S.pad_to(n, bb) for n, bb in zip(shape, b)]
        want_blocks = int(Fraction(rate) * P[0] * P[1] * P[2] / 8 / 4096)
        if h['diskblocks'] != want_blocks:
            probs.append(f"header says {h['diskblocks']} data blocks, specification (padded voxels x bits / 8 / 4096) gives {want_blocks}")
        for k, v in (('nZ', shape[2]), ('nX', shape[1]), ('nI', shape[0]), ('il0', il[0]), ('xl0', xl[0]), ('il_step', il[1] - il[0]), ('xl_step', xl[1] - xl[0]), ('z0', t0), ('dz', dt)):
            if h[k] != v:
                probs.append(f'header word {k} = {h[k]}, source says {v}')
        import hashlib
        if bytes(buf[960:980]) != hashlib.sha1(cube.tobytes()).digest():
            probs.append('stored hash (bytes 960..980) is not the SHA-1 of the source samples in trace order')
        dec = S.decode(buf)
        exp = S.expected_readback(cube, rate, tuple(b))
        if dec['volume'].shape != exp.shape or not np.array_equal(dec['volume'], exp):
            probs.append('spec decode of the written file differs from the ZFP fixed-rate image of the edge-replicated source')
        with SgzReader(fn) as r:
            if list(r.ilines) != il or list(r.xlines) != xl:
                probs.append(f'reader axes {list(r.ilines)[:4]}.. / {list(r.xlines)[:4]}.. differ from the source {il[:4]}.. / {xl[:4]}..')
    except Exception as e:
        probs.append(f'{type(e).__name__}: {e}')
    finally:
        shutil.rmtree(d, ignore_errors=True)
    return {'reproduced': bool(probs), 'detail': probs or 'file conforms', 'case': {'shape': shape, 'rate': rate, 'blockshape': b, 'ilines': il[:3], 'xlines': xl[:3]}}


def replay_segy_route(model, rate, b, two_d, var):
    """write a SEG-Y with the model's shape (and window), convert it through the real SEG-Y route (both readers), and check the
    SGZ against the specification: hash = SHA-1 of the (windowed) source samples, spec decode = ZFP image of the edge-replicated
    (windowed) source, stored header arrays = the headers of the (windowed) traces, axes of the window"""
    import tempfile, shutil, hashlib
    import numpy as np
    from oracle import specsgz as S, segygen as G
    g = lambda *n: ival(model, *n)
    d = tempfile.mkdtemp(prefix='verif_sr_')
    probs = []
    case = {}
    try:
        from seismic_zfp.conversion import SegyConverter
        from seismic_zfp.read import SgzReader
        rng = np.random.default_rng(1)
        if two_d:
            nT, nZ = g('n_traces') or 5, g('n_samples') or 5
            nT, nZ = min(max(nT, 2), 200), min(max(nZ, 2), 3 * b[2] + 3)
            sec = rng.standard_normal((nT, nZ)).astype(np.float32)
            cdp = (1000 + 3 * np.arange(nT)).astype(np.int32)
            G.write_segy(d + '/s.sgy', sec, None, None, two_d=True, extra_headers={181: cdp, 185: cdp[::-1].copy()})
            case = dict(n_traces=nT, n_samples=nZ, rate=rate, blockshape=b)
            with G.LibVersion('0.2.8'):
                with SegyConverter(d + '/s.sgy') as c:
                    c.run(d + '/o.sgz', bits_per_voxel=rate, blockshape=tuple(b))
            buf = open(d + '/o.sgz', 'rb').read()
            if bytes(buf[960:980]) != hashlib.sha1(sec.tobytes()).digest():
                probs.append('stored hash is not the SHA-1 of the source samples in trace order')
            dec = S.decode(buf)
            exp = S.expected_readback(sec, rate, tuple(b))
            if dec['volume'].shape != exp.shape or not np.array_equal(dec['volume'], exp):
                probs.append('spec decode of the written file differs from the 2-D ZFP image of the edge-replicated section')
            with SgzReader(d + '/o.sgz') as r:
                hv = r.get_tracefield_values(181) if hasattr(r, 'get_tracefield_values') else None
                if hv is not None and list(np.asarray(hv).ravel()) != list(cdp):
                    probs.append('CDP_X header array read back differs from the source headers')
            return {'reproduced': bool(probs), 'detail': probs or 'file conforms', 'case': case}
        nI, nX, nZ = g('source.n_ilines', 'n_ilines') or 5, g('source.n_xlines', 'n_xlines') or 5, g('n_samples') or 5
        nI, nX, nZ = min(max(nI, 2), 24), min(max(nX, 2), 24), min(max(nZ, 2), 3 * b[2] + 3)
        wi, wx = g('window.first_inline_ordinal') or 0, g('window.first_crossline_ordinal') or 0
        nIw, nXw = g('window.n_ilines') or nI, g('window.n_xlines') or nX
        wi, wx = min(wi, nI - 2), min(wx, nX - 2)
        nIw, nXw = max(2, min(nIw, nI - wi)), max(2, min(nXw, nX - wx))
        il = [10 + 2 * k for k in range(nI)]; xl = [300 + 3 * k for k in range(nX)]
        cube = rng.standard_normal((nI, nX, nZ)).astype(np.float32)
        cdp = (7 * np.arange(nI * nX) + 1).astype(np.int32)
        G.write_segy(d + '/s.sgy', cube, il, xl, extra_headers={21: cdp})
        windowed = not (wi == 0 and wx == 0 and nIw == nI and nXw == nX)
        sub_cube = cube[wi:wi + nIw, wx:wx + nXw]
        case = dict(shape=[nI, nX, nZ], window=[wi, wi + nIw, wx, wx + nXw], rate=rate, blockshape=b)
        for reduce_iops in (False, True):
            out = d + f'/o{int(reduce_iops)}.sgz'
            tag = 'reduce_iops' if reduce_iops else 'segyio'
            with G.LibVersion('0.2.8'):
                kw = dict(min_il=wi, max_il=wi + nIw, min_xl=wx, max_xl=wx + nXw) if windowed else {}
                with SegyConverter(d + '/s.sgy', **kw) as c:
                    import warnings
                    with warnings.catch_warnings():
                        warnings.simplefilter('ignore')
                        c.run(out, bits_per_voxel=rate, blockshape=tuple(b), reduce_iops=reduce_iops)
            buf = open(out, 'rb').read()
            if bytes(buf[960:980]) != hashlib.sha1(np.ascontiguousarray(sub_cube).tobytes()).digest():
                probs.append(f'[{tag}] stored hash is not the SHA-1 of the (windowed) source samples in trace order')
            dec = S.decode(buf)
            exp = S.expected_readback(np.ascontiguousarray(sub_cube), rate, tuple(b))
            if dec['volume'].shape != exp.shape or not np.array_equal(dec['volume'], exp):
                probs.append(f'[{tag}] spec decode differs from the ZFP image of the edge-replicated (windowed) source')
            with SgzReader(out) as r:
                if list(r.ilines) != il[wi:wi + nIw] or list(r.xlines) != xl[wx:wx + nXw]:
                    probs.append(f'[{tag}] reader axes {list(r.ilines)[:3]}../{list(r.xlines)[:3]}.. are not those of the window')
                want = cdp.reshape(nI, nX)[wi:wi + nIw, wx:wx + nXw]
                got = np.array([r.gen_trace_header(t)[21] for t in range(nIw * nXw)]).reshape(nIw, nXw)
                if not np.array_equal(got, want):
                    probs.append(f'[{tag}] CDP header of the converted traces differs from the source headers of the window')
    except Exception as e:
        import traceback
        probs.append(f'{type(e).__name__}: {e} @ {traceback.format_exc().splitlines()[-3].strip()}')
    finally:
        shutil.rmtree(d, ignore_errors=True)
    return {'reproduced': bool(probs), 'detail': probs or 'file conforms', 'case': case}


def replay_axes_reader(model):
    """oracle-written file with distinct inline / crossline increments -> axes reported by the real reader"""
    import tempfile, shutil
    import numpy as np
    from oracle import specsgz as S
    from seismic_zfp.read import SgzReader
    d = tempfile.mkdtemp(prefix='verif_a_')
    probs = []
    try:
        cube = np.zeros((5, 6, 7), dtype=np.float32)
        for (il, xl) in (([10, 13, 16, 19, 22], [100, 98, 96, 94, 92, 90]), ([-5, -4, -3, -2, -1], [7, 14, 21, 28, 35, 42])):
            buf = S.encode(cube, 4, (4, 4, 512), ilines=il, xlines=xl, z0_ms=-8, dz_us=2500)
            fn = d + '/a.sgz'
            open(fn, 'wb').write(buf)
            with SgzReader(fn) as r:
                if list(r.ilines) != il or list(r.xlines) != xl:
                    probs.append(f'axes {list(r.ilines)} / {list(r.xlines)} but the header says {il} / {xl}')
                zs = [-8 + 2.5 * k for k in range(7)]
                if not np.allclose(r.zslices, zs, rtol=0, atol=1e-9):
                    probs.append(f'sample axis {list(r.zslices)[:3]} but the header says {zs[:3]}')
    finally:
        shutil.rmtree(d, ignore_errors=True)
    return {'reproduced': bool(probs), 'detail': probs or 'reader axes match the header', 'case': 'oracle-written 5x6x7 files, steps (3,-2) and (1,7)'}


def replay_crop(model, shape, rate, b):
    """oracle-written source -> real SgzCropper (after a single-field header query, so caches are filled out of table
    order) -> cropped file checked against the specification and the source restricted to the widened box"""
    import tempfile, shutil
    import numpy as np
    from oracle import specsgz as S
    from seismic_zfp.cropping import SgzCropper
    shape = [min(x, 40) if i < 2 else min(x, 3 * b[2]) for i, x in enumerate(shape)]
    rng = np.random.default_rng(1)
    cube = rng.standard_normal(shape).astype(np.float32)
    il = list(range(-3, -3 + shape[0])); xl = list(range(50, 50 + 3 * shape[1], 3))
    n = shape[0] * shape[1]
    hdr = {189: np.repeat(np.array(il), shape[1]).astype(np.int32), 193: np.tile(np.array(xl), shape[0]).astype(np.int32), 1: np.arange(n, dtype=np.int32)}
    names = ('iline_index_range', 'xline_index_range', 'zslices_index_range')
    box = []
    for nm in names:
        lo, hi = ival(model, nm + '[0]'), ival(model, nm + '[1]')
        box.append(None if lo is None or hi is None else (lo, hi))
    d = tempfile.mkdtemp(prefix='verif_c_')
    probs = []
    try:
        for ver in ((0, 2, 5, False), (0, 1, 9, False)):
            buf = S.encode(cube, rate, tuple(b), ilines=il, xlines=xl, header_arrays=hdr, version=ver)
            src, out = d + '/s.sgz', d + '/c.sgz'
            open(src, 'wb').write(buf)
            dec = S.decode(buf)
            rg = [bx if bx is not None else (0, shape[k]) for k, bx in enumerate(box)]
            valid = any(bx is not None for bx in box) and all(0 <= r[0] < r[1] <= shape[k] for k, r in enumerate(rg))
            if os.path.exists(out):
                os.remove(out)
            try:
                with SgzCropper(src) as c:
                    c.get_tracefield_values(193)
                    c.clear_variant_headers() if False else None
                    c.write_cropped_file_by_indexes(out, *box)
                raised = None
            except IndexError:
                raised = 'IndexError'
            except Exception as e:
                raised = type(e).__name__
            if not valid:
                if raised != 'IndexError' or os.path.exists(out):
                    probs.append(f'version {ver[:3]}: invalid request {box} on a {shape} cube: raised {raised}, output file exists: {os.path.exists(out)}')
                continue
            if raised:
                probs.append(f'version {ver[:3]}: valid request {box} raised {raised}')
                continue
            cb = open(out, 'rb').read()
            probs += [f'version {ver[:3]}: ' + x for x in S.check_conf(cb)]
            cd = S.decode(cb)
            lo = [bb * (r[0] // bb) for r, bb in zip(rg, b)]
            hi = [min(n_, bb * -(-r[1] // bb)) for r, bb, n_ in zip(rg, b, shape)]
            want = dec['volume'][lo[0]:hi[0], lo[1]:hi[1], lo[2]:hi[2]]
            if cd['volume'].shape != want.shape or not np.array_equal(cd['volume'], want):
                probs.append(f'version {ver[:3]}: decoded volume of the cropped file differs from the source box {lo}..{hi}')
            for k in hdr:
                if k not in cd['arrays'] or not np.array_equal(cd['arrays'][k].reshape(want.shape[:2]), hdr[k].reshape(shape[:2])[lo[0]:hi[0], lo[1]:hi[1]]):
                    probs.append(f'version {ver[:3]}: header array {k} of the cropped file is not the source array restricted to the box')
    except Exception as e:
        probs.append(f'{type(e).__name__}: {e}')
    finally:
        shutil.rmtree(d, ignore_errors=True)
    return {'reproduced': bool(probs), 'detail': probs[:6] or 'cropped files conform and match the source box',
            'case': {'shape': shape, 'rate': rate, 'blockshape': b, 'box': box, 'history': 'get_tracefield_values(193) before the crop'}}


def loader_cases(method, model, shape, rate, b, two_d):
    """public calls that drive a loader function with the arguments of the model"""
    mk = lambda m, **a: dict(shape=shape, rate=rate, blockshape=b, method=m, args=a)
    iv = lambda k: ival(model, k)
    if method == 'read_and_decompress_il_set' and iv('i') is not None:
        return [mk('read_inline', il_id=i) for i in range(iv('i'), min(iv('i') + 4, shape[0]))]
    if method == 'read_and_decompress_xl_set' and iv('x') is not None:
        return [mk('read_crossline', xl_id=i) for i in range(iv('x'), min(iv('x') + 4, shape[1]))]
    if method == 'read_and_decompress_zslice_set' and iv('zslice_id') is not None:
        z0 = 4 * (iv('zslice_id') // 4)
        return [mk('read_zslice', zslice_id=i) for i in range(z0, min(z0 + 4, shape[2]))]
    if method == 'read_and_decompress_zslice_set_adv' and iv('zslice_first_block_offset') is not None:
        z0 = 4 * iv('zslice_first_block_offset')
        return [mk('read_zslice', zslice_id=i) for i in range(z0, min(z0 + 4, shape[2]))]
    if method in ('read_and_decompress_chunk_range', 'read_unshuffle_and_decompress_chunk_range'):
        ks = ['min_il', 'max_il', 'min_xl', 'max_xl', 'min_z', 'max_z']
        if all(iv(k) is not None for k in ks):
            a = {k: iv(k) for k in ks}
            a['access_padding'] = True
            return [mk('read_subvolume', **a)]
    if method == 'read_and_decompress_trace_range' and iv('min_id') is not None:
        return [mk('get_trace', index=i) for i in range(iv('min_id'), min(iv('min_id') + 4, shape[0]))]
    if method == 'read_unshuffle_and_decompress_chunk_range_2d':
        ks = ['min_id', 'max_id', 'min_z', 'max_z']
        if all(iv(k) is not None for k in ks):
            return [mk('read_subplane', min_trace=iv('min_id'), max_trace=iv('max_id'), min_z=iv('min_z'), max_z=iv('max_z'), access_padding=True)]
    return None


def sweep_cases(shape, rate, b, two_d):
    cases = []
    if two_d:
        nT, nZ = shape
        for i in range(nT):
            cases.append(dict(shape=shape, rate=rate, blockshape=b, method='get_trace', args={'index': i}))
        cases.append(dict(shape=shape, rate=rate, blockshape=b, method='read_subplane', args=dict(min_trace=0, max_trace=nT, min_z=0, max_z=nZ)))
        return cases
    nI, nX, nZ = shape
    for i in list(range(min(nI, 9))) + [nI - 1]:
        cases.append(dict(shape=shape, rate=rate, blockshape=b, method='read_inline', args={'il_id': i}))
    for i in list(range(min(nX, 9))) + [nX - 1]:
        cases.append(dict(shape=shape, rate=rate, blockshape=b, method='read_crossline', args={'xl_id': i}))
    for i in list(range(min(nZ, 9))) + [nZ - 1]:
        cases.append(dict(shape=shape, rate=rate, blockshape=b, method='read_zslice', args={'zslice_id': i}))
    cases.append(dict(shape=shape, rate=rate, blockshape=b, method='read_volume', args={}))
    return cases


if __name__ == '__main__':
    main()
