"""Functional model of numpy arrays (AX-NP-INDEX): shape + element function, demand-driven.

An SArray is (shape, dtype, fn) with fn(idx tuple) -> element value built from z3 terms.  Slicing
composes index maps; slice assignment builds a store chain (read walks it last-to-first with If).
Element functions never fork; all forking (index errors, broadcast errors) happens eagerly.
"""
import z3

from . import values as V
from .values import (Unsupported, PyRaise, SInt, SFloat, SBool, STok, SSlice, is_sym, is_num, is_intlike,
                     is_floatlike, ops_binop, ops_cmp, mk_bool, mk_int, zint, zbool, cur, Ite, Min, Max, And, Or,
                     Not, slice_bounds, ite_val)

INT_DTYPES = {'int8': 8, 'int16': 16, 'int32': 32, 'int64': 64, 'intc': 32, 'int': 64, 'uint8': 8, 'uint16': 16,
              'uint32': 32, 'uint64': 64}
FLOAT_DTYPES = {'float32', 'float64', 'float'}


class DType:
    def __init__(self, name, order='='):
        self.name = canon_dtype(name)
        self.order = order            # '=' native (little-endian here) | '>' big-endian

    def __repr__(self):
        return f'dtype({self.name})'

    def __eq__(self, o):
        if isinstance(o, DType):
            return self.name == o.name
        try:
            return self.name == canon_dtype(o)
        except Exception:
            return False

    def __hash__(self):
        return hash(self.name)


def canon_dtype(d):
    from .symex import ExtRef
    if isinstance(d, DType):
        return d.name
    if isinstance(d, ExtRef):
        d = d.dotted.split('.')[-1]
    if isinstance(d, str):
        d = d.lstrip('<>=')
        m = {'float': 'float64', 'int': 'int64', 'intc': 'int32', 'f4': 'float32', 'f8': 'float64', 'i4': 'int32',
             'i8': 'int64', 'bool': 'bool', 'bool_': 'bool'}
        return m.get(d, d)
    raise Unsupported(f'dtype {d!r}')


def wrap_int(v, bits, signed=True):
    """numpy astype wrap modulo 2^bits."""
    m = 1 << bits
    if not is_sym(v):
        v = int(v) % m
        if signed and v >= m // 2:
            v -= m
        return v
    z = zint(v) % m
    if signed:
        z = z3.If(z >= m // 2, z - m, z)
    return mk_int(z)


class SArray:
    def __init__(self, shape, fn, dtype='float32'):
        self.shape = tuple(shape)
        self.fn = fn
        self.dtype = canon_dtype(dtype)
        self.is_view = False
        self.base = None          # for write-through views (explicit out-params only)
        self.base_map = None
        if V.CUR is not None:
            V.CUR.counter += 1
            self.born = V.CUR.counter
        else:
            self.born = 0

    def __repr__(self):
        return f'SArray(shape={self.shape}, dtype={self.dtype})'

    @property
    def ndim(self):
        return len(self.shape)

    def elem(self, *idx):
        return self.fn(tuple(idx))

    def size(self):
        r = 1
        for d in self.shape:
            r = ops_binop('*', r, d)
        return r

    # ---------------------------------------------------------------- indexing
    def _parse_key(self, key, lib):
        """-> list of ('int', k) | ('slice', lo, hi, step) | ('new',) per key item, padded to ndim."""
        key = list(key)
        if any(k is Ellipsis for k in key):
            i = key.index(Ellipsis)
            fill = self.ndim - (len(key) - 1 - sum(1 for k in key if k is None))
            key = key[:i] + [SSlice(None, None, None)] * fill + key[i + 1:]
        nkeys = sum(1 for k in key if k is not None)
        if nkeys > self.ndim:
            raise PyRaise('IndexError', 'too many indices')
        key = key + [SSlice(None, None, None)] * (self.ndim - nkeys)
        out = []
        ax = 0
        for k in key:
            if k is None:
                out.append(('new',))
                continue
            n = self.shape[ax]
            if isinstance(k, SSlice):
                step = k.step
                if step is None or (isinstance(step, int) and step == 1):
                    lo, hi = slice_bounds(SSlice(k.start, k.stop, None), n)
                    out.append(('slice', lo, hi, 1))
                else:
                    if not (k.start is None and k.stop is None):
                        raise Unsupported('stepped slice with bounds')
                    if is_floatlike(step):
                        raise PyRaise('TypeError', 'slice step must be integer')
                    if not cur().known(ops_cmp('>', step, 0)):
                        if cur().decide(zint(step) == 0):
                            raise PyRaise('ValueError', 'slice step cannot be zero')
                        if not cur().known(ops_cmp('>', step, 0)):
                            raise Unsupported('negative/unknown-sign slice step')
                    out.append(('slice', 0, n, step))
            elif is_intlike(k) or is_floatlike(k):
                out.append(('int', lib.norm_index(k, n)))
            elif isinstance(k, SArray) and k.dtype == 'bool':
                out.append(('mask', k))
            else:
                raise Unsupported(f'array index of type {type(k).__name__}')
            ax += 1
        return out

    def getitem(self, key, lib=None):
        if lib is None:
            from .stdlib import Stdlib  # pragma: no cover
        if len(key) == 1 and isinstance(key[0], SArray) and key[0].dtype == 'bool':
            return MaskedArray(self, key[0])
        parsed = self._parse_key(key, lib)
        if any(p[0] == 'mask' for p in parsed):
            raise Unsupported('mask index mixed with others')
        if all(p[0] == 'int' for p in parsed):
            return self.fn(tuple(p[1] for p in parsed))
        new_shape = []
        for p in parsed:
            if p[0] == 'slice':
                _, lo, hi, step = p
                if isinstance(step, int) and step == 1:
                    d = ops_binop('-', hi, lo)
                    if isinstance(d, SInt) and z3.is_add(d.z) and not cur().family:
                        # let-name a compound extent (keeps later products / divisions in terms of atoms)
                        c = cur()
                        nz = c.fresh_int('dim')
                        c.assume_raw(nz == d.z)
                        c.defs[nz.get_id()] = (nz, d.z)
                        if c.known_fast(d.z >= 1):
                            c.pos_ids.add(nz.get_id())
                            c.nonneg_ids.add(nz.get_id())
                        elif c.known_fast(d.z >= 0):
                            c.nonneg_ids.add(nz.get_id())
                        d = SInt(nz)
                    new_shape.append(d)
                    continue
                if False:
                    new_shape.append(ops_binop('-', hi, lo))
                else:
                    d = ops_binop('-', hi, lo)
                    new_shape.append(ops_binop('//', ops_binop('+', d, ops_binop('-', step, 1)), step))
            elif p[0] == 'new':
                new_shape.append(1)
        parent_fn = self.fn

        def fn(idx, parsed=parsed, parent_fn=parent_fn):
            src = []
            j = 0
            for p in parsed:
                if p[0] == 'int':
                    src.append(p[1])
                elif p[0] == 'new':
                    j += 1
                else:
                    _, lo, hi, step = p
                    if isinstance(step, int) and step == 1:
                        src.append(ops_binop('+', lo, idx[j]))
                    else:
                        src.append(ops_binop('+', lo, ops_binop('*', idx[j], step)))
                    j += 1
            return parent_fn(tuple(src))
        r = SArray(new_shape, fn, self.dtype)
        r.is_view = True
        r.base = self
        r.base_map = parsed
        return r

    def setitem(self, key, val, lib):
        if self.is_view and self.base is not None and not getattr(self, 'writable_view', False):
            raise Unsupported('assignment through a numpy view (aliasing not modelled)')
        parsed = self._parse_key(key, lib)
        if any(p[0] in ('mask', 'new') for p in parsed):
            raise Unsupported('mask/newaxis in array store')
        region_shape = []
        for p in parsed:
            if p[0] == 'slice':
                if not (isinstance(p[3], int) and p[3] == 1):
                    raise Unsupported('stepped store')
                region_shape.append(ops_binop('-', p[2], p[1]))
        val = V_untag(val)
        if isinstance(val, (list, tuple)):
            raise Unsupported('store of python sequence into array')
        if isinstance(val, SArray):
            vshape = list(val.shape)
            # numpy broadcasting: align right; leading extra dims of val must be 1
            while len(vshape) > len(region_shape):
                if not (isinstance(vshape[0], int) and vshape[0] == 1):
                    if cur().decide(zbool(ops_cmp('==', vshape[0], 1))):
                        pass
                    else:
                        raise PyRaise('ValueError', 'could not broadcast')
                vshape = vshape[1:]
            off = len(region_shape) - len(vshape)
            bmap = []
            for j, d in enumerate(vshape):
                rd = region_shape[off + j]
                if isinstance(d, int) and d == 1 and not (isinstance(rd, int) and rd == 1):
                    bmap.append('b')
                    continue
                eq = ops_cmp('==', d, rd)
                if eq is True or cur().decide(zbool(eq)):
                    bmap.append('e')
                else:
                    # a size-1 symbolic dim would broadcast too
                    if is_sym(d) and cur().decide(zbool(ops_cmp('==', d, 1))):
                        bmap.append('b')
                    else:
                        raise PyRaise('ValueError', 'could not broadcast input array')
            nlead = len(val.shape) - len(vshape)
            vfn = val.fn

            def src(ridx, vfn=vfn, off=off, bmap=bmap, nlead=nlead):
                vi = [0] * nlead
                for j, m in enumerate(bmap):
                    vi.append(0 if m == 'b' else ridx[off + j])
                return vfn(tuple(vi))
            conv = self._conv_elem_from(val.dtype)
        else:
            sv = val

            def src(ridx, sv=sv):
                return sv
            conv = self._conv_scalar
        old_fn = self.fn
        dtype = self.dtype
        from . import loops
        if loops.active_vars() and loops.is_outer(self):
            return self._family_store(parsed, src, conv)

        def fn(idx, parsed=parsed, old_fn=old_fn, src=src, conv=conv):
            conds = []
            ridx = []
            for p, i in zip(parsed, idx):
                if p[0] == 'int':
                    conds.append(ops_cmp('==', i, p[1]))
                else:
                    conds.append(And(ops_cmp('>=', i, p[1]), ops_cmp('<', i, p[2])))
                    ridx.append(ops_binop('-', i, p[1]))
            c = And(*conds)
            if c is False:
                return old_fn(idx)
            newv = conv(src(tuple(ridx)))
            if c is True:
                return newv
            return ite_val(c, newv, old_fn(idx))
        self.fn = fn
        if getattr(self, 'writable_view', False) and self.base is not None:
            # write-through to the parent (explicit out-param views)
            self.base.setitem_from_view(self, lib)

    def _family_store(self, parsed, src, conv):
        """store executed by the generic iteration of an L3 loop nest into an array that outlives it"""
        from . import loops
        c = cur()
        levels = loops.active_levels()
        fam_guards = list(getattr(c, 'fam_guards', []))       # conditions on the generic index under which this store executes
        # facts learned so far inside the enclosing if-converted arms (definitions of division witnesses ...): they hold for every iteration
        # that takes the arm, and are instantiated at the writer iteration whenever the stored value is looked up
        arm_facts = []
        conds_so_far = []
        for (acond, amark) in getattr(c, 'arm_marks', []):
            conds_so_far.append(acond)
            for fz in c.pc[amark + 1:]:
                arm_facts.append(z3.Implies(z3.And(*conds_so_far), fz))
        old_fn = self.fn
        nd = len(self.shape)
        i0 = []
        for pz in parsed:
            if pz[0] == 'int':
                i0.append(pz[1])
            else:
                jz = c.fresh_int('fsj')
                c.nonneg_ids.add(jz.get_id())
                c.assume_raw(z3.And(jz >= 0, jz < zint(ops_binop('-', pz[2], pz[1]))))
                i0.append(ops_binop('+', pz[1], mk_int(jz)))
        i0 = tuple(i0)

        def region(idx, sub=None):
            conds = []
            ridx = []
            for p, i in zip(parsed, idx):
                if p[0] == 'int':
                    v = p[1] if sub is None else loops.subst(p[1], sub)
                    conds.append(ops_cmp('==', i, v))
                else:
                    lo = p[1] if sub is None else loops.subst(p[1], sub)
                    hi = p[2] if sub is None else loops.subst(p[2], sub)
                    conds.append(And(ops_cmp('>=', i, lo), ops_cmp('<', i, hi)))
                    ridx.append(ops_binop('-', i, lo))
            return And(*conds), tuple(ridx)
        loops.unique_cover_obligation('array_store', levels, True, i0)

        def fn(idx):
            ws = loops.witness_for(levels, idx)
            pairs = loops.family_pairs(levels, ws)
            inr, _ = region(idx, pairs)
            cond = And(loops.family_in_range(levels, ws), inr, *[mk_bool(loops.subst_z(gz, pairs)) for gz in fam_guards])
            if cond is False:
                return old_fn(idx)
            if cond is not True and c.prove(cond):
                cond = True
            # evaluate the stored value at placeholder indices, then substitute loop indices and positions together
            ph = tuple(mk_int(c.fresh_int('fi')) for _ in range(nd))
            inr_ph, ridx = region(ph)
            before = c.counter
            c.guards.append(inr_ph)          # side conditions of the stored value are needed inside the region only
            try:
                newv = conv(src(ridx))
            finally:
                c.guards.pop()
            loops.check_closed(newv, min(before, levels[0].stamp), allowed=loops.level_names(levels) + [str(x.z) for x in ph if hasattr(x, 'z')])
            newv = loops.subst(newv, pairs + [(zint(a), zint(b)) for a, b in zip(ph, idx)])
            for fz in arm_facts:
                c.assume_raw(loops.subst_z(fz, pairs))
            if cond is True:
                return newv
            return ite_val(cond, newv, old_fn(idx))
        self.fn = fn
        c.ghost.setdefault('family_stores', []).append(('array', self, levels))
        if getattr(self, 'writable_view', False) and self.base is not None:
            raise Unsupported('family store through a view of a view')

    def setitem_from_view(self, view, lib):
        parsed = view.base_map
        old_fn = self.fn
        vfn = view.fn
        from . import loops
        if loops.active_vars() and loops.is_outer(self):
            return self._family_store(parsed, lambda ridx: vfn(ridx), lambda v: v)

        def fn(idx):
            conds = []
            ridx = []
            for p, i in zip(parsed, idx):
                if p[0] == 'int':
                    conds.append(ops_cmp('==', i, p[1]))
                else:
                    conds.append(And(ops_cmp('>=', i, p[1]), ops_cmp('<', i, p[2])))
                    ridx.append(ops_binop('-', i, p[1]))
            c = And(*conds)
            if c is False:
                return old_fn(idx)
            nv = vfn(tuple(ridx))
            if c is True:
                return nv
            return ite_val(c, nv, old_fn(idx))
        self.fn = fn

    def _conv_scalar(self, v):
        if self.dtype in FLOAT_DTYPES:
            if isinstance(v, STok):
                return v
            if isinstance(v, (int, float)) and v == 0:
                return STok(V.F32_ZERO)
            if self.dtype == 'float64' and is_num(v):
                return v
            raise Unsupported('numeric store into token array')
        if self.dtype in INT_DTYPES:
            if is_floatlike(v):
                raise Unsupported('float store into int array')
            if isinstance(v, STok):
                raise Unsupported('token store into int array')
            bits = INT_DTYPES[self.dtype]
            # numpy 2: python int out of range -> OverflowError; numpy ints wrap.  We wrap and
            # record an overflow obligation hook via ghost (callers that care check the range).
            return wrap_int(v, bits, signed=not self.dtype.startswith('u'))
        if self.dtype == 'bool':
            return v
        return v

    def _conv_elem_from(self, src_dtype):
        if self.dtype == canon_dtype(src_dtype):
            return lambda v: v
        return self._conv_scalar

    # ---------------------------------------------------------------- whole-array ops
    def copy(self):
        return SArray(self.shape, self.fn, self.dtype)

    def astype(self, dtype):
        dt = canon_dtype(dtype)
        if dt == self.dtype:
            return self.copy()
        src = self.fn
        if dt in FLOAT_DTYPES and self.dtype in FLOAT_DTYPES:
            return SArray(self.shape, src, dt)
        if dt in INT_DTYPES and self.dtype in INT_DTYPES:
            bits = INT_DTYPES[dt]
            signed = not dt.startswith('u')
            return SArray(self.shape, lambda idx: wrap_int(src(idx), bits, signed), dt)
        if dt in FLOAT_DTYPES and self.dtype in INT_DTYPES:
            return SArray(self.shape, lambda idx: to_float(src(idx)), dt)
        if dt in INT_DTYPES and self.dtype in FLOAT_DTYPES:
            bits = INT_DTYPES[dt]
            return SArray(self.shape, lambda idx: wrap_int(trunc_float(src(idx)), bits), dt)
        raise Unsupported(f'astype {self.dtype}->{dt}')

    def transpose(self):
        src = self.fn
        return SArray(tuple(reversed(self.shape)), lambda idx: src(tuple(reversed(idx))), self.dtype)

    def flat_index(self, idx):
        r = 0
        for d, i in zip(self.shape, idx):
            r = ops_binop('+', ops_binop('*', r, d), i)
        return r

    def unflat(self, k):
        idx = []
        for d in reversed(self.shape[1:]):
            idx.append(ops_binop('%', k, d))
            k = ops_binop('//', k, d)
        idx.append(k)
        return tuple(reversed(idx))

    def flatten(self):
        src = self
        return SArray((self.size(),), lambda idx: src.fn(src.unflat(idx[0])), self.dtype)

    def reshape(self, shape):
        shape = tuple(shape)
        total = self.size()
        newtotal = 1
        for d in shape:
            newtotal = ops_binop('*', newtotal, d)
        eq = ops_cmp('==', total, newtotal)
        if not (eq is True or cur().decide(zbool(eq))):
            raise PyRaise('ValueError', 'cannot reshape')
        src = self
        tmp = SArray(shape, None, self.dtype)

        def fn(idx):
            return src.fn(src.unflat(tmp.flat_index(idx)))
        tmp.fn = fn
        return tmp


def V_untag(v):
    from .symex import untag
    return untag(v)


def to_float(v):
    if isinstance(v, int):
        return float(v)
    if isinstance(v, SInt):
        return V.mk_float(z3.ToReal(v.z))
    return v


def trunc_float(v):
    if isinstance(v, float):
        return int(v)
    if isinstance(v, int):
        return v
    if isinstance(v, SInt):
        return v
    if isinstance(v, SFloat):
        z = v.z
        return mk_int(z3.If(z >= 0, z3.ToInt(z), -z3.ToInt(-z)))
    raise Unsupported('trunc of non-number')


class MaskedArray:
    """values[mask] for a boolean mask: ascending positions where mask holds (AX-NP-WHERE).
    rank/select are uninterpreted with their defining axioms instantiated on demand."""
    def __init__(self, arr, mask):
        if arr.ndim != 1 or mask.ndim != 1:
            raise Unsupported('mask on non-1d')
        self.arr = arr
        self.mask = mask
        c = cur()
        self.sel = z3.Function(c._name('select'), z3.IntSort(), z3.IntSort())
        self.count = c.fresh_int('maskcount')
        c.assume_raw(self.count >= 0)
        c.assume_raw(self.count <= zint(arr.shape[0]))
        self.dtype = arr.dtype
        self.shape = (mk_int(self.count),)

    def item(self, k, lib):
        n = mk_int(self.count)
        k2 = lib.norm_index(k, n)
        c = cur()
        p = self.sel(zint(k2))
        # defining facts of select at this instance
        c.assume_raw(z3.And(p >= 0, p < zint(self.arr.shape[0])))
        c.assume_raw(zbool(self.mask.fn((mk_int(p),))))
        c.ghost.setdefault('mask_selects', []).append((self, k2, mk_int(p)))
        return self.arr.fn((mk_int(p),)), mk_int(p)


def array_binop(op, a, b):
    A = a if isinstance(a, SArray) else None
    B = b if isinstance(b, SArray) else None
    ref = A or B
    if A is not None and B is not None:
        if len(A.shape) != len(B.shape):
            raise Unsupported('array binop with broadcasting over rank')
        for x, y in zip(A.shape, B.shape):
            eq = ops_cmp('==', x, y)
            if not (eq is True or cur().decide(zbool(eq))):
                raise PyRaise('ValueError', 'operands could not be broadcast')
    if ref.dtype in FLOAT_DTYPES and ref.dtype != 'float64':
        raise Unsupported('arithmetic on float32 sample arrays (tokens are opaque)')
    afn = A.fn if A is not None else (lambda idx: a)
    bfn = B.fn if B is not None else (lambda idx: b)
    dt = ref.dtype
    if op == '/' or is_floatlike(a) or is_floatlike(b) or (A is not None and A.dtype == 'float64') or (B is not None and B.dtype == 'float64'):
        dt = 'float64'

    def fn(idx):
        return ops_binop_nofork(op, afn(idx), bfn(idx))
    return SArray(ref.shape, fn, dt)


def ops_binop_nofork(op, x, y):
    if op in ('+', '-', '*'):
        return ops_binop(op, x, y)
    if op == '/' and not is_sym(y) and y != 0:
        return ops_binop(op, x, y)
    raise Unsupported(f'elementwise {op}')


def array_compare(op, a, b):
    A = a if isinstance(a, SArray) else None
    B = b if isinstance(b, SArray) else None
    ref = A or B
    afn = A.fn if A is not None else (lambda idx: a)
    bfn = B.fn if B is not None else (lambda idx: b)

    def fn(idx):
        x, y = afn(idx), bfn(idx)
        if isinstance(x, STok) or isinstance(y, STok):
            if op == '==':
                return x == y
            if op == '!=':
                return x != y
            raise Unsupported('ordering of tokens')
        # numpy compares booleans as 0 / 1
        from .values import SBool as _SB
        if isinstance(x, (_SB, bool)) and not isinstance(y, (_SB, bool)):
            x = Ite(x, 1, 0) if isinstance(x, _SB) else int(x)
        if isinstance(y, (_SB, bool)) and not isinstance(x, (_SB, bool)):
            y = Ite(y, 1, 0) if isinstance(y, _SB) else int(y)
        return ops_cmp(op, x, y)
    return SArray(ref.shape, fn, 'bool')
