"""Loop treatment for symbolic trip counts (DESIGN 2.7): L2 invariants, L3 independent-iteration schema."""
from .values import Unsupported


def install(interp, registry):
    for key, cons in registry.items():
        for con in cons:
            for (ordinal, annot) in getattr(con, 'loops', {}).items():
                if isinstance(ordinal, tuple):
                    fkey, o = ordinal
                else:
                    fkey, o = con.key, ordinal
                interp.loop_annots[(fkey, o)] = annot
