"""Loop treatment for symbolic trip counts (DESIGN 2.7).

L1  exact unrolling            -- symex.st_For when the iterable has a concrete length
L2  inductive invariant        -- class Invariant: havoc, assume inv, one symbolic iteration, assert inv, cut;
                                  continuation path assumes inv at exit
L3  independent iterations     -- class IndependentWrites: the body is executed ONCE for a generic index k
                                  (0 <= k < n); every store into an object that outlives the loop becomes a
                                  *family* store  {region(k) := value(k) | 0 <= k < n}.  The sidecar supplies a
                                  witness  w(position) ; the engine proves   position in region(k)  =>  k = w(position)
                                  (so regions of distinct iterations are disjoint, the final content does not depend
                                  on the ORDER of iterations -- which is also the schedule independence needed for the
                                  thread-pool fan-outs -- and the content at a position is value(w(position))).
                                  Branching on the loop index inside the body is refused (Unsupported): facts about the
                                  generic k must stay universally valid.
"""
import z3

from . import values as V
from .values import (Unsupported, PyRaise, SInt, SBool, SFloat, STok, SRange, is_sym, ops_binop, ops_cmp, mk_int,
                     mk_bool, zint, zbool, cur, And, Or, Not, Ite)


def install(interp, registry):
    for key, cons in registry.items():
        for con in cons:
            for (ordinal, annot) in getattr(con, 'loops', {}).items():
                if isinstance(ordinal, tuple):
                    fkey, o = ordinal
                else:
                    fkey, o = con.key, ordinal
                if not fkey.startswith('seismic_zfp/'):
                    fkey = 'seismic_zfp/' + fkey
                interp.loop_annots[(fkey, o)] = annot


# ---------------------------------------------------------------------------------------------
# substitution of loop variables in symbolic values

def subst_z(z, pairs):
    if not pairs:
        return z
    z2 = z3.substitute(z, *pairs)
    # Skolem quotient / remainder pairs (q, r) introduced for  a == b*q + r, 0 <= r < b  with a or b depending on a substituted
    # variable are functions of that variable: instantiate them afresh for the substituted arguments (and let later divisions
    # of the same terms reuse them through the division cache)
    try:
        c = cur()
    except RuntimeError:
        return z2
    defs = getattr(c, 'qr_defs', None)
    if not defs:
        return z2
    names = None
    memo = c.__dict__.setdefault('_qr_subst_memo', {})
    for d_ in list(defs):
        q, r, za, zb = d_[:4]
        signed = len(d_) > 4
        if names is None:
            names = {x.decl().name() for x in V._consts_of(z2).values()}
        if q.decl().name() not in names and r.decl().name() not in names:
            continue
        za2, zb2 = z3.substitute(za, *pairs), z3.substitute(zb, *pairs)
        if za2.eq(za) and zb2.eq(zb):
            continue
        key = ('div', z3.simplify(za2).sexpr(), z3.simplify(zb2).sexpr())
        hit = memo.get((q.get_id(), key))
        if hit is None:
            cached = c.divcache.get(key)
            if cached is not None and z3.is_const(cached[0]) and z3.is_const(cached[1]):
                hit = cached
            else:
                q2, r2 = c.fresh_int('q'), c.fresh_int('r')
                c.assume_raw(za2 == zb2 * q2 + r2)
                if signed:
                    c.assume_raw(z3.If(zb2 > 0, z3.And(r2 >= 0, r2 < zb2), z3.And(r2 <= 0, r2 > zb2)))
                    defs.append((q2, r2, za2, zb2, 'signed'))
                else:
                    c.assume_raw(z3.And(r2 >= 0, r2 < zb2))
                    c.nonneg_ids.add(r2.get_id())
                    defs.append((q2, r2, za2, zb2))
                c.divcache.setdefault(key, (q2, r2))
                hit = (q2, r2)
            memo[(q.get_id(), key)] = hit
        z2 = z3.substitute(z2, (q, hit[0]), (r, hit[1]))
        names = None
    return z2


def subst(v, pairs):
    """substitute z3 constants (loop indices) in a symbolic value"""
    if not pairs:
        return v
    if isinstance(v, SInt):
        return mk_int(subst_z(v.z, pairs))
    if isinstance(v, SBool):
        return mk_bool(subst_z(v.z, pairs))
    if isinstance(v, SFloat):
        return V.mk_float(subst_z(v.z, pairs))
    if isinstance(v, STok):
        return STok(z3.simplify(subst_z(v.z, pairs)))
    if isinstance(v, tuple):
        return tuple(subst(x, pairs) for x in v)
    if isinstance(v, list):
        return [subst(x, pairs) for x in v]
    if isinstance(v, dict):
        return {k: subst(x, pairs) for k, x in v.items()}
    from . import bytesmodel as BM
    if isinstance(v, BM.Tok):
        return BM.Tok(subst(v.kind, pairs) if is_sym(v.kind) else v.kind, subst(v.off, pairs) if is_sym(v.off) else v.off)
    if isinstance(v, BM.SBytes):
        return BM.SBytes(subst(v.length, pairs) if is_sym(v.length) else v.length, lambda q, v=v: subst(v.tok(q), pairs))
    from .npmodel import SArray
    if isinstance(v, SArray):
        r = SArray(tuple(subst(d, pairs) if is_sym(d) else d for d in v.shape), lambda idx, v=v: subst(v.fn(idx), pairs), v.dtype)
        return r
    if isinstance(v, V.SObj) and v.cls is None and v.clsname.startswith('$') and not v.clsname.startswith(('$file', '$queue', '$hash', '$segy.')):
        # immutable modelled value objects (headers, fields): substitute inside a copy
        r = V.SObj(None, clsname=v.clsname)
        r.fields.update({k: (x if callable(x) or isinstance(x, V.SObj) and x.clsname == '$segy' else subst(x, pairs)) for k, x in v.fields.items()})
        return r
    return v


def fresh_consts_in(z, counter_before):
    """names of z3 constants in z that were created after `counter_before` (engine-fresh symbols name!N)"""
    out = []
    seen = set()
    stack = [z]
    while stack:
        t = stack.pop()
        if t.get_id() in seen:
            continue
        seen.add(t.get_id())
        if z3.is_const(t) and t.decl().kind() == z3.Z3_OP_UNINTERPRETED:
            nm = t.decl().name()
            if '!' in nm:
                try:
                    if int(nm.rsplit('!', 1)[1]) > counter_before:
                        out.append(nm)
                except ValueError:
                    pass
        stack.extend(t.children())
    return out


def check_closed(v, counter_before, allowed=()):
    """a family value must be a closed form in (loop indices, position): symbols introduced while evaluating it
    (division witnesses etc.) would stay tied to the generic index after substitution"""
    zs = []
    if isinstance(v, (SInt, SBool, SFloat, STok)):
        zs = [v.z]
    else:
        from . import bytesmodel as BM
        if isinstance(v, BM.Tok):
            zs = [zint(v.kind), zint(v.off)]
    allowed = set(allowed)
    for z in zs:
        qr = set()
        for d_ in getattr(cur(), 'qr_defs', []):
            q_, r_ = d_[0], d_[1]
            qr.add(q_.decl().name()); qr.add(r_.decl().name())
        # (Skolem quotient / remainder pairs are functions of their arguments and are re-instantiated under substitution: subst_z)
        bad = [n for n in fresh_consts_in(z, counter_before) if n not in allowed and n not in qr]
        if bad:
            raise Unsupported(f'value stored by an independent-iterations loop is not a closed form (fresh symbols {bad[:3]})')


def mentions(z, consts):
    """does z3 term z mention any of the z3 constants?"""
    names = {c.decl().name() for c in consts}
    seen = set()
    stack = [z]
    while stack:
        t = stack.pop()
        if t.get_id() in seen:
            continue
        seen.add(t.get_id())
        if z3.is_const(t) and t.decl().kind() == z3.Z3_OP_UNINTERPRETED and t.decl().name() in names:
            return True
        stack.extend(t.children())
    return False


class SeqRange(SRange):
    """adapter: iterate the elements of a symbolic-length list"""
    def __init__(self, seq):
        super().__init__(0, seq.length, 1)
        self.seq = seq

    def item(self, k):
        return self.seq.item(k)

    def length(self):
        return self.seq.length


class LoopVar:
    def __init__(self, z, n, label):
        self.z = z          # z3 Int constant: the generic ordinal 0 <= z < n
        self.n = n          # trip count (value)
        self.label = label


class Family:
    """one active L3 loop nest level (one generic index, or several when a flattened loop is decomposed)"""
    def __init__(self, annot, vars_, stamp, env, fname):
        self.annot = annot
        self.vars = list(vars_)
        self.var = self.vars[0]
        self.stamp = stamp
        self.env = env
        self.fname = fname
        self.raised = None      # exception class raised by the generic iteration (fault modes)


def active_vars():
    c = cur()
    out = []
    for f in getattr(c, 'family', []):
        out += f.vars
    return out


def level_names(levels):
    return [v.z.decl().name() for f in levels for v in f.vars]


def level_vars(levels):
    out = []
    for f in levels:
        out += f.vars
    return out


def active_family():
    c = cur()
    fam = getattr(c, 'family', [])
    return fam[-1] if fam else None


def is_outer(obj):
    """object allocated before the outermost active L3 loop?"""
    c = cur()
    fam = getattr(c, 'family', [])
    if not fam:
        return False
    return getattr(obj, 'born', 0) < fam[0].stamp


def effect_write(obj):
    """a callee's contract overwrites array `obj` in place (called by the `effects` of sidecar contracts).  Inside a generic
    iteration an object allocated BEFORE the loop is shared by all iterations: the write is remembered, and handing such an
    object to a queue is refused by an obligation (q_put) -- another iteration may overwrite it before the consumer reads it"""
    c = cur()
    if is_outer(obj):
        c.ghost.setdefault('outer_effect_writes', []).append(obj)
        obj.shared_written = True


def shared_written_base(item):
    """the array (item itself or the array it is a view of) that outlives the iteration and is written inside it, if any"""
    seen = 0
    o = item
    while o is not None and seen < 8:
        if getattr(o, 'shared_written', False) and is_outer(o):
            return o
        o = getattr(o, 'base', None)
        seen += 1
    return None


def active_levels():
    return list(getattr(cur(), 'family', []))


def witness_for(levels, pos):
    """Evaluate the sidecar witnesses of the given loop levels at `pos` (a position / index tuple).
    Returns list of values (one per loop var, outermost first)."""
    out = []
    for f in levels:
        w = f.annot.witness
        if w is None:
            raise Unsupported(f'L3 loop in {f.fname} stores into an outer object but has no witness')
        r = w(pos, f.env)
        if isinstance(r, (tuple, list)):
            if len(r) != len(f.vars):
                raise Unsupported('L3 witness arity')
            out += list(r)
        else:
            if len(f.vars) != 1:
                raise Unsupported('L3 witness arity')
            out.append(r)
    return out


class IndependentWrites:
    """L3 annotation.  witness(pos, env) -> ordinal(s) of the iteration(s) of THIS level that write position pos
    (pos: int for bytearrays, index tuple for arrays; env: the local variables of the function at loop entry
    as a dict name -> value).  One annotation per loop statement (nested loops: one each; the innermost that
    stores supplies a witness for every enclosing level still unwitnessed by returning a tuple)."""
    always = False

    def __init__(self, witness=None, decompose=None, always=False, guarded_stores=False):
        self.guarded_stores = guarded_stores      # allow `if cond(k):` around stores (if-conversion, see symex.st_If)
        self.always = always            # use the schema even when the trip count is concrete (avoids long If-chains)
        self.witness = witness
        self.decompose = decompose      # env -> (n0, n1): the loop runs over range(n0*n1); generic index = k0*n1 + k1

    def generic_index(self, c, frame, n, label):
        """fresh generic ordinal(s) of one iteration: -> (loop variables, value of the ordinal)"""
        if self.decompose is not None:
            # flattened double loop: every ordinal in [0, n0*n1) is k0*n1 + k1 for exactly one (k0,k1) in the box
            # (mixed-radix representation, the one arithmetic fact taken on trust: TRUSTED lemma MIXED-RADIX)
            n0, n1 = self.decompose(frame.env)
            c.require(ops_cmp('==', n, ops_binop('*', n0, n1)), f'loop{frame.loop_ordinal}.trip_count_is_product', kind='loop')
            k0, k1 = c.fresh_int('L3k'), c.fresh_int('L3k')
            c.assume_raw(z3.And(k0 >= 0, k0 < zint(n0), k1 >= 0, k1 < zint(n1)))
            c.nonneg_ids.update([k0.get_id(), k1.get_id()])
            vars_ = [LoopVar(k0, n0, label + '.0'), LoopVar(k1, n1, label + '.1')]
            k = ops_binop('+', ops_binop('*', SInt(k0), n1), SInt(k1))
            c.ex.__dict__.setdefault('axioms', set()).add('LEMMA-MIXED-RADIX')
        else:
            kz = c.fresh_int('L3k')
            c.assume_raw(z3.And(kz >= 0, kz < zint(n)))
            c.nonneg_ids.add(kz.get_id())
            vars_ = [LoopVar(kz, n, label)]
            k = SInt(kz)
        return vars_, k

    def apply_for(self, frame, s, it):
        from .symex import BreakSig, ContinueSig
        from .models import SymEnumerate
        c = cur()
        if not hasattr(c, 'family'):
            c.family = []
        enum_start = None
        if isinstance(it, SymEnumerate):
            enum_start = it.start
            it = it.it
        if type(it).__name__ == 'SymSeq':
            it = SeqRange(it)
        if not isinstance(it, SRange):
            raise Unsupported('L3 loop over non-range iterable', s)
        n = it.length()
        for f_ in c.family:
            for v in f_.vars:
                if is_sym(n) and mentions(zint(n), [v.z]) and not (getattr(self, 'allow_branch', False) and getattr(f_.annot, 'allow_branch', False)):
                    raise Unsupported('inner L3 trip count depends on an outer loop index', s)
        # empty loop?  (fork: facts about the generic index need n > 0)
        nonempty = ops_cmp('>', n, 0)
        if nonempty is False or (nonempty is not True and not c.decide(zbool(nonempty))):
            frame.exec_block(s.orelse)
            return
        if isinstance(it.step, int) and it.step == 1:
            n = ops_binop('-', it.stop, it.start)        # n > 0 on this path, so Max(stop-start, 0) == stop-start
        label = f'{frame.f.qualname}#{frame.loop_ordinal}'
        vars_, k = self.generic_index(c, frame, n, label)
        c.counter += 1
        fam = Family(self, vars_, c.counter, dict(frame.env), frame.f.qualname)
        c.family.append(fam)
        item = it.item(k)
        if enum_start is not None:
            item = (ops_binop('+', enum_start, k), item)
        before = set(frame.env)
        frame.assign(s.target, item)
        try:
            try:
                frame.exec_block(s.body)
            except ContinueSig:
                pass
            except BreakSig:
                raise Unsupported('break inside an L3 loop', s)
            except PyRaise as e:
                # the generic iteration raises: some iteration raises -> the loop raises (first such iteration)
                raise
        finally:
            c.family.pop()
        # names assigned in the body are iteration-local: poison them
        for name in list(frame.env):
            if name not in before:
                frame.env[name] = Poison(name)
        targets = [s.target] if not hasattr(s.target, 'elts') else list(s.target.elts)
        for t in targets:
            for nm in _names(t):
                frame.env[nm] = Poison(nm)
        frame.exec_block(s.orelse)


def _names(t):
    import ast
    out = []
    for sub in ast.walk(t):
        if isinstance(sub, ast.Name):
            out.append(sub.id)
    return out


class Poison:
    """value of a loop-local name after an L3/L2 loop: any use is outside the supported subset"""
    def __init__(self, name):
        self.name = name

    def __repr__(self):
        return f'<poisoned loop local {self.name}>'


class EventLoop(IndependentWrites):
    """Loop whose iterations only EMIT events (queue.put, hash.update, file writes, stores logged as events): the body is
    executed once for a generic ordinal; branching on the ordinal is allowed (each whole-function path then stands for the
    iterations satisfying its branch conditions; together the paths cover every iteration).  Nothing is summarised after
    the loop, so no witness is needed; stores into objects that outlive the loop are refused (they have no witness)."""
    always = True
    allow_branch = True

    def __init__(self):
        super().__init__(witness=None, always=True)


def family_guard_decide(ctx, cz):
    """called by Ctx.decide: refuse loop-index dependent branching inside an L3 body"""
    fam = getattr(ctx, 'family', None)
    if not fam:
        return
    if mentions(cz, [v.z for f in fam for v in f.vars if not getattr(f.annot, 'allow_branch', False)]):
        raise Unsupported(f'branch on the loop index inside an independent-iterations loop ({fam[-1].fname}): {str(cz)[:120]}')


# ---------------------------------------------------------------------------------------------
# family stores

def unique_cover_obligation(label, levels, in_region, pos):
    """position in region(k)  =>  witness(position) == k   for every active loop index"""
    c = cur()
    ws = witness_for(levels, pos)
    goal = And(*[ops_cmp('==', w, SInt(v.z)) for w, v in zip(ws, level_vars(levels))])
    c.guards.append(in_region)
    try:
        c.require(goal, f'{label}.witness_is_the_writer', kind='loop', assume_after=False)
    finally:
        c.guards.pop()


def family_pairs(levels, ws):
    return [(v.z, zint(w)) for v, w in zip(level_vars(levels), ws)]


def family_in_range(levels, ws):
    conds = []
    for v, w in zip(level_vars(levels), ws):
        conds.append(And(ops_cmp('>=', w, 0), ops_cmp('<', w, v.n)))
    return And(*conds)


# ---------------------------------------------------------------------------------------------
# L2: inductive invariants (used for ghost counters with a closed form)

class Invariant:
    """inv(env, k) -> list of conditions over the function's variables at the head of iteration k (ordinal).
    havoc: names (locals) modified by the body; they are replaced by fresh values constrained only by inv.
    The body is executed once from an arbitrary state satisfying inv(k) with 0 <= k < n; inv(k+1) is
    required at its end and the path is cut.  A second path continues after the loop from inv(n)."""
    always = True

    def __init__(self, inv, havoc=(), fresh=None):
        self.inv = inv
        self.havoc = tuple(havoc)
        self.fresh = fresh or {}

    def generic_index(self, c, frame, n, label):
        """fresh generic ordinal(s) of one iteration: -> (loop variables, value of the ordinal)"""
        if self.decompose is not None:
            # flattened double loop: every ordinal in [0, n0*n1) is k0*n1 + k1 for exactly one (k0,k1) in the box
            # (mixed-radix representation, the one arithmetic fact taken on trust: TRUSTED lemma MIXED-RADIX)
            n0, n1 = self.decompose(frame.env)
            c.require(ops_cmp('==', n, ops_binop('*', n0, n1)), f'loop{frame.loop_ordinal}.trip_count_is_product', kind='loop')
            k0, k1 = c.fresh_int('L3k'), c.fresh_int('L3k')
            c.assume_raw(z3.And(k0 >= 0, k0 < zint(n0), k1 >= 0, k1 < zint(n1)))
            c.nonneg_ids.update([k0.get_id(), k1.get_id()])
            vars_ = [LoopVar(k0, n0, label + '.0'), LoopVar(k1, n1, label + '.1')]
            k = ops_binop('+', ops_binop('*', SInt(k0), n1), SInt(k1))
            c.ex.__dict__.setdefault('axioms', set()).add('LEMMA-MIXED-RADIX')
        else:
            kz = c.fresh_int('L3k')
            c.assume_raw(z3.And(kz >= 0, kz < zint(n)))
            c.nonneg_ids.add(kz.get_id())
            vars_ = [LoopVar(kz, n, label)]
            k = SInt(kz)
        return vars_, k

    def apply_for(self, frame, s, it):
        from .symex import BreakSig, ContinueSig
        from .smt import CutPath
        c = cur()
        seq = None
        if isinstance(it, SRange):
            n = it.length()
            item = it.item
        else:
            seq = frame.I.stdlib.concrete_iter(frame.I, it)
            if seq is None:
                raise Unsupported('L2 loop over unsupported iterable', s)
            n = len(seq)
            raise Unsupported('L2 over concrete sequences is not needed (unrolled)', s)
        label = f'loop{frame.loop_ordinal}'
        # initiation
        for i, cond in enumerate(self.inv(frame.env, 0, 'init')):
            c.require(cond, f'{label}.inv_init[{i}]', kind='loop')
        which = c.choose(2, 'loop: step / exit')
        # havoc loop-modified state
        for nm in self.havoc:
            mk = self.fresh.get(nm)
            frame.env[nm] = mk(c, nm) if mk else c.sym_int(nm)
        if which == 0:
            kz = c.fresh_int('L2k')
            c.assume_raw(z3.And(kz >= 0, kz < zint(n)))
            k = SInt(kz)
            c.assume(self.inv(frame.env, k, 'assume'))
            frame.assign(s.target, item(k))
            try:
                frame.exec_block(s.body)
            except ContinueSig:
                pass
            except BreakSig:
                raise Unsupported('break inside an L2 loop', s)
            for i, cond in enumerate(self.inv(frame.env, ops_binop('+', k, 1), 'step')):
                c.require(cond, f'{label}.inv_step[{i}]', kind='loop')
            raise CutPath()
        else:
            nn = V.Max(n, 0)
            c.assume(self.inv(frame.env, nn, 'exit'))
            frame.exec_block(s.orelse)
