"""Sidecar contracts on the real functions (DESIGN 2.6, 2.9).

A Contract names one function of /repo by 'seismic_zfp/<file>.py::<qualname>' and gives
  inputs(c)           symbolic arguments (dict name -> value, incl. 'self'), only used when verifying
  pre(c, a)           list of conditions   (assumed when verifying, *required* at call sites)
  raises(c, a)        {exception class: condition}:  raises cls  IFF  condition   (both directions)
  may_raise           classes that may be raised without a stated condition (environment faults)
  post(c, a, result)  uses c.ensure(cond, label): required when verifying, assumed at call sites
  fresh_result(c, a)  result value for modular application (default: built by `result(c, a)`)
  result(c, a)        optional exact functional postcondition: the result as a spec term of the args
Modular use (modular=True): callers see only pre/raises/post, never the body.
"""
import z3

from . import values as V
from .values import Unsupported, PyRaise, zbool, mk_bool, cur, And, Or, Not
from .smt import Explorer, CutPath

REGISTRY = {}


def fuc(key, props=(), modular=False):
    def deco(cls):
        con = cls()
        con.key = key if key.startswith('seismic_zfp/') else 'seismic_zfp/' + key
        con.props = tuple(props)
        con.modular = modular
        con.name = cls.__name__
        REGISTRY.setdefault(con.key, []).append(con)
        return cls
    return deco


class EnsureCtx:
    """Wraps the path context so that post() can be used to require (verify) or assume (call site)."""
    def __init__(self, ctx, mode, prefix=''):
        self.ctx = ctx
        self.mode = mode
        self.prefix = prefix

    def __getattr__(self, name):
        return getattr(self.ctx, name)

    def ensure(self, cond, label, kind='post', **kw):
        if self.mode == 'verify':
            return self.ctx.require(cond, self.prefix + label, kind=kind, **kw)
        self.ctx.assume(cond)

    def ensure_all(self, conds, label, kind='post'):
        for i, cnd in enumerate(conds):
            self.ensure(cnd, f'{label}[{i}]', kind=kind)


class Contract:
    key = None
    props = ()
    modular = False
    variant = ''             # distinguishes several contracts (cases) on the same function
    may_raise = ()
    max_paths = 4000

    # ---- to be overridden
    def inputs(self, c):
        return {}

    def pre(self, c, a):
        return []

    def raises(self, c, a):
        return {}

    def post(self, c, a, result):
        pass

    def post_raise(self, c, a, cls):
        """extra obligations on exceptional exits (e.g. ghost: nothing written)"""
        pass

    def result(self, c, a):
        return NotImplemented

    def may_raise_at(self, c, a):
        """exception classes the callee may raise for reasons outside the program (environment faults)"""
        return self.may_raise

    def on_env_raise(self, c, a, cls):
        pass

    def effects(self, c, a, result):
        """ghost effects of a call when the contract is used modularly (read/write log entries)"""
        pass

    def fresh_result(self, c, a):
        r = self.result(c, a)
        if r is NotImplemented:
            raise Unsupported(f'contract {self.key} has no result constructor for modular use')
        return r

    def call_args(self, a):
        """(positional args, kwargs, self_obj) for invoking the real function"""
        d = dict(a)
        s = d.pop('self', None)
        for k in list(d):
            if k.startswith('_'):
                d.pop(k)
        return [], d, s

    # ---- verification of the body against the contract
    def fuc_name(self):
        return self.key.split('/', 1)[1] + (f'[{self.variant}]' if self.variant else '')

    def verify(self, interp, prog, timeout_ms=None):
        finfo = prog.function(self.key)
        ex = Explorer(self.fuc_name(), timeout_ms=timeout_ms, max_paths=self.max_paths)
        ex.contract = self
        ex.prog = prog
        ex.interp = interp
        if finfo is None:
            ex.undecided.append(f'function {self.key} not found in the repository')
            return ex, None
        for fam, fn in getattr(self, 'known_regions', {}).items():
            ex.region_filters[fam] = fn
        first = {'done': False}

        def path(ctx):
            interp.current_fuc = self.key
            interp.call_depth = 0
            a = self.inputs(ctx)
            ctx.args = a
            ctx.assume(self.pre(ctx, a))
            if not first['done']:
                first['done'] = True
                if not ctx.feasible(z3.BoolVal(True)):
                    ex.vacuous = True
                    raise CutPath()
            ec = EnsureCtx(ctx, 'verify')
            # exceptional conditions are evaluated in the pre-state
            rz = {cls: cond for cls, cond in self.raises(ctx, a).items()}
            pos, kw, self_obj = self.call_args(a)
            try:
                result = interp.inline(finfo, pos, kw, self_obj)
            except PyRaise as e:
                ex.note_outcome(f'raise:{e.cls}')
                matched = False
                for cls, cond in rz.items():
                    if V.exc_isinstance(e.cls, cls):
                        matched = True
                        ob = ec.ensure(cond, f'{cls}.only_if', kind='raises')
                        _tag(ob, e)
                if not matched:
                    if any(V.exc_isinstance(e.cls, m) for m in self.may_raise_at(ctx, a)):
                        pass
                    else:
                        ob = ec.ensure(False, f'unexpected.{e.cls}', kind='raises')
                        _tag(ob, e)
                self.post_raise(ec, a, e.cls)
                return
            ex.note_outcome('return')
            for cls, cond in rz.items():
                ec.ensure(Not(cond), f'{cls}.if', kind='raises')
            try:
                self.post(ec, a, result)
            except (Unsupported, PyRaise):
                raise
            except (IndexError, KeyError, AttributeError, TypeError, ValueError) as e:
                # the postcondition could not even be evaluated on this path (e.g. it refers to a log entry that is not
                # there): the obligations emitted so far stand, the rest is undecided -- never a silent pass
                ex.undecided.append(f'postcondition not evaluable on path {"".join(str(int(x)) if isinstance(x, bool) else str(x) for x in ctx.trail)}: {type(e).__name__}: {e}')
        ex.run(path)
        return ex, finfo

    # ---- modular application at a call site
    def apply_at_call(self, interp, finfo, args, kwargs, self_obj):
        c = cur()
        env = interp.bind_args(finfo, args, kwargs, self_obj)
        a = dict(env)
        for i, cond in enumerate(self.pre(c, a)):
            c.require(cond, f'{finfo.qualname}.pre[{i}]', kind='call')
        for cls, cond in self.raises(c, a).items():
            if c.decide(zbool(cond), raise_split=True):
                raise PyRaise(cls)
        mr = self.may_raise_at(c, a)
        if mr:
            k = c.choose(1 + len(mr), 'callee may raise')
            if k > 0:
                self.on_env_raise(c, a, mr[k - 1])
                raise PyRaise(mr[k - 1])
        r = self.fresh_result(c, a)
        c.ghost.setdefault('calls', []).append((finfo.key, a, r))       # ghost: modular calls made (for caller-side contracts)
        if not getattr(self, 'exact_result', False):
            self.post(EnsureCtx(c, 'assume'), a, r)     # (an exact result() already says everything post would)
        self.effects(c, a, r)
        return r


def _tag(ob, e):
    if ob is not None and getattr(e, 'line', None) is not None:
        ob.line = f'{getattr(e, "func", "?")}:{e.line}'
