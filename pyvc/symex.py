"""Symbolic interpreter over the repository's Python AST (see DESIGN.md section 2).

One call of Interp.run_function executes ONE path; forks happen inside ctx.decide()/choose()
and are explored by re-execution (smt.Explorer).  Exceptions of the interpreted program travel
as values.PyRaise through the interpreter's own Python stack.
"""
import ast
import os
import z3

from . import values as V
from .values import (Unsupported, PyRaise, SInt, SFloat, SBool, SObj, SRange, SSlice, SExc,
                     is_sym, is_num, is_intlike, is_floatlike, ops_binop, ops_cmp, mk_bool, mk_int,
                     zint, zbool, zreal, cur, exc_isinstance)
from .frontend import FuncInfo, ClassInfo
from .smt import CutPath


class ReturnSig(Exception):
    def __init__(self, value):
        self.value = value


class BreakSig(Exception):
    pass


class ContinueSig(Exception):
    pass


class BoundMethod:
    def __init__(self, obj, finfo):
        self.obj = obj
        self.finfo = finfo

    def __repr__(self):
        return f'<bound {self.finfo.qualname}>'


class ExtRef:
    """Reference to an external (library / builtin) entity by dotted name."""
    def __init__(self, dotted):
        self.dotted = dotted

    def __repr__(self):
        return f'<ext {self.dotted}>'

    def __eq__(self, other):
        return isinstance(other, ExtRef) and other.dotted == self.dotted

    def __hash__(self):
        return hash(self.dotted)


class ModelMethod:
    """Method of a modelled value (list.append, bytes.hex, ndarray.astype ...)."""
    def __init__(self, recv, name):
        self.recv = recv
        self.name = name


class SuperProxy:
    def __init__(self, obj, after_cls):
        self.obj = obj
        self.after_cls = after_cls


BUILTIN_EXC = {'IndexError', 'KeyError', 'ValueError', 'TypeError', 'AssertionError', 'ZeroDivisionError',
               'RuntimeError', 'NotImplementedError', 'OSError', 'IOError', 'EOFError', 'FileNotFoundError', 'ImportError',
               'OverflowError', 'Exception', 'AttributeError', 'LookupError', 'ArithmeticError', 'StopIteration'}

DROPPED_CALLS = {'print', 'warnings.warn', 'progress_printer', 'warnings.filterwarnings'}


class Interp:
    def __init__(self, prog, contracts=None, stdlib=None):
        self.prog = prog
        self.contracts = contracts or {}      # FuncInfo.key -> Contract  (modular use at call sites)
        self.stdlib = stdlib
        self.call_depth = 0
        self.inline_only = set()              # keys never used modularly (verified inline)
        self.current_fuc = None
        self.loop_annots = {}                 # (func key, loop ordinal) -> schema object
        self.called = set()                   # repo functions reached (for evidence)
        for m in prog.modules.values():
            for c in m.classes.values():
                for eb in c.ext_bases:
                    base = eb.split('.')[-1]
                    if base in BUILTIN_EXC or base in V.EXC_PARENTS:
                        V.EXC_PARENTS.setdefault(c.name, base)

    # ------------------------------------------------------------------ functions
    def bind_args(self, finfo, args, kwargs, self_obj):
        a = finfo.node.args
        params = [p.arg for p in a.args]
        env = {}
        pos = list(args)
        if self_obj is not None and not finfo.is_static:
            pos = [self_obj] + pos
        if len(pos) > len(params) and a.vararg is None:
            raise PyRaise('TypeError', f'too many positional args for {finfo.qualname}')
        for name, val in zip(params, pos):
            env[name] = val
        if a.vararg is not None:
            env[a.vararg.arg] = tuple(pos[len(params):])
        ndef = len(a.defaults)
        for i, p in enumerate(params):
            if p in env:
                continue
            if p in kwargs:
                env[p] = kwargs[p]
                continue
            di = i - (len(params) - ndef)
            if di >= 0:
                env[p] = self.eval_default(finfo, a.defaults[di])
            else:
                raise PyRaise('TypeError', f'missing argument {p} for {finfo.qualname}')
        for k in kwargs:
            if k not in params:
                if a.kwarg is not None:
                    env.setdefault(a.kwarg.arg, {})[k] = kwargs[k]
                else:
                    raise PyRaise('TypeError', f'unexpected keyword {k} for {finfo.qualname}')
        for kw, d in zip(a.kwonlyargs, a.kw_defaults):
            if kw.arg in kwargs:
                env[kw.arg] = kwargs[kw.arg]
            elif d is not None:
                env[kw.arg] = self.eval_default(finfo, d)
        return env

    def eval_default(self, finfo, node):
        frame = Frame(self, finfo, {})
        return frame.eval(node)

    def call_repo(self, finfo, args, kwargs, self_obj=None, force_inline=False):
        """Call a repository function: by contract if one is registered for modular use, else inline."""
        self.called.add(finfo.key)
        ms = self.contracts.get(finfo.key)
        con = ms.pick(self.current_fuc) if hasattr(ms, 'pick') else ms      # scoped call-site views first, else the function's call-site contract
        if con is not None and con.modular and not force_inline and finfo.key != self.current_fuc:
            return con.apply_at_call(self, finfo, args, kwargs, self_obj)
        return self.inline(finfo, args, kwargs, self_obj)

    def inline(self, finfo, args, kwargs, self_obj=None):
        if self.call_depth > 40:
            raise Unsupported(f'call depth (recursion?) at {finfo.qualname}')
        env = self.bind_args(finfo, args, kwargs, self_obj)
        frame = Frame(self, finfo, env)
        self.call_depth += 1
        try:
            frame.exec_block(finfo.node.body)
        except ReturnSig as r:
            return r.value
        finally:
            self.call_depth -= 1
        return None

    def instantiate(self, cinfo, args, kwargs):
        # exception classes defined in the repo
        for c in cinfo.mro():
            for eb in c.ext_bases:
                if eb.split('.')[-1] in BUILTIN_EXC:
                    return SExc(cinfo.name)
        if 'int' in cinfo.all_ext_bases():       # FileOffset(int)
            obj = TaggedInt(args[0], cinfo.name)
            return obj
        if 'Enum' in cinfo.all_ext_bases():
            raise Unsupported(f'Enum call {cinfo.name}')
        con = self.contracts.get(f'seismic_zfp/{cinfo.module}.py::{cinfo.name}.__init__')
        obj = SObj(cinfo)
        init = cinfo.find_method('__init__')
        if init is not None:
            self.call_repo(init, args, kwargs, self_obj=obj)
        return obj

    def call_value(self, fn, args, kwargs, node=None):
        if isinstance(fn, FuncInfo):
            return self.call_repo(fn, args, kwargs)
        if isinstance(fn, BoundMethod):
            return self.call_repo(fn.finfo, args, kwargs, self_obj=fn.obj)
        if isinstance(fn, ClassInfo):
            return self.instantiate(fn, args, kwargs)
        if isinstance(fn, ExtRef):
            return self.stdlib.call_ext(self, fn.dotted, args, kwargs, node)
        if isinstance(fn, ModelMethod):
            return self.stdlib.call_method(self, fn.recv, fn.name, args, kwargs, node)
        if callable(fn):
            return fn(*args, **kwargs)
        raise Unsupported(f'call of {type(fn).__name__}', node)


class TaggedInt:
    """Instance of an int subclass defined in the repo (FileOffset): value + class tag."""
    def __init__(self, value, tag):
        self.value = value
        self.tag = tag

    def __repr__(self):
        return f'{self.tag}({self.value})'


def untag(v):
    if isinstance(v, TaggedInt):
        return v.value
    if type(v).__name__ == 'NPScalar':      # numpy scalars take part in arithmetic as their value
        return v.value
    return v


class Frame:
    def __init__(self, interp, finfo, env):
        self.I = interp
        self.f = finfo
        self.env = env
        self.module = interp.prog.modules[finfo.module]
        self.loop_ordinal = 0

    # ------------------------------------------------------------------ statements
    def exec_block(self, stmts):
        for s in stmts:
            self.exec_stmt(s)

    def exec_stmt(self, s):
        m = getattr(self, 'st_' + type(s).__name__, None)
        if m is None:
            raise Unsupported(f'statement {type(s).__name__}', s)
        try:
            return m(s)
        except PyRaise as e:
            if not hasattr(e, 'line'):
                e.line = getattr(s, 'lineno', None)
                e.func = self.f.qualname
            raise

    def st_Pass(self, s):
        pass

    def st_Import(self, s):
        pass

    def st_ImportFrom(self, s):
        pass

    def st_Global(self, s):
        raise Unsupported('global statement', s)

    def st_Expr(self, s):
        if isinstance(s.value, ast.Constant):
            return  # docstring
        if isinstance(s.value, ast.Call):
            name = self.call_name(s.value.func)
            if name in DROPPED_CALLS:
                cur().ex.note_dropped(f'{self.f.qualname}: {name}(...)')
                return
        self.eval(s.value)

    def call_name(self, fnode):
        try:
            return ast.unparse(fnode)
        except Exception:
            return None

    def st_Assign(self, s):
        val = self.eval(s.value)
        for t in s.targets:
            self.assign(t, val)

    def st_AnnAssign(self, s):
        if s.value is not None:
            self.assign(s.target, self.eval(s.value))

    def st_AugAssign(self, s):
        cur_v = self.eval(ast_load(s.target))
        rhs = self.eval(s.value)
        op = BINOPS.get(type(s.op))
        if op is None:
            raise Unsupported('augassign op', s)
        if isinstance(cur_v, str) and isinstance(rhs, str) and op == '+':
            val = cur_v + rhs
        else:
            val = self.binop(op, cur_v, rhs, s)
        self.assign(s.target, val)

    def st_Return(self, s):
        raise ReturnSig(self.eval(s.value) if s.value is not None else None)

    def st_Break(self, s):
        raise BreakSig()

    def st_Continue(self, s):
        raise ContinueSig()

    def st_Delete(self, s):
        for t in s.targets:
            if isinstance(t, ast.Subscript):
                cont = self.eval(t.value)
                key = self.eval(t.slice)
                self.I.stdlib.delitem(self.I, cont, key, s)
            elif isinstance(t, ast.Name):
                self.env.pop(t.id, None)
            else:
                raise Unsupported('del target', s)

    def st_If(self, s):
        tv = self.eval(s.test)
        ctx = cur()
        fam = getattr(ctx, 'family', None)
        tvu = untag(tv)
        if fam and isinstance(tvu, SBool) and any(getattr(f.annot, 'guarded_stores', False) for f in fam):
            from . import loops
            vs = [v.z for f in fam for v in f.vars]
            cz = z3.simplify(tvu.z)
            if not z3.is_true(cz) and not z3.is_false(cz) and loops.mentions(cz, vs):
                # IF-CONVERSION inside an independent-iterations loop: the branch depends on the generic index, so both arms are
                # executed under their condition on ONE path; stores become family stores restricted to the iterations that take
                # the arm; facts learned inside an arm and locals assigned there do not survive it
                for arm, cond in ((s.body, cz), (s.orelse, z3.Not(cz))):
                    if not arm:
                        continue
                    saved = dict(self.env)
                    mark = len(ctx.pc)
                    ids = set(ctx.__dict__.get('_pc_ids', ()))
                    ctx.solver.push()
                    ctx.__dict__.setdefault('fam_guards', []).append(cond)
                    ctx.__dict__.setdefault('arm_marks', []).append((cond, mark))
                    ctx.assume_raw(cond)
                    try:
                        self.exec_block(arm)
                    finally:
                        ctx.fam_guards.pop()
                        ctx.arm_marks.pop()
                        learned = list(ctx.pc[mark + 1:])
                        ctx.solver.pop()
                        del ctx.pc[mark:]
                        ctx._pc_ids = ids
                        # what was learned inside the arm holds under the arm's condition (definitions of division witnesses etc.)
                        for fact in learned:
                            ctx.assume_raw(z3.Implies(cond, fact))
                        self.env.clear(); self.env.update(saved)
                return
        c = self.truth(tv)
        self.exec_block(s.body if c else s.orelse)

    def st_Assert(self, s):
        c = self.truth(self.eval(s.test))
        if not c:
            if os.environ.get('PYVC_DEBUG'):
                print('ASSERT FAILS at', self.f.qualname, getattr(s, 'lineno', None), ast.unparse(s.test)[:100])
            e = PyRaise('AssertionError')
            e.line = getattr(s, 'lineno', None); e.func = self.f.qualname
            raise e

    def st_Raise(self, s):
        if s.exc is None:
            raise Unsupported('bare raise', s)
        if isinstance(s.exc, ast.Call):
            # do not evaluate message construction (dropped); keep the class
            fn = self.eval(s.exc.func)
            cls = exc_class_name(fn)
            if cls is None:
                raise Unsupported('raise of non-exception', s)
            raise PyRaise(cls)
        v = self.eval(s.exc)
        cls = exc_class_name(v)
        if cls is None:
            raise Unsupported('raise of non-exception', s)
        raise PyRaise(cls)

    def st_Try(self, s):
        try:
            try:
                self.exec_block(s.body)
            except PyRaise as e:
                for h in s.handlers:
                    if self.handler_matches(h, e.cls):
                        if h.name:
                            self.env[h.name] = SExc(e.cls)
                        self.exec_block(h.body)
                        break
                else:
                    raise
            else:
                self.exec_block(s.orelse)
        finally:
            if s.finalbody:
                self.exec_block(s.finalbody)

    def handler_matches(self, h, cls):
        if h.type is None:
            return True
        names = []
        if isinstance(h.type, ast.Tuple):
            names = [ast.unparse(e).split('.')[-1] for e in h.type.elts]
        else:
            names = [ast.unparse(h.type)]
        for n in names:
            n2 = 'struct.error' if n == 'struct.error' else n.split('.')[-1]
            if exc_isinstance(cls, n2):
                return True
        return False

    def st_With(self, s):
        mgrs = []
        for item in s.items:
            cm = self.eval(item.context_expr)
            entered = self.I.stdlib.enter(self.I, cm, item.context_expr)
            if item.optional_vars is not None:
                self.assign(item.optional_vars, entered)
            mgrs.append(cm)
        try:
            self.exec_block(s.body)
        except PyRaise as e:
            for cm in reversed(mgrs):
                self.I.stdlib.exit(self.I, cm, e)
            raise
        except ReturnSig:
            for cm in reversed(mgrs):
                self.I.stdlib.exit(self.I, cm, None)
            raise
        else:
            for cm in reversed(mgrs):
                self.I.stdlib.exit(self.I, cm, None)

    def st_While(self, s):
        self.loop_ordinal += 1
        annot = self.I.loop_annots.get((self.f.key, self.loop_ordinal))
        if annot is not None:
            return annot.apply_while(self, s)
        n = 0
        while True:
            c = self.truth(self.eval(s.test))
            if not c:
                break
            n += 1
            if n > 64:
                raise Unsupported('while loop without annotation exceeds 64 unrollings', s)
            try:
                self.exec_block(s.body)
            except BreakSig:
                break
            except ContinueSig:
                continue

    def st_For(self, s):
        self.loop_ordinal += 1
        ordinal = self.loop_ordinal
        it = self.eval(s.iter)
        annot = self.I.loop_annots.get((self.f.key, ordinal))
        seq = self.I.stdlib.concrete_iter(self.I, it)
        if seq is None and annot is None and type(untag(it)).__name__ == 'SymSeq':
            # loop over a symbolic-length list: the body is executed for a generic element (no stores into outer
            # objects allowed -- no witness; a raise in the body = some element raises = the loop raises)
            from . import loops as _L
            sq = untag(it)
            return _L.IndependentWrites(witness=None).apply_for(self, s, _L.SeqRange(sq))
        if seq is None:
            if annot is None:
                raise Unsupported(f'loop #{ordinal} in {self.f.qualname} over symbolic-length iterable needs an annotation', s)
            return annot.apply_for(self, s, it)
        if annot is not None and getattr(annot, 'always', False) and isinstance(untag(it), (SRange, range)):
            # (annotations are keyed by loop ordinal; on a path where that ordinal is a plain loop over a concrete dict / list the
            #  schema does not apply and the loop is simply unrolled)
            return annot.apply_for(self, s, it)
        if len(seq) > 5000:
            raise Unsupported('concrete loop too long to unroll', s)
        for item in seq:
            self.assign(s.target, item)
            try:
                self.exec_block(s.body)
            except BreakSig:
                break
            except ContinueSig:
                continue
        else:
            self.exec_block(s.orelse)

    # ------------------------------------------------------------------ assignment
    def assign(self, target, val):
        if isinstance(target, ast.Name):
            # let-naming: a compound symbolic int bound to a local gets a definitional constant, so that later
            # products stay products of atoms (the mixed-radix reasoning of smt/values works on monomials)
            # (never inside an L3 body: definitions there would depend on the generic loop index, which is substituted)
            if isinstance(val, SInt) and not cur().family and (z3.is_add(val.z) or (z3.is_app(val.z) and val.z.decl().kind() == z3.Z3_OP_ITE)):
                c = cur()
                nz = c.fresh_int(target.id)
                c.assume_raw(nz == val.z)
                c.defs[nz.get_id()] = (nz, val.z)
                if c.known_fast(val.z >= 1):
                    c.pos_ids.add(nz.get_id())
                    c.nonneg_ids.add(nz.get_id())
                elif c.known_fast(val.z >= 0):
                    c.nonneg_ids.add(nz.get_id())
                val = SInt(nz, val.width)
            self.env[target.id] = val
        elif isinstance(target, (ast.Tuple, ast.List)):
            items = self.I.stdlib.concrete_iter(self.I, val)
            if items is None:
                raise Unsupported('unpacking symbolic-length value', target)
            if len(items) != len(target.elts):
                raise PyRaise('ValueError', 'unpack length')
            for t, v in zip(target.elts, items):
                self.assign(t, v)
        elif isinstance(target, ast.Attribute):
            obj = self.eval(target.value)
            self.I.stdlib.setattr(self.I, obj, target.attr, val, target)
        elif isinstance(target, ast.Subscript):
            cont = self.eval(target.value)
            key = self.eval(target.slice)
            self.I.stdlib.setitem(self.I, cont, key, val, target)
        else:
            raise Unsupported('assignment target', target)

    # ------------------------------------------------------------------ expressions
    def truth(self, v):
        v = untag(v)
        if isinstance(v, bool):
            return v
        if v is None:
            return False
        if isinstance(v, (SBool, SInt, SFloat)):
            return bool(v)          # forks via decide
        if isinstance(v, (int, float, str, tuple, list, dict, bytes)):
            return bool(v)
        return self.I.stdlib.truth(self.I, v)

    def eval(self, n):
        m = getattr(self, 'ex_' + type(n).__name__, None)
        if m is None:
            raise Unsupported(f'expression {type(n).__name__}', n)
        return m(n)

    def ex_Constant(self, n):
        return n.value

    def ex_JoinedStr(self, n):
        return '<fstring>'

    def ex_Name(self, n):
        if n.id in self.env:
            return self.env[n.id]
        return self.global_name(n.id, n)

    def global_name(self, name, node=None):
        r = self.I.prog.resolve_name(self.module, name)
        if r is not None:
            if isinstance(r, tuple):
                if r[0] == 'const':
                    return r[1]
                if r[0] == 'ext':
                    return ExtRef(r[1])
                if r[0] == 'module':
                    return ('repo_module', r[1])
            return r
        if name in ('True', 'False', 'None'):
            return {'True': True, 'False': False, 'None': None}[name]
        return ExtRef(name)      # builtin

    def ex_Attribute(self, n):
        obj = self.eval(n.value)
        return self.I.stdlib.getattr(self.I, obj, n.attr, n, self)

    def ex_Tuple(self, n):
        out = []
        for e in n.elts:
            if isinstance(e, ast.Starred):
                items = self.I.stdlib.concrete_iter(self.I, self.eval(e.value))
                if items is None:
                    raise Unsupported('starred symbolic', n)
                out += items
            else:
                out.append(self.eval(e))
        return tuple(out)

    def ex_List(self, n):
        return list(self.ex_Tuple(n))

    def ex_Dict(self, n):
        d = {}
        for k, v in zip(n.keys, n.values):
            if k is None:
                raise Unsupported('dict unpacking', n)
            d[self.I.stdlib.hashable(self.eval(k))] = self.eval(v)
        return d

    def ex_Set(self, n):
        return set(self.I.stdlib.hashable(self.eval(e)) for e in n.elts)

    def ex_Slice(self, n):
        return SSlice(self.eval(n.lower) if n.lower else None,
                      self.eval(n.upper) if n.upper else None,
                      self.eval(n.step) if n.step else None)

    def ex_Subscript(self, n):
        cont = self.eval(n.value)
        key = self.eval(n.slice)
        return self.I.stdlib.getitem(self.I, cont, key, n)

    def ex_UnaryOp(self, n):
        v = untag(self.eval(n.operand))
        if isinstance(n.op, ast.Not):
            if isinstance(v, (SBool, SInt, SFloat)):
                return mk_bool(z3.Not(zbool(v)))
            return not self.truth(v)
        if isinstance(n.op, ast.USub):
            if is_sym(v):
                return -v
            if isinstance(v, (int, float)):
                return -v
            return self.I.stdlib.unary(self.I, '-', v, n)
        if isinstance(n.op, ast.UAdd):
            return v
        if isinstance(n.op, ast.Invert):
            from .npmodel import SArray as _SA
            if isinstance(v, _SA) and v.dtype == 'bool':
                return _SA(v.shape, lambda idx, v=v: mk_bool(z3.Not(zbool(v.fn(idx)))), 'bool')
            if isinstance(v, bool):
                return -2 if v else -1
            if isinstance(v, int):
                return ~v
        raise Unsupported('unary op', n)

    def binop(self, op, a, b, node=None):
        a, b = untag(a), untag(b)
        if is_num(a) and is_num(b):
            return ops_binop(op, a, b)
        return self.I.stdlib.binop(self.I, op, a, b, node)

    def ex_BinOp(self, n):
        op = BINOPS.get(type(n.op))
        if op is None:
            raise Unsupported(f'binop {type(n.op).__name__}', n)
        a = self.eval(n.left)
        b = self.eval(n.right)
        return self.binop(op, a, b, n)

    def ex_BoolOp(self, n):
        # Python short-circuit semantics; value-returning (a or b) supported for concrete truthiness
        is_and = isinstance(n.op, ast.And)
        last = None
        for i, e in enumerate(n.values):
            v = self.eval(e)
            last = v
            if i == len(n.values) - 1:
                return v
            t = self.truth(v)
            if is_and and not t:
                return v if not isinstance(v, SVal_t) else False
            if (not is_and) and t:
                return v if not isinstance(v, SVal_t) else True
        return last

    def compare(self, op, a, b, node=None):
        a, b = untag(a), untag(b)
        if op in ('is', 'is not'):
            r = self.I.stdlib.identical(a, b)
            return r if op == 'is' else (not r)
        if op in ('in', 'not in'):
            r = self.I.stdlib.contains(self.I, b, a, node)
            if op == 'in':
                return r
            return mk_bool(z3.Not(zbool(r))) if is_sym(r) else (not r)
        if (is_num(a) or a is None) and (is_num(b) or b is None):
            return ops_cmp(op, a, b)
        return self.I.stdlib.compare(self.I, op, a, b, node)

    def ex_Compare(self, n):
        left = self.eval(n.left)
        result = True
        for opn, rn in zip(n.ops, n.comparators):
            right = self.eval(rn)
            op = CMPOPS[type(opn)]
            r = self.compare(op, left, right, n)
            if len(n.ops) == 1:
                return r
            # chained: short-circuit
            if not self.truth(r):
                return False
            left = right
        return result

    def ex_IfExp(self, n):
        c = self.truth(self.eval(n.test))
        return self.eval(n.body if c else n.orelse)

    def ex_Lambda(self, n):
        frame = self

        def fn(*args):
            env = dict(frame.env)
            for p, a in zip(n.args.args, args):
                env[p.arg] = a
            sub = Frame(frame.I, frame.f, env)
            return sub.eval(n.body)
        return fn

    def comprehension(self, n, elt_fn):
        out = []

        def rec(gi, env):
            if gi == len(n.generators):
                sub = Frame(self.I, self.f, env)
                out.append(elt_fn(sub))
                return
            g = n.generators[gi]
            sub = Frame(self.I, self.f, env)
            it = sub.eval(g.iter)
            seq = self.I.stdlib.concrete_iter(self.I, it)
            if seq is None:
                raise Unsupported('comprehension over symbolic-length iterable', n)
            for item in seq:
                env2 = dict(env)
                sub2 = Frame(self.I, self.f, env2)
                sub2.assign(g.target, item)
                ok = True
                for cond in g.ifs:
                    if not sub2.truth(sub2.eval(cond)):
                        ok = False
                        break
                if ok:
                    rec(gi + 1, env2)
        rec(0, dict(self.env))
        return out

    def ex_ListComp(self, n):
        sym = self.I.stdlib.symbolic_comprehension(self.I, self, n)
        if sym is not None:
            return sym
        return self.comprehension(n, lambda fr: fr.eval(n.elt))

    def ex_GeneratorExp(self, n):
        return self.ex_ListComp(n)

    def ex_SetComp(self, n):
        return set(self.I.stdlib.hashable(x) for x in self.comprehension(n, lambda fr: fr.eval(n.elt)))

    def ex_DictComp(self, n):
        items = self.comprehension(n, lambda fr: (fr.eval(n.key), fr.eval(n.value)))
        return {self.I.stdlib.hashable(k): v for k, v in items}

    def ex_Call(self, n):
        name = self.call_name(n.func)
        if name in DROPPED_CALLS:
            cur().ex.note_dropped(f'{self.f.qualname}: {name}(...)')
            return None
        # super()
        if isinstance(n.func, ast.Attribute) and isinstance(n.func.value, ast.Call) \
                and isinstance(n.func.value.func, ast.Name) and n.func.value.func.id == 'super':
            return self.call_super(n)
        fn = self.eval(n.func)
        args = []
        for a in n.args:
            if isinstance(a, ast.Starred):
                items = self.I.stdlib.concrete_iter(self.I, self.eval(a.value))
                if items is None:
                    raise Unsupported('starred symbolic arg', n)
                args += items
            else:
                args.append(self.eval(a))
        kwargs = {}
        for k in n.keywords:
            if k.arg is None:
                raise Unsupported('**kwargs call', n)
            kwargs[k.arg] = self.eval(k.value)
        return self.I.call_value(fn, args, kwargs, n)

    def call_super(self, n):
        sup = n.func.value
        self_obj = self.env.get('self')
        if sup.args:
            after = self.eval(sup.args[0])
            self_obj = self.eval(sup.args[1])
        else:
            after = self.f.cls
        if not isinstance(after, ClassInfo) or not isinstance(self_obj, SObj):
            raise Unsupported('super() form', n)
        mro = self_obj.cls.mro()
        idx = mro.index(after) if after in mro else -1
        target = None
        for c in mro[idx + 1:]:
            if n.func.attr in c.methods:
                target = c.methods[n.func.attr]
                break
        args = [self.eval(a) for a in n.args]
        kwargs = {k.arg: self.eval(k.value) for k in n.keywords}
        if target is None:
            if n.func.attr == '__init__':
                return None     # object.__init__ / Mapping
            raise Unsupported(f'super().{n.func.attr} not found', n)
        return self.I.call_repo(target, args, kwargs, self_obj=self_obj)


SVal_t = V.SVal

BINOPS = {ast.Add: '+', ast.Sub: '-', ast.Mult: '*', ast.FloorDiv: '//', ast.Mod: '%', ast.Div: '/', ast.Pow: '**'}
CMPOPS = {ast.Lt: '<', ast.LtE: '<=', ast.Gt: '>', ast.GtE: '>=', ast.Eq: '==', ast.NotEq: '!=',
          ast.Is: 'is', ast.IsNot: 'is not', ast.In: 'in', ast.NotIn: 'not in'}


def ast_load(target):
    import copy
    t = copy.deepcopy(target)
    for sub in ast.walk(t):
        if hasattr(sub, 'ctx'):
            sub.ctx = ast.Load()
    return t


def exc_class_name(v):
    if isinstance(v, SExc):
        return v.cls
    if isinstance(v, ExtRef):
        base = v.dotted
        if base in BUILTIN_EXC:
            return base
        if base in ('struct.error',):
            return base
    if isinstance(v, ClassInfo):
        for c in v.mro():
            for eb in c.ext_bases:
                if eb.split('.')[-1] in BUILTIN_EXC:
                    return v.name
    return None
