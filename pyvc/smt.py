"""Path context, explorer (decision replay), obligation discharge (z3 first, cvc5 on unknown)."""
import os
import subprocess
import tempfile
import time
import z3

from . import values as V
from .values import Unsupported

QUICK_TIMEOUT_MS = int(os.environ.get('PYVC_TIMEOUT_MS', '20000'))
FEAS_TIMEOUT_MS = 3000
KNOWN_RLIMIT = int(os.environ.get('PYVC_KNOWN_RLIMIT', '12000000'))
FAST_RLIMIT = int(os.environ.get('PYVC_FAST_RLIMIT', '1500000'))
Z3_FIRST_MS = int(os.environ.get('PYVC_Z3_FIRST_MS', '1500'))
CVC5 = '/usr/bin/cvc5'


class Infeasible(Exception):
    pass


class CutPath(Exception):
    """Path ends here on purpose (e.g. after the inductive step of a loop invariant)."""
    pass


class Obligation:
    __slots__ = ('name', 'kind', 'status', 'backend', 'time_s', 'model', 'smt2', 'path', 'reason', 'line')

    def __init__(self, name, kind):
        self.name = name
        self.kind = kind
        self.status = 'undecided'
        self.backend = None
        self.time_s = 0.0
        self.model = None
        self.smt2 = None
        self.path = None
        self.reason = None
        self.line = None

    def to_json(self):
        d = {'name': self.name, 'kind': self.kind, 'status': self.status, 'backend': self.backend,
             'time_s': round(self.time_s, 4)}
        if self.model is not None:
            d['model'] = self.model
        if self.reason:
            d['reason'] = self.reason
        if self.path is not None:
            d['path'] = self.path
        if self.smt2 is not None:
            d['smt2'] = self.smt2
        return d


def run_z3_fresh(smt2_text, timeout_ms):
    """decide an SMT-LIB text with the z3 command line (z3-new = z3-solver 5.1 CLI): a fresh process, default tactics"""
    import subprocess, tempfile
    exe = '/opt/veriftools/pyvenv/bin/z3'
    for cand in ('z3-new', exe, '/usr/bin/z3'):
        from shutil import which
        if which(cand) or os.path.exists(cand):
            exe = which(cand) or cand
            break
    try:
        with tempfile.NamedTemporaryFile('w', suffix='.smt2', delete=False) as f:
            f.write(smt2_text)
            fn = f.name
        try:
            p = subprocess.run([exe, f'-T:{max(1, int(timeout_ms / 1000))}', fn], capture_output=True, text=True, timeout=timeout_ms / 1000 + 5)
            out = p.stdout.strip().splitlines()
            return out[0].strip() if out else 'unknown'
        finally:
            os.unlink(fn)
    except Exception:
        return 'unknown'


def run_cvc5(smt2_text, timeout_s):
    """Second back end.  Returns 'unsat' | 'sat' | 'unknown'."""
    try:
        with tempfile.NamedTemporaryFile('w', suffix='.smt2', delete=False, dir=os.environ.get('TMPDIR', '/tmp')) as f:
            f.write('(set-logic ALL)\n' + smt2_text)
            fn = f.name
        try:
            out = subprocess.run([CVC5, '--lang', 'smt2', f'--tlimit={int(timeout_s*1000)}', '--nl-ext-tplanes', fn],
                                 capture_output=True, text=True, timeout=timeout_s + 5)
            first = (out.stdout.strip().splitlines() or ['unknown'])[0].strip()
            return first if first in ('sat', 'unsat') else 'unknown'
        finally:
            os.unlink(fn)
    except Exception:
        return 'unknown'


class Explorer:
    """Enumerates all paths of one function under contract by decision replay."""

    def __init__(self, fuc_name, timeout_ms=None, keep_smt2=2, max_paths=4000):
        self.fuc = fuc_name
        self.worklist = [[]]
        self.obligations = []          # Obligation
        self.seen = {}                 # dedupe key -> Obligation
        self.paths = 0
        self.outcomes = {}             # outcome kind -> count (cover information)
        self.undecided = []            # reasons (Unsupported)
        self.timeout_ms = timeout_ms or QUICK_TIMEOUT_MS
        self.keep_smt2 = keep_smt2
        self.max_paths = max_paths
        self.solver_s = 0.0
        self.dropped = []              # statements dropped by the extraction (print etc.)
        self.named_inputs = {}
        self.region_filters = {}       # obligation-family -> callable(ctx) -> z3 Bool region (known findings)
        self.known_hits = {}

    def push(self, prefix):
        self.worklist.append(prefix)

    def prog_class(self, name):
        return self.prog.klass(name)

    def note_outcome(self, kind):
        self.outcomes[kind] = self.outcomes.get(kind, 0) + 1

    def note_dropped(self, what):
        if what not in self.dropped:
            self.dropped.append(what)

    def run(self, path_fn):
        """path_fn(ctx) executes one path; forks are scheduled through ctx.decide/choose."""
        while self.worklist:
            if self.paths >= self.max_paths:
                self.undecided.append(f'path budget {self.max_paths} exhausted')
                break
            prefix = self.worklist.pop()
            ctx = Ctx(self, prefix)
            V.set_cur(ctx)
            self.paths += 1
            try:
                path_fn(ctx)
            except (Infeasible, CutPath):
                pass
            except Unsupported as u:
                self.undecided.append(str(u))
            except RecursionError:
                self.undecided.append('recursion limit in engine')
            finally:
                V.set_cur(None)


class Ctx:
    def __init__(self, explorer, prefix):
        self.ex = explorer
        self.prefix = list(prefix)
        self.pos = 0
        self.trail = []
        self.pc = []
        self.counter = 0
        self.divcache = {}
        self.ghost = {}
        self.named = {}                # name -> z3 term (inputs shown in counterexamples)
        self.guards = []               # extra hypothesis stack for obligations in lazy evaluations
        self.solver = z3.Solver()
        # internal queries (branch feasibility, in-range checks, bound leaves) use z3's deterministic resource limit, not
        # wall-clock time: their outcome steers the symbolic execution and must not depend on machine load
        self.solver.set('timeout', 60000)
        self.solver.set('rlimit', KNOWN_RLIMIT)
        self.notes = []
        self.family = []               # active L3 loop levels (loops.Family)
        self.pos_ids = set()           # z3 ast ids of terms known >= 1 / >= 0 (syntactic sign inference)
        self.nonneg_ids = set()
        self.defs = {}                 # let-named locals: z3 id -> (constant, definition)

    # ---- fresh symbols (deterministic names => replay-stable)
    def _name(self, base):
        self.counter += 1
        return f'{base}!{self.counter}'

    def fresh_int(self, base='i'):
        return z3.Int(self._name(base))

    def fresh_real(self, base='r'):
        return z3.Real(self._name(base))

    def fresh_bool(self, base='b'):
        return z3.Bool(self._name(base))

    def sym_int(self, base='i', lo=None, hi=None, name=None):
        z = self.fresh_int(base)
        if lo is not None:
            self.assume_raw(z >= V.zint(lo))
            if isinstance(lo, int) and lo >= 0:
                self.nonneg_ids.add(z.get_id())
                if lo >= 1:
                    self.pos_ids.add(z.get_id())
        if hi is not None:
            self.assume_raw(z <= V.zint(hi))
        if name:
            self.named[name] = z
        return V.SInt(z)

    def sym_bool(self, base='b', name=None):
        z = self.fresh_bool(base)
        if name:
            self.named[name] = z
        return V.SBool(z)

    def sym_float(self, base='r', name=None):
        z = self.fresh_real(base)
        if name:
            self.named[name] = z
        return V.SFloat(z)

    # ---- path condition
    def assume_raw(self, z):
        z = z3.simplify(z)
        if z3.is_true(z):
            return
        if self.guards:
            # facts derived while evaluating under guards hold under those guards only
            z = z3.Implies(z3.And(*[V.zbool(g) for g in self.guards]), z)
        seen = self.__dict__.setdefault('_pc_ids', set())
        if z.get_id() in seen:          # the same fact again (e.g. the range of the same header word): keep the path condition small
            return
        seen.add(z.get_id())
        self.pc.append(z)
        self.solver.add(z)

    def assume(self, *conds):
        for c in conds:
            if isinstance(c, (list, tuple)):
                self.assume(*c)
            else:
                self.assume_raw(V.zbool(c))

    def _check(self, extra):
        self.solver.push()
        try:
            for g in self.guards:
                self.solver.add(V.zbool(g))
            self.solver.add(extra)
            t0 = time.time()
            r = self.solver.check()
            self.ex.solver_s += time.time() - t0
            return r
        finally:
            self.solver.pop()

    def feasible(self, cond):
        r = self._check(cond)
        return r != z3.unsat      # unknown => explore (sound: obligations carry pc as hypothesis)

    def known(self, cond):
        """True iff pc => cond is proved (quick check; unknown -> False)."""
        cz = z3.simplify(V.zbool(cond))
        if z3.is_true(cz):
            return True
        if z3.is_false(cz):
            return False
        return self._check(z3.Not(cz)) == z3.unsat

    def named_local(self, prefix):
        """let-named local `prefix` (latest definition), or None"""
        best = None
        for (const, d) in self.defs.values():
            nm = const.decl().name()
            if nm.rsplit('!', 1)[0] == prefix:
                if best is None or int(nm.rsplit('!', 1)[1]) > int(best.decl().name().rsplit('!', 1)[1]):
                    best = const
        return V.SInt(best) if best is not None else None

    def known_fast(self, cz, ms=400):
        """pc => cz proved within a very small budget (used by the syntactic bound prover)"""
        cz = z3.simplify(V.zbool(cz))
        if z3.is_true(cz):
            return True
        if z3.is_false(cz):
            return False
        self.solver.set('rlimit', FAST_RLIMIT)
        try:
            return self._check(z3.Not(cz)) == z3.unsat
        finally:
            self.solver.set('rlimit', KNOWN_RLIMIT)

    # ---- bound lemmas: help the solver with the mixed-radix pattern before it sees an obligation
    def _atoms_of(self, cz, out, depth=0):
        if z3.is_and(cz):
            for ch in cz.children():
                self._atoms_of(ch, out, depth + 1)
        elif z3.is_not(cz) and z3.is_app(cz.arg(0)) and cz.arg(0).decl().kind() in (z3.Z3_OP_LE, z3.Z3_OP_GE, z3.Z3_OP_LT, z3.Z3_OP_GT):
            a = cz.arg(0)
            k = a.decl().kind()
            L, R = a.arg(0), a.arg(1)
            neg = {z3.Z3_OP_LE: L > R, z3.Z3_OP_GE: L < R, z3.Z3_OP_LT: L >= R, z3.Z3_OP_GT: L <= R}[k]
            out.append(neg)
        elif z3.is_app(cz) and cz.decl().kind() in (z3.Z3_OP_LE, z3.Z3_OP_GE, z3.Z3_OP_LT, z3.Z3_OP_GT):
            out.append(cz)
        elif z3.is_app(cz) and cz.decl().kind() == z3.Z3_OP_IMPLIES:
            self._atoms_of(cz.arg(1), out, depth + 1)
        elif z3.is_or(cz) and depth < 2:
            for ch in cz.children():
                self._atoms_of(ch, out, depth + 1)

    def bound_lemmas(self, cz):
        """for every comparison atom  P <= c*m  (m a product of symbols) of the goal, try the syntactic mixed-radix
        bound prover; proved bounds are added to the path condition (they follow from it)"""
        atoms = []
        try:
            self._atoms_of(cz, atoms)
        except Exception:
            return
        for a in atoms[:12]:
            k = a.decl().kind()
            L, R = a.arg(0), a.arg(1)
            if not (L.sort() == z3.IntSort()):
                continue
            if k in (z3.Z3_OP_GE, z3.Z3_OP_GT):
                L, R = R, L
            strict = k in (z3.Z3_OP_LT, z3.Z3_OP_GT)
            # L <= R  (or <):  move everything to  pos <= neg
            try:
                mons = V._monomials(L - R)
            except Exception:
                continue
            negs = [(cf, at) for cf, at in mons if cf < 0]
            poss = [(cf, at) for cf, at in mons if cf > 0]
            if len(negs) != 1 or not negs[0][1]:
                continue
            b = V._mono_term(-negs[0][0], negs[0][1])
            rest = z3.IntVal(0 if strict else -1)
            for cf, at in poss:
                rest = rest + V._mono_term(cf, at)
            rest = z3.simplify(rest)
            if not all(V._pos_term(self, t) or self.known_fast(t >= 1) for _, t in negs[0][1]):
                continue
            try:
                V.prove_lt(self, rest, b)
            except Unsupported:
                pass

    def prove(self, cond):
        """pc => cond, using bound lemmas first (for simplifying conditionals while building terms)"""
        cz = z3.simplify(V.zbool(cond))
        if z3.is_true(cz):
            return True
        if z3.is_false(cz):
            return False
        if self.known_fast(cz):
            return True
        self.bound_lemmas(cz)
        return self.known(cz)

    def decide(self, cond, raise_split=False):
        """raise_split=True: the True branch raises out of the enclosing L3 loop.  Then a loop-index dependent
        condition may be split soundly: True = SOME iteration raises (the generic index is that iteration and the
        function raises), False = NO iteration raises (so the negation holds for the generic index)."""
        cz = z3.simplify(V.zbool(cond))
        if z3.is_true(cz):
            return True
        if z3.is_false(cz):
            return False
        # a condition already decided on this path stays decided (the path condition only grows): no solver call, no fork
        memo = self.__dict__.setdefault('_dec_memo', {})
        inner, flip = (cz.arg(0), True) if z3.is_not(cz) else (cz, False)
        hit = memo.get(inner.get_id())
        if hit is not None and not getattr(self, 'family', None):
            return (not hit[1]) if flip else hit[1]
        if getattr(self, 'family', None):
            from .loops import family_guard_decide
            # a branch whose outcome is already determined by the path condition is not a fork
            if self._check(z3.Not(cz)) == z3.unsat:
                return True
            if self._check(cz) == z3.unsat:
                return False
            if self.prove(cz):
                return True
            if self.prove(z3.Not(cz)):
                return False
            if not raise_split:
                family_guard_decide(self, cz)
        if self.pos < len(self.prefix):
            choice = self.prefix[self.pos]
        else:
            t = self.feasible(cz)
            f = self.feasible(z3.Not(cz))
            if t and f:
                self.ex.push(self.trail + [False])
                choice = True
            elif t:
                choice = True
            elif f:
                choice = False
            else:
                raise Infeasible()
        self.pos += 1
        self.trail.append(choice)
        self.assume_raw(cz if choice else z3.Not(cz))
        if not getattr(self, 'family', None):
            memo[inner.get_id()] = (inner, (not choice) if flip else choice)
        return choice

    def choose(self, n, label=''):
        """Non-deterministic n-way choice (callee outcome, environment behaviour)."""
        if n <= 1:
            return 0
        if self.pos < len(self.prefix):
            choice = self.prefix[self.pos]
        else:
            for k in range(n - 1, 0, -1):
                self.ex.push(self.trail + [k])
            choice = 0
        self.pos += 1
        self.trail.append(choice)
        return choice

    # ---- obligations
    def require(self, cond, label, kind='post', assume_after=True, model_terms=None):
        """Record the obligation  pc /\\ guards => cond  and try to discharge it now."""
        cz = z3.simplify(V.zbool(cond))
        name = f'{self.ex.fuc}/{kind}.{label}'
        if not z3.is_true(cz) and not z3.is_false(cz):
            self.bound_lemmas(cz)
        hyp = list(self.pc) + [V.zbool(g) for g in self.guards]
        # known-finding regions: prove the obligation on the complement of the region
        region = None
        rf = self.ex.region_filters.get(f'{kind}.{label}')
        if rf is not None:
            region = z3.simplify(V.zbool(rf(self)))
        ob = self._solve(name, kind, hyp, cz, region, model_terms)
        if assume_after and ob.status == 'discharged':      # a failed obligation is not assumed (it would make every later one vacuous)
            if self.guards:
                self.assume_raw(z3.Implies(z3.And(*[V.zbool(g) for g in self.guards]), cz))
            else:
                self.assume_raw(cz)
        return ob

    def _solve(self, name, kind, hyp, goal, region, model_terms):
        ex = self.ex
        s = z3.Solver()
        s.set('timeout', ex.timeout_ms)
        for h in hyp:
            s.add(h)
        if region is not None:
            s.add(z3.Not(region))
        s.add(z3.Not(goal))
        key = (name, s.sexpr())
        if key in ex.seen:
            return ex.seen[key]
        ob = Obligation(name, kind)
        ob.path = ''.join(('T' if d is True else 'F' if d is False else str(d)) for d in self.trail)
        ex.seen[key] = ob
        ex.obligations.append(ob)
        if z3.is_true(goal) or self._identity(goal):
            ob.status = 'discharged'
            ob.backend = 'simplifier' if z3.is_true(goal) else 'normaliser'
            return ob
        t0 = time.time()
        # back-end schedule: z3 with a short budget (almost everything is decided in milliseconds), then cvc5
        # (much better on the few nonlinear mixed-radix identities), then z3 again with the full budget
        s.set('timeout', min(Z3_FIRST_MS, ex.timeout_ms))
        r = s.check()
        ob.time_s = time.time() - t0
        ob.backend = 'z3'
        if os.environ.get('PYVC_DUMP') and ob.time_s > 1:
            os.makedirs(os.environ['PYVC_DUMP'], exist_ok=True)
            with open(os.path.join(os.environ['PYVC_DUMP'], name.split('/')[-1][-60:] + f'_{len(os.listdir(os.environ["PYVC_DUMP"]))}.smt2'), 'w') as fdump:
                fdump.write(s.to_smt2())
        if r == z3.unknown:
            txt = s.to_smt2()
            # same text, fresh z3 process (default tactics; independent of the history of this process' context)
            if run_z3_fresh(txt, min(ex.timeout_ms, 3000)) == 'unsat':
                ob.time_s = time.time() - t0
                ob.backend = 'z3-fresh'
                ob.status = 'discharged'
                ex.solver_s += ob.time_s
                return ob
            r2 = run_cvc5(txt, ex.timeout_ms / 1000.0)
            ob.time_s = time.time() - t0
            if r2 == 'unsat':
                r = z3.unsat
                ob.backend = 'cvc5'
            elif r2 == 'sat':
                # cvc5 gives no model through this interface: ask z3 for one with the full budget
                s.set('timeout', ex.timeout_ms)
                r = s.check()
                ob.time_s = time.time() - t0
                if r != z3.sat:
                    ob.backend = 'cvc5'
                    ob.status = 'violated'
                    ob.model = {'note': 'cvc5 sat; no model extracted'}
                    ex.solver_s += ob.time_s
                    return ob
            elif ex.timeout_ms > Z3_FIRST_MS:
                # fresh z3 process with the full budget, then the in-process solver with the full budget
                if run_z3_fresh(txt, ex.timeout_ms) == 'unsat':
                    r = z3.unsat
                    ob.backend = 'z3-fresh'
                else:
                    s.set('timeout', ex.timeout_ms)
                    r = s.check()
                ob.time_s = time.time() - t0
        ex.solver_s += ob.time_s
        if r == z3.unsat:
            ob.status = 'discharged'
            if sum(1 for o in ex.obligations if o.smt2) < ex.keep_smt2 and len(s.sexpr()) < 6000:
                ob.smt2 = s.sexpr()
            # known-finding bookkeeping: does the obligation still fail inside the region?
            if region is not None:
                s2 = z3.Solver()
                s2.set('timeout', ex.timeout_ms)
                for h in hyp:
                    s2.add(h)
                s2.add(region)
                s2.add(z3.Not(goal))
                if s2.check() == z3.sat:
                    ex.known_hits.setdefault(f'{kind}.{name.split("/")[-1].split(".", 1)[1]}', self._model_json(s2.model(), model_terms))
        elif r == z3.sat:
            ob.status = 'violated'
            m = s.model()
            # prefer a small scenario (replayable on the real code): tighten the named size inputs while still sat
            try:
                s.set('timeout', 1500)
                sizes = [(k, t) for k, t in self.named.items() if k.startswith('n_') and z3.is_int(t)]
                for bound in (12, 70, 600):
                    s.push()
                    for k, t in sizes:
                        s.add(t <= bound)
                    if s.check() == z3.sat:
                        m = s.model()
                        s.pop()
                        break
                    s.pop()
            except Exception:
                pass
            ob.model = self._model_json(m, model_terms)
        else:
            ob.status = 'undecided'
            ob.reason = f'solver unknown ({s.reason_unknown()})'
        return ob

    def _identity(self, goal, depth=0):
        """goal is valid by polynomial normalisation alone: t1 == t2 with t1 - t2 == 0 after sum-of-monomials
        expansion (let-definitions expanded), f(args) == f(args') argument-wise, conjunctions thereof.  A sufficient
        syntactic check that makes the many 'same polynomial written differently' obligations independent of solver luck."""
        try:
            if z3.is_and(goal):
                return all(self._identity(ch, depth + 1) for ch in goal.children())
            if z3.is_eq(goal):
                a, b = goal.arg(0), goal.arg(1)
                if a.eq(b):
                    return True
                if z3.is_int(a) and z3.is_int(b):
                    d = z3.simplify(V._expand_defs(self, a - b), som=True)
                    return z3.is_int_value(d) and d.as_long() == 0
                if z3.is_app(a) and z3.is_app(b) and a.decl().eq(b.decl()) and a.num_args() > 0 \
                        and a.decl().kind() == z3.Z3_OP_UNINTERPRETED and depth < 3:
                    return all(self._identity(x == y, depth + 1) for x, y in zip(a.children(), b.children()))
        except Exception:
            return False
        return False

    def _model_json(self, m, model_terms=None):
        out = {}
        terms = dict(self.named)
        if model_terms:
            terms.update(model_terms)
        for k, t in terms.items():
            try:
                v = m.eval(t, model_completion=True)
                out[k] = str(v)
            except Exception:
                pass
        return out

    def cover(self, label):
        self.ex.note_outcome(label)
