"""numpy / zfpy models (AX-NP-*, AX-ZFP-*)."""
import z3

from . import values as V
from .values import (Unsupported, PyRaise, SInt, SFloat, SBool, STok, SObj, SRange, SSlice, is_sym, is_num,
                     is_intlike, is_floatlike, ops_binop, ops_cmp, mk_bool, mk_int, mk_float, zint, zbool, zreal,
                     cur, Ite, Min, Max, And, Or, Not, ite_val, F32, F32_ZERO)
from .symex import ExtRef, untag
from . import npmodel as NP
from . import bytesmodel as BM
from .npmodel import SArray, DType, canon_dtype

# decoded sample of the cell whose compressed bytes start at offset p of file `kind`
VU3 = z3.Function('VU3', z3.IntSort(), z3.IntSort(), z3.IntSort(), z3.IntSort(), z3.IntSort(), F32)
VU2 = z3.Function('VU2', z3.IntSort(), z3.IntSort(), z3.IntSort(), z3.IntSort(), F32)
# decoded sample of a cell given by a non-file unit (zero bytes etc.): (kind, off, i, j, k)
DECZ = z3.Const('DEC_OF_ZERO_BYTES', F32)


def use_axiom(ax):
    cur().ex.__dict__.setdefault('axioms', set()).add(ax)


def check_dim(d, what='dimension'):
    d = untag(d)
    if is_floatlike(d):
        raise PyRaise('TypeError', f"'float' object cannot be interpreted as an integer ({what})")
    if d is None or isinstance(d, str):
        raise PyRaise('TypeError', what)
    if not is_sym(d):
        if d < 0:
            raise PyRaise('ValueError', 'negative dimensions are not allowed')
    elif cur().decide(zint(d) < 0):
        raise PyRaise('ValueError', 'negative dimensions are not allowed')
    return d


def register(lib):
    E = lib.ext
    M = lib.methods
    from .models import NPScalar

    for nm in ('float32', 'float64', 'int32', 'int64', 'intc', 'int16', 'int8', 'uint8', 'uint16', 'uint32'):
        pass   # dtype ExtRefs are resolved lazily by canon_dtype

    def np_dtype(I, d):
        return DType(d)
    E['numpy.dtype'] = np_dtype
    M[('DType', 'newbyteorder')] = lambda I, d, order='S': DType(d.name, order=('>' if order in ('>', 'B', 'big') else ('<' if order in ('<', 'L', 'little') else ('>' if d.order != '>' else '<'))))

    def np_zeros(I, shape, dtype='float64'):
        use_axiom('AX-NP-INDEX')
        shape = untag(shape)
        if not isinstance(shape, (tuple, list)):
            shape = (shape,)
        shape = tuple(check_dim(d) for d in shape)
        dt = canon_dtype(dtype)
        if dt in NP.FLOAT_DTYPES:
            z = STok(F32_ZERO)
            r = SArray(shape, lambda idx: z, dt)
        else:
            r = SArray(shape, lambda idx: 0, dt)
        r.fresh_zeros = True          # ghost: freshly allocated, all zero, no alias
        return r
    E['numpy.zeros'] = np_zeros

    def np_arange(I, *a, dtype=None):
        use_axiom('AX-NP-INDEX')
        a = [untag(x) for x in a]
        a = [x.value if isinstance(x, NPScalar) else x for x in a]
        if len(a) == 1:
            start, stop, step = 0, a[0], 1
        elif len(a) == 2:
            start, stop, step = a[0], a[1], 1
        else:
            start, stop, step = a
        fl = any(is_floatlike(x) for x in (start, stop, step))
        if not fl:
            n = SRange(start, stop, step).length() if not (is_sym(step)) or True else None
            arr = SArray((n,), lambda idx: ops_binop('+', start, ops_binop('*', idx[0], step)), 'int64')
            arr.prog = (start, step)
            return arr
        # float arange: length = ceil((stop-start)/step) over the reals (assumption S3: exact arithmetic)
        if cur().decide(zreal(step) == 0):
            raise PyRaise('ZeroDivisionError')
        q = zreal(ops_binop('-', stop, start)) / zreal(step)
        if cur().ghost.get('float_noise'):
            # S3b (contracts that ask for it): the quotient as floating point delivers it -- off by a tiny rounding error in either
            # direction, so a mathematically integral quotient may come out just above the integer and ceil() adds an element
            eta = z3.Real(cur()._name('arange_rounding_error'))
            cur().assume_raw(z3.And(eta >= z3.RealVal('-1/1000000'), eta <= z3.RealVal('1/1000000')))
            q = q + eta
        n = mk_int(z3.If(q <= 0, 0, z3.If(z3.ToReal(z3.ToInt(q)) == q, z3.ToInt(q), z3.ToInt(q) + 1)))
        cur().ex.__dict__.setdefault('axioms', set()).add('S3a-float-arange-as-real')
        arr = SArray((n,), lambda idx: ops_binop('+', start, ops_binop('*', idx[0], step)), 'float64')
        arr.prog = (start, step)
        return arr
    E['numpy.arange'] = np_arange

    def np_minmax(is_min):
        def f(I, a, axis=None):
            a = untag(a)
            if isinstance(a, SArray) and a.ndim == 1 and getattr(a, 'prog', None) is not None:
                # arithmetic progression: extreme value is the first or the last element
                start, step = a.prog
                last = ops_binop('+', start, ops_binop('*', ops_binop('-', a.shape[0], 1), step))
                up = ops_cmp('>=', step, 0)
                return Ite(up, start, last) if is_min else Ite(up, last, start)
            if isinstance(a, SArray) and a.ndim == 1 and axis is None and a.dtype not in NP.FLOAT_DTYPES:
                # general integer array: the extreme value is attained at some index and bounds every element (AX-NP-MINMAX)
                c = cur()
                n = a.shape[0]
                k = c.fresh_int('argext')
                c.assume_raw(z3.And(k >= 0, k < zint(n)))
                m = a.fn((mk_int(k),))
                # ... instantiated at the first and the last element only (a quantified fact in the path condition makes every later
                # query slow; for the monotone axes of this code base the two ends decide)
                for jj in (0, ops_binop('-', n, 1)):
                    elem = zint(a.fn((jj,)))
                    c.assume_raw((zint(m) <= elem) if is_min else (zint(m) >= elem))
                return m
            raise Unsupported('np.min/np.max of a general array')
        return f
    E['numpy.min'] = np_minmax(True)
    E['numpy.max'] = np_minmax(False)
    E['numpy.amin'] = np_minmax(True)
    E['numpy.amax'] = np_minmax(False)

    def np_asarray(I, x, dtype=None):
        x = untag(x)
        if isinstance(x, SArray):
            return x if dtype is None else x.astype(dtype)
        if isinstance(x, (list, tuple)):
            items = list(x)
            return SArray((len(items),), lambda idx: select_concrete(items, idx[0]), dtype or 'int64')
        if is_num(x):
            return NPScalar(x, 'float64' if is_floatlike(x) else 'int64')
        raise Unsupported(f'np.asarray of {type(x).__name__}')
    E['numpy.asarray'] = np_asarray
    E['numpy.array'] = np_asarray

    def select_concrete(items, k):
        if not is_sym(k):
            return items[k]
        r = items[-1]
        for j in range(len(items) - 2, -1, -1):
            r = ite_val(ops_cmp('==', k, j), items[j], r)
        return r

    def np_int(bits, name):
        def f(I, x=0):
            x = untag(x)
            if isinstance(x, NPScalar):
                x = x.value
            if isinstance(x, STok):
                raise Unsupported('np.int of sample token')
            if is_floatlike(x):
                x = NP.trunc_float(x)
            lo, hi = -(1 << (bits - 1)), (1 << (bits - 1)) - 1
            ok = And(ops_cmp('>=', x, lo), ops_cmp('<=', x, hi))
            if not (ok is True or (ok is not False and cur().decide(zbool(ok)))):
                raise PyRaise('OverflowError', f'Python integer out of bounds for {name}')
            return NPScalar(x, name)
        return f
    E['numpy.int32'] = np_int(32, 'int32')
    E['numpy.int64'] = np_int(64, 'int64')
    E['numpy.intc'] = np_int(32, 'int32')

    def nps_astype(I, s, dtype):
        dt = canon_dtype(dtype)
        v = s.value
        if dt in NP.INT_DTYPES:
            if is_floatlike(v):
                v = NP.trunc_float(v)
            return NPScalar(NP.wrap_int(v, NP.INT_DTYPES[dt]), dt)
        if dt in NP.FLOAT_DTYPES:
            return NPScalar(NP.to_float(v), dt)
        raise Unsupported('scalar astype')
    M[('NPScalar', 'astype')] = nps_astype
    # elements of modelled arrays are plain scalars: x.astype(t) on them behaves like on a numpy scalar
    M[('int', 'astype')] = lambda I, v, dt: nps_astype(I, NPScalar(v, 'int64'), dt)
    M[('float', 'astype')] = lambda I, v, dt: nps_astype(I, NPScalar(v, 'float64'), dt)

    def np_squeeze(I, a, axis=None):
        a = untag(a)
        if not isinstance(a, SArray):
            return a
        keep = []
        for ax, d in enumerate(a.shape):
            one = ops_cmp('==', d, 1)
            if one is True or (one is not False and cur().decide(zbool(one))):
                continue
            keep.append(ax)
        src = a.fn
        nd = len(a.shape)
        if len(keep) == nd:
            return a

        def fn(idx):
            full = [0] * nd
            for j, ax in enumerate(keep):
                full[ax] = idx[j]
            return src(tuple(full))
        if not keep:
            return src(tuple([0] * nd))       # 0-d array ~ scalar element
        return SArray(tuple(a.shape[ax] for ax in keep), fn, a.dtype)
    E['numpy.squeeze'] = np_squeeze

    def np_expand_dims(I, a, axis):
        a = untag(a)
        if not isinstance(a, SArray):
            # scalar element -> 1-element array
            v = a
            return SArray((1,), lambda idx: v, 'float32' if isinstance(v, STok) else 'int64')
        nd = len(a.shape) + 1
        if axis < 0:
            axis += nd
        shape = list(a.shape)
        shape.insert(axis, 1)
        src = a.fn
        return SArray(tuple(shape), lambda idx: src(tuple(idx[:axis] + idx[axis + 1:])), a.dtype)
    E['numpy.expand_dims'] = np_expand_dims

    def np_broadcast_to(I, a, shape):
        a = untag(a)
        shape = tuple(shape)
        if not isinstance(a, SArray):
            raise Unsupported('broadcast_to of non-array')
        ash = list(a.shape)
        off = len(shape) - len(ash)
        if off < 0:
            raise PyRaise('ValueError', 'broadcast')
        bmap = []
        for j, d in enumerate(ash):
            tgt = shape[off + j]
            if isinstance(d, int) and d == 1:
                bmap.append('b')
            else:
                eq = ops_cmp('==', d, tgt)
                if not (eq is True or cur().decide(zbool(eq))):
                    raise PyRaise('ValueError', 'broadcast')
                bmap.append('e')
        src = a.fn
        return SArray(shape, lambda idx: src(tuple(0 if m == 'b' else idx[off + j] for j, m in enumerate(bmap))), a.dtype)
    E['numpy.broadcast_to'] = np_broadcast_to

    def np_pad(I, a, pads, mode='constant', **kw):
        use_axiom('AX-NP-INDEX')
        a = untag(a)
        if not isinstance(a, SArray):
            raise Unsupported('np.pad of non-array')
        pads = [tuple(untag(x) for x in p) for p in pads]
        if len(pads) != len(a.shape):
            raise Unsupported('np.pad pad spec rank')
        for (b, e) in pads:
            if not (isinstance(b, int) and b == 0):
                raise Unsupported('np.pad with leading pad')
            if is_floatlike(e):
                raise PyRaise('TypeError', 'pad width must be of integral type')
            neg = ops_cmp('<', e, 0)
            if neg is True or (neg is not False and cur().decide(zbool(neg))):
                raise PyRaise('ValueError', "index can't contain negative values")
        shape = tuple(ops_binop('+', d, p[1]) for d, p in zip(a.shape, pads))
        src = a.fn
        dims = a.shape
        if mode == 'edge':
            # numpy: edge padding of an empty axis raises
            for d, p in zip(dims, pads):
                z = And(ops_cmp('==', d, 0), ops_cmp('>', p[1], 0))
                if z is True or (z is not False and cur().decide(zbool(z))):
                    raise PyRaise('ValueError', "can't extend empty axis 0 using modes other than 'constant' or 'empty'")

            def fn(idx):
                return src(tuple(Min(i, ops_binop('-', d, 1)) for i, d in zip(idx, dims)))
        elif mode == 'constant':
            zero = STok(F32_ZERO) if a.dtype in NP.FLOAT_DTYPES else 0

            def fn(idx):
                inside = And(*[ops_cmp('<', i, d) for i, d in zip(idx, dims)])
                return ite_val(inside, src(tuple(Min(i, ops_binop('-', d, 1)) for i, d in zip(idx, dims))), zero)
        else:
            raise Unsupported(f'np.pad mode {mode}')
        return SArray(shape, fn, a.dtype)
    E['numpy.pad'] = np_pad

    def np_all(I, a, axis=None):
        a = untag(a)
        if isinstance(a, (bool, SBool)):
            return a
        if not isinstance(a, SArray):
            raise Unsupported('np.all of non-array')
        # forall over elements: represented by a fresh boolean tied to a skolem function (both directions)
        c = cur()
        b = c.fresh_bool('npall')
        idx = tuple(mk_int(c.fresh_int('ai')) for _ in a.shape)
        inr = And(*[And(ops_cmp('>=', i, 0), ops_cmp('<', i, d)) for i, d in zip(idx, a.shape)])
        elem = a.fn(idx)
        # b -> elem holds at an arbitrary index is NOT sound to assume for a fixed skolem only; keep a
        # witness record so contracts can instantiate: (b, array)
        c.ghost.setdefault('npall', []).append((b, a))
        return SBool(b)
    E['numpy.all'] = np_all

    def np_rint(I, x):
        # round to the nearest integer (ties to even; a tie needs an exact .5, modelled as rounding up -- AX-NP-RINT)
        x = untag(x)
        inner = x.value if isinstance(x, NPScalar) else x
        if isinstance(inner, SArray):
            return SArray(inner.shape, lambda idx, a=inner: np_rint(I, a.fn(idx)), inner.dtype)
        if isinstance(inner, (int, SInt)):
            return x
        if isinstance(inner, float):
            import math
            r = float(round(inner))
        else:
            r = mk_float(z3.ToReal(z3.ToInt(zreal(inner) + z3.RealVal('1/2'))))
        return NPScalar(r, 'float64') if isinstance(x, NPScalar) else r
    E['numpy.rint'] = np_rint

    def np_full(I, shape, fill_value, dtype=None, **kw):
        shape = untag(shape)
        if not isinstance(shape, (tuple, list)):
            shape = (shape,)
        shape = tuple(check_dim(d, 'shape') for d in shape)
        dt = canon_dtype(dtype) if dtype is not None else ('float64' if is_floatlike(untag(fill_value)) else 'int64')
        v = untag(fill_value)
        if dt in ('int32', 'int64', 'int16'):
            v = NP.wrap_int(v, int(dt[3:]), signed=True) if is_sym(v) or isinstance(v, int) else v
        return SArray(shape, lambda idx, v=v: v, dt)
    E['numpy.full'] = np_full

    def np_count_nonzero(I, a, axis=None):
        # weak model (AX-NP-COUNT): some integer between 0 and the number of elements
        a = untag(a)
        if not isinstance(a, SArray) or axis is not None:
            raise Unsupported('np.count_nonzero')
        c = cur()
        n = c.sym_int('count_nonzero', lo=0)
        tot = 1
        for d in a.shape:
            tot = ops_binop('*', tot, d)
        c.assume(ops_cmp('<=', n, tot))
        return n
    E['numpy.count_nonzero'] = np_count_nonzero
    lib.np_all = np_all

    def np_array_equal(I, a, b):
        c = cur()
        r = c.fresh_bool('array_equal')
        c.ghost.setdefault('array_equal', []).append((r, untag(a), untag(b)))
        return SBool(r)
    E['numpy.array_equal'] = np_array_equal

    def np_where(I, cond):
        use_axiom('AX-NP-WHERE')
        cond = untag(cond)
        if not isinstance(cond, SArray) or cond.ndim != 1:
            raise Unsupported('np.where on non-1d')
        return (WhereResult(cond),)
    E['numpy.where'] = np_where

    def np_frombuffer(I, buf, dtype='float64', **kw):
        use_axiom('AX-NP-INDEX')
        buf = untag(buf)
        dt = canon_dtype(dtype)
        if isinstance(buf, bytes):
            buf = BM.concrete_bytes(buf)
        if not isinstance(buf, BM.BytesBase):
            raise PyRaise('TypeError', 'a bytes-like object is required')
        if dt not in ('int32', 'float32'):
            raise Unsupported(f'frombuffer dtype {dt}')
        big = isinstance(dtype, DType) and dtype.order == '>'
        if big and dt != 'float32':
            raise Unsupported('frombuffer big-endian ints')
        buf = buf.snapshot()
        rem = ops_binop('%', buf.length, 4)
        bad = ops_cmp('!=', rem, 0)
        if bad is True or (bad is not False and cur().decide(zbool(bad))):
            raise PyRaise('ValueError', 'buffer size must be a multiple of element size')
        n = ops_binop('//', buf.length, 4)

        def fn(idx):
            k = idx[0]
            t = buf.tok(ops_binop('*', k, 4))
            # element = signed 32-bit word at the file offset of its first byte; contiguity of the 4 bytes
            # is an obligation generated on demand
            c = cur()
            j = c.fresh_int('fbj')
            c.assume_raw(z3.And(j >= 0, j < 4))
            c.nonneg_ids.add(j.get_id())
            tj = buf.tok(mk_int(zint(k) * 4 + j))
            c.require(mk_bool(z3.Implies(z3.And(j >= 0, j < 4),
                                         z3.And(tj.zk() == t.zk(), tj.zo() == t.zo() + j))),
                      'frombuffer.contiguous', kind='axiom-pre')
            if dt == 'float32':
                # the float32 whose 4 bytes start at that file offset, read in the stated byte order
                return STok((BM.F32BE if big else BM.F32LE)(t.zk(), t.zo()))
            w = BM.U32(t.zk(), t.zo())
            c.assume_raw(z3.And(w >= 0, w < 2**32))
            return NP.wrap_int(mk_int(w), 32, signed=True)
        r = SArray((n,), fn, dt)
        r.byteorder = '>' if big else '='
        return r
    E['numpy.frombuffer'] = np_frombuffer

    # ------------------------------------------------------------------ ndarray methods
    M[('ndarray', 'copy')] = lambda I, a: a.copy()
    M[('ndarray', 'astype')] = lambda I, a, dt: a.astype(dt)
    M[('ndarray', 'flatten')] = lambda I, a: a.flatten()
    M[('ndarray', 'reshape')] = lambda I, a, *shape: a.reshape(shape[0] if len(shape) == 1 and isinstance(shape[0], (tuple, list)) else shape)
    M[('ndarray', 'tobytes')] = lambda I, a: ArrayBytes(a)

    # ------------------------------------------------------------------ zfpy
    E['zfpy.dtype_to_ztype'] = lambda I, d: ('ztype', canon_dtype(d.name if isinstance(d, DType) else d))

    def zfp_decompress(I, buf, ztype, shape, out=None, rate=None, **kw):
        use_axiom('AX-ZFP-DEC')
        buf = untag(buf)
        if not isinstance(buf, BM.BytesBase):
            raise PyRaise('TypeError', 'bytes required')
        buf = buf.snapshot()
        shape = tuple(check_dim(d, 'shape') for d in untag(shape))
        nd = len(shape)
        if nd not in (2, 3):
            raise Unsupported('zfp decompress rank')
        rate = untag(rate)
        c = cur()
        # unit bytes = 4^d * rate / 8 ; precondition of the axiom: integral and 4^d*rate >= 9
        ubits = ops_binop('*', 4 ** nd, rate)
        c.require(ops_cmp('>=', ubits, 9), 'zfp.min_block_bits', kind='axiom-pre')
        ub = ops_binop('/', ubits, 8)
        if isinstance(ub, float):
            if ub != int(ub):
                raise Unsupported('fractional unit bytes')
            ub = int(ub)
        elif isinstance(ub, SFloat):
            ubi = mk_int(z3.ToInt(ub.z))
            c.require(mk_bool(z3.ToReal(zint(ubi)) == ub.z), 'zfp.unit_bytes_integral', kind='axiom-pre')
            ub = ubi
        for d in shape:
            c.require(ops_cmp('==', ops_binop('%', d, 4), 0), 'zfp.shape_multiple_of_4', kind='axiom-pre')
        units = 1
        for d in shape:
            units = ops_binop('*', units, ops_binop('//', d, 4))
        need = ops_binop('*', units, ub)
        # reading beyond the buffer is undefined behaviour in the C library: precondition
        c.require(ops_cmp('>=', buf.length, need), 'zfp.buffer_long_enough', kind='axiom-pre')
        cells = tuple(ops_binop('//', d, 4) for d in shape)

        def fn(idx):
            cc = [ops_binop('//', i, 4) for i in idx]
            u = 0
            for cdim, ci in zip(cells, cc):
                u = ops_binop('+', ops_binop('*', u, cdim), ci)
            base = ops_binop('*', u, ub)
            t0 = buf.tok(base)
            cx = cur()
            j = cx.fresh_int('uj')
            cx.assume_raw(z3.And(j >= 0, j < zint(ub)))
            cx.nonneg_ids.add(j.get_id())
            tj = buf.tok(mk_int(zint(base) + j))
            # each unit must be ub consecutive bytes of one origin (file range or zero bytes)
            contiguous = z3.Or(z3.And(tj.zk() == t0.zk(), tj.zo() == t0.zo() + j,
                                      z3.Or(t0.zk() == BM.K_FILE, t0.zk() == BM.K_FILE2)),
                               z3.And(tj.zk() == BM.K_ZERO, t0.zk() == BM.K_ZERO))
            cx.require(mk_bool(z3.Implies(z3.And(j >= 0, j < zint(ub)), contiguous)),
                       'zfp.unit_is_contiguous_file_range', kind='axiom-pre')
            inner = [zint(ops_binop('%', i, 4)) for i in idx]
            if nd == 3:
                val = VU3(t0.zk(), t0.zo(), *inner)
            else:
                val = VU2(t0.zk(), t0.zo(), *inner)
            return STok(z3.If(t0.zk() == BM.K_ZERO, DECZ, val))
        arr = SArray(shape, fn, 'float32')
        if out is not None:
            out = untag(out)
            if not isinstance(out, SArray):
                raise Unsupported('zfp out= non-array')
            for d1, d2 in zip(out.shape, shape):
                c.require(ops_cmp('==', d1, d2), 'zfp.out_shape', kind='axiom-pre')
            out.writable_view = True
            full = tuple(SSlice(None, None, None) for _ in shape)
            out.setitem(full, arr, lib)
            return out
        return arr
    E['zfpy._decompress'] = zfp_decompress

    def zfp_compress(I, arr, rate=None, write_header=True, **kw):
        use_axiom('AX-ZFP-ENC')
        arr = untag(arr)
        if not isinstance(arr, SArray):
            raise Unsupported('compress of non-array')
        if write_header:
            raise Unsupported('compress with header')
        return EncBytes(arr, untag(rate))
    E['zfpy.compress_numpy'] = zfp_compress


class WhereResult:
    """np.where(cond)[0]: ascending indices where cond holds.  [0] gives the first (IndexError if none)."""
    def __init__(self, cond):
        self.cond = cond


class ArrayBytes(BM.BytesBase):
    """arr.tobytes(): itemsize * size bytes; byte q is byte (q % itemsize) of element q // itemsize."""
    def __init__(self, arr):
        self.arr = arr
        self.itemsize = {'int32': 4, 'int64': 8, 'float32': 4, 'float64': 8, 'int16': 2, 'int8': 1, 'uint8': 1,
                         'uint16': 2, 'uint32': 4, 'bool': 1}.get(arr.dtype)
        if self.itemsize is None:
            raise Unsupported(f'tobytes of dtype {arr.dtype}')
        self.length = ops_binop('*', arr.size(), self.itemsize)
        c = cur()
        c.counter += 1
        self.aid = c.counter

    def tok(self, q):
        # kind 4: array-element byte; off encodes (array id, byte position)
        return BM.Tok(4, ops_binop('+', self.aid * (1 << 48), q))


class EncBytes(BM.BytesBase):
    """zfpy.compress_numpy(arr, rate, write_header=False)  (AX-ZFP-ENC)."""
    def __init__(self, arr, rate):
        self.arr = arr
        self.rate = rate
        nd = len(arr.shape)
        c = cur()
        ubits = ops_binop('*', 4 ** nd, rate)
        c.require(ops_cmp('>=', ubits, 9), 'zfp.min_block_bits', kind='axiom-pre')
        for d in arr.shape:
            c.require(ops_cmp('==', ops_binop('%', d, 4), 0), 'zfp.shape_multiple_of_4', kind='axiom-pre')
        ub = ops_binop('/', ubits, 8)
        if isinstance(ub, float):
            if ub != int(ub):
                raise Unsupported('fractional unit bytes')
            ub = int(ub)
        elif isinstance(ub, SFloat):
            ubi = mk_int(z3.ToInt(ub.z))
            c.require(mk_bool(z3.ToReal(zint(ubi)) == ub.z), 'zfp.unit_bytes_integral', kind='axiom-pre')
            ub = ubi
        self.ub = ub
        units = 1
        for d in arr.shape:
            units = ops_binop('*', units, ops_binop('//', d, 4))
        self.units = units
        self.length = ops_binop('*', units, ub)
        c.counter += 1
        self.eid = c.counter

    def tok(self, q):
        return BM.Tok(5, ops_binop('+', self.eid * (1 << 48), q))
