"""Byte strings with provenance instead of byte values (DESIGN 2.5).

A byte is a token (kind, off):  kind 0 = zero byte, kind 1 = byte `off` of the main file F,
kind 2 = byte `off` of a second file (SEG-Y source), kind 3 = byte of an encoded word
(off = word id * 16 + byte number), kind 9 = junk (off unique).  Struct-packed words are kept as
Packed values so header fields can be read back symbolically.
"""
import z3

from . import values as V
from .values import (Unsupported, PyRaise, SInt, SSlice, is_sym, is_intlike, is_floatlike, ops_binop, ops_cmp,
                     mk_bool, mk_int, zint, zbool, cur, Ite, Min, Max, And, Or, Not, slice_bounds)

K_ZERO, K_FILE, K_FILE2, K_WORD, K_JUNK = 0, 1, 2, 3, 9

U32 = z3.Function('U32', z3.IntSort(), z3.IntSort(), z3.IntSort())      # (file kind, offset) -> value
U16 = z3.Function('U16', z3.IntSort(), z3.IntSort(), z3.IntSort())
F64 = z3.Function('F64', z3.IntSort(), z3.IntSort(), z3.RealSort())


from .values import F32 as _F32
F32BE = z3.Function('F32BE', z3.IntSort(), z3.IntSort(), _F32)      # float32 stored big-endian at (kind, offset)
F32LE = z3.Function('F32LE', z3.IntSort(), z3.IntSort(), _F32)


class Tok:
    __slots__ = ('kind', 'off')

    def __init__(self, kind, off):
        self.kind = kind      # z3 Int or python int
        self.off = off

    def zk(self):
        return zint(self.kind)

    def zo(self):
        return zint(self.off)


def tok_ite(c, a, b):
    if isinstance(c, bool):
        return a if c else b
    cz = zbool(c)
    return Tok(mk_int(z3.If(cz, a.zk(), b.zk())), mk_int(z3.If(cz, a.zo(), b.zo())))


def tok_eq(a, b):
    return mk_bool(z3.And(a.zk() == b.zk(), a.zo() == b.zo()))


class BytesBase:
    length = 0
    mutable = False

    def tok(self, q):
        raise NotImplementedError

    def getitem(self, key, lib):
        if isinstance(key, SSlice):
            lo, hi = slice_bounds(key, self.length)
            return self.slice(lo, hi)
        k = lib.norm_index(key, self.length)
        return ByteVal(self.tok(k))

    def slice(self, lo, hi):
        base = self
        n = ops_binop('-', hi, lo)
        if not is_sym(lo) and lo == 0 and (ops_cmp('==', hi, self.length) is True) and not self.mutable:
            return self
        return SBytes(n, lambda q: base.tok(ops_binop('+', lo, q)), origin=('slice', base, lo, hi))

    def snapshot(self):
        return self


class ByteVal:
    """single byte (result of b[i])"""
    def __init__(self, tok):
        self.tok = tok


class SBytes(BytesBase):
    def __init__(self, length, fn, origin=None):
        self.length = length
        self.fn = fn
        self.origin = origin

    def tok(self, q):
        return self.fn(q)

    def __repr__(self):
        return f'SBytes(len={self.length})'


def zeros(n):
    return SBytes(n, lambda q: Tok(K_ZERO, 0), origin=('zeros',))


def file_bytes(kind, off, n):
    """n bytes of file `kind` starting at offset `off`."""
    return SBytes(n, lambda q: Tok(kind, ops_binop('+', off, q)), origin=('file', kind, off))


def junk_bytes(n, why='junk'):
    c = cur()
    f = z3.Function(c._name(why), z3.IntSort(), z3.IntSort())
    return SBytes(n, lambda q: Tok(K_JUNK, mk_int(f(zint(q)))), origin=('junk', why))


def concrete_bytes(b):
    # concrete literal bytes: zero bytes are zero tokens, others unique-by-value words
    if all(x == 0 for x in b):
        return zeros(len(b))
    bb = bytes(b)

    def fn(q):
        if not is_sym(q):
            return Tok(K_ZERO, 0) if bb[q] == 0 else Tok(K_WORD, -1000 - bb[q])
        raise Unsupported('symbolic index into literal bytes')
    return SBytes(len(bb), fn, origin=('literal', bb))


class Packed(BytesBase):
    """struct.pack(fmt, value): kept symbolic.  fmt in <I <i <H <h >H <d"""
    SIZES = {'<I': 4, '<i': 4, '<H': 2, '<h': 2, '>H': 2, '>h': 2, '<d': 8, '>I': 4, '>i': 4}

    def __init__(self, fmt, value):
        self.fmt = fmt
        self.value = value
        self.length = self.SIZES[fmt]
        c = cur()
        c.counter += 1
        self.wid = c.counter

    def tok(self, q):
        return Tok(K_WORD, ops_binop('+', self.wid * 16, q))

    def __repr__(self):
        return f'Packed({self.fmt},{self.value})'


class SByteArray(BytesBase):
    """bytearray: concrete-offset field stores (fields) over a symbolic content; resizable."""
    mutable = True

    def __init__(self, content):
        self.content = content          # SBytes-like (immutable)
        self.length = content.length
        self.fields = {}                # (a,b) concrete -> BytesBase value (exact ranges)
        c = cur()
        c.counter += 1
        self.born = c.counter           # allocation stamp (L3: stores into objects older than the loop are family stores)

    def __repr__(self):
        return f'SByteArray(len={self.length}, fields={sorted(self.fields)})'

    def tok(self, q):
        if self.fields:
            if not is_sym(q):
                for (a, b), v in self.fields.items():
                    if a <= q < b:
                        return v.tok(q - a)
                return self.content.tok(q)
            # symbolic position with concrete fields present: If-chain over the fields
            t = self.content.tok(q)
            for (a, b), v in self.fields.items():
                t = tok_ite(And(ops_cmp('>=', q, a), ops_cmp('<', q, b)), v.tok(ops_binop('-', q, a)), t)
            return t
        return self.content.tok(q)

    def snapshot(self):
        s = SByteArray(self.content)
        s.length = self.length
        s.fields = dict(self.fields)
        s.mutable = False
        return s

    def field(self, a, b):
        """value stored at exactly [a,b) (Packed / bytes), or the underlying content slice."""
        if (a, b) in self.fields:
            return self.fields[(a, b)]
        for (x, y), v in self.fields.items():
            if x < b and a < y:
                if x <= a and b <= y:
                    return v.slice(a - x, b - x)
                raise Unsupported(f'read [{a}:{b}) partially overlaps stored field [{x}:{y})')
        return self.content.slice(a, b)

    def getitem(self, key, lib):
        if isinstance(key, SSlice):
            lo, hi = slice_bounds(key, self.length)
            if not is_sym(lo) and not is_sym(hi):
                return self.field(lo, hi)
            snap = self.snapshot()
            return SBytes(ops_binop('-', hi, lo), lambda q: snap.tok(ops_binop('+', lo, q)), origin=('slice', snap, lo, hi))
        k = lib.norm_index(key, self.length)
        return ByteVal(self.tok(k))

    def setitem(self, key, val, lib):
        if not self.mutable:
            raise PyRaise('TypeError', 'bytes object does not support item assignment')
        if not isinstance(key, SSlice):
            raise Unsupported('single-byte store')
        if isinstance(val, bytes):
            val = concrete_bytes(val)
        if not isinstance(val, BytesBase):
            raise PyRaise('TypeError', 'can assign only bytes')
        lo, hi = slice_bounds(key, self.length)
        vlen = val.length
        span = ops_binop('-', hi, lo)
        same = ops_cmp('==', vlen, span)
        same_known = (same is True) or cur().known(same)
        val = val.snapshot()
        from . import loops
        if loops.active_vars() and loops.is_outer(self):
            return self._family_store(lo, hi, val, same_known)
        if not is_sym(lo) and not is_sym(hi) and not is_sym(vlen) and same_known:
            # concrete field store
            for (x, y) in list(self.fields):
                if x < hi and lo < y:
                    if lo <= x and y <= hi:
                        del self.fields[(x, y)]
                    else:
                        raise Unsupported(f'store [{lo}:{hi}) partially overlaps field [{x}:{y})')
            self.fields[(lo, hi)] = val
            return
        if self.fields:
            # flatten fields into content before a symbolic store
            snap = self.snapshot()
            self.content = SBytes(self.length, lambda q: snap.tok(q))
            self.fields = {}
        old = self.content
        if same_known:
            def fn(q, old=old, val=val, lo=lo, hi=hi):
                c = And(ops_cmp('>=', q, lo), ops_cmp('<', q, hi))
                if c is False:
                    return old.tok(q)
                nv = val.tok(ops_binop('-', q, lo))
                if c is True:
                    return nv
                return tok_ite(c, nv, old.tok(q))
            self.content = SBytes(self.length, fn)
            return
        # length-changing slice assignment (CPython semantics): the bytearray is resized
        newlen = ops_binop('+', ops_binop('-', self.length, span), vlen)
        delta = ops_binop('-', vlen, span)

        def fn2(q, old=old, val=val, lo=lo, vlen=vlen, delta=delta):
            in_new = And(ops_cmp('>=', q, lo), ops_cmp('<', q, ops_binop('+', lo, vlen)))
            before = ops_cmp('<', q, lo)
            t_after = old.tok(ops_binop('-', q, delta))
            t = tok_ite(in_new, val.tok(ops_binop('-', q, lo)), t_after)
            return tok_ite(before, old.tok(q), t)
        self.content = SBytes(newlen, fn2)
        self.length = newlen
        cur().ghost['resized_bytearray'] = True


def _family_store(self, lo, hi, val, same_known):
    """store executed by the generic iteration of an L3 loop nest into a bytearray that outlives it"""
    from . import loops
    c = cur()
    if not same_known:
        c.ghost['resized_bytearray'] = True
        raise Unsupported('length-changing slice assignment inside an independent-iterations loop')
    if self.fields:
        snap = self.snapshot()
        self.content = SBytes(self.length, lambda q: snap.tok(q))
        self.fields = {}
    old = self.content
    levels = loops.active_levels()
    jz = c.fresh_int('fsj')
    c.nonneg_ids.add(jz.get_id())
    c.assume_raw(z3.And(jz >= 0, jz < zint(ops_binop('-', hi, lo))))      # (hi > lo: a non-empty store)
    q0 = ops_binop('+', lo, mk_int(jz))
    loops.unique_cover_obligation('bytearray_store', levels, True, q0)

    def fn(q, old=old, val=val, lo=lo, hi=hi, levels=levels):
        ws = loops.witness_for(levels, q)
        pairs = loops.family_pairs(levels, ws)
        lo_w, hi_w = loops.subst(lo, pairs), loops.subst(hi, pairs)
        cond = And(loops.family_in_range(levels, ws), ops_cmp('>=', q, lo_w), ops_cmp('<', q, hi_w))
        if cond is False:
            return old.tok(q)
        if cond is not True and c.prove(cond):
            cond = True
        qk = mk_int(c.fresh_int('fq'))           # placeholder position, substituted together with the indices
        before = c.counter
        c.guards.append(And(ops_cmp('>=', qk, lo), ops_cmp('<', qk, hi)))
        try:
            t = val.tok(ops_binop('-', qk, lo))
        finally:
            c.guards.pop()
        loops.check_closed(t, min(before, levels[0].stamp), allowed=loops.level_names(levels) + [str(qk.z) if hasattr(qk, 'z') else ''])
        t_w = loops.subst(t, pairs + [(zint(qk), zint(q))])
        if cond is True:
            return t_w
        return tok_ite(cond, t_w, old.tok(q))
    self.content = SBytes(self.length, fn)
    c.ghost.setdefault('family_stores', []).append(('bytearray', self, levels))


SByteArray._family_store = _family_store


def as_bytes(v):
    if isinstance(v, bytes):
        return concrete_bytes(v)
    if isinstance(v, BytesBase):
        return v
    raise Unsupported(f'not bytes: {type(v).__name__}')


def concat(a, b):
    a, b = as_bytes(a).snapshot(), as_bytes(b).snapshot()
    la = a.length
    n = ops_binop('+', la, b.length)

    def fn(q):
        c = ops_cmp('<', q, la)
        if c is True:
            return a.tok(q)
        if c is False:
            return b.tok(ops_binop('-', q, la))
        return tok_ite(c, a.tok(q), b.tok(ops_binop('-', q, la)))
    return SBytes(n, fn, origin=('concat', a, b))


def bytes_binop(op, a, b):
    if op == '+':
        return concat(a, b)
    raise Unsupported(f'bytes op {op}')


def bytes_compare(op, a, b):
    if op not in ('==', '!='):
        raise Unsupported('bytes ordering')
    # only needed: headerbytes[0:2] == b'\xc3\x40' (SEG-Y magic check) -> unconstrained boolean
    c = cur()
    r = c.sym_bool('bytes_eq')
    return r if op == '==' else Not(r)


def contiguous_file_range(b, lo, n):
    """If bytes b[lo:lo+n) are provably n consecutive bytes of one file, return (kind, offset); else None.
    Checked with a skolem position (sound for all positions)."""
    c = cur()
    t0 = b.tok(lo)
    if is_sym(n) or n > 1:
        j = c.fresh_int('cj')
        hyp = z3.And(j >= 0, j < zint(n))
        tj = b.tok(mk_int(zint(lo) + j))
        goal = z3.And(tj.zk() == t0.zk(), tj.zo() == t0.zo() + j)
        if not c.known(mk_bool(z3.Implies(hyp, goal))):
            return None
    return t0.kind, t0.off
