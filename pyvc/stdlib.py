"""Models of builtins, container operations and external libraries (assumed contracts, DESIGN A).

Every external function used by code under contract is modelled here; anything not modelled
raises Unsupported (=> undecided, never 'discharged').  Axiom ids (AX-*) are recorded on use so
each evidence file lists exactly the assumptions its obligations depended on.
"""
import ast
import z3

from . import values as V
from .values import (Unsupported, PyRaise, SInt, SFloat, SBool, SObj, SRange, SSlice, SExc, is_sym, is_num,
                     is_intlike, is_floatlike, ops_binop, ops_cmp, mk_bool, mk_int, mk_float, zint, zbool,
                     zreal, cur, Ite, Min, Max, And, Or, Not, slice_bounds)
from .symex import (ExtRef, ModelMethod, BoundMethod, TaggedInt, untag, BUILTIN_EXC, Frame)
from .frontend import FuncInfo, ClassInfo
from . import npmodel as NP
from . import bytesmodel as BM


def use_axiom(ax):
    c = cur()
    c.ghost.setdefault('axioms', set()).add(ax)
    c.ex.__dict__.setdefault('axioms', set()).add(ax)


class Stdlib:
    def __init__(self):
        self.ext = {}
        self.methods = {}
        self.attr_hooks = []
        from . import models
        models.register(self)

    # ------------------------------------------------------------------ helpers
    def hashable(self, v):
        v = untag(v)
        if is_sym(v):
            raise Unsupported('symbolic value used as dict/set key')
        if isinstance(v, list):
            return tuple(self.hashable(x) for x in v)
        if isinstance(v, tuple):
            return tuple(self.hashable(x) for x in v)
        return v

    def identical(self, a, b):
        if a is None or b is None:
            return a is None and b is None
        if isinstance(a, (bool, int, str)) and isinstance(b, (bool, int, str)):
            return a is b or (type(a) == type(b) and a == b)
        return a is b

    def truth(self, I, v):
        if isinstance(v, (NP.SArray,)):
            raise Unsupported('truth value of array')
        if isinstance(v, SRange):
            return bool(ops_cmp('>', v.length(), 0))
        if isinstance(v, (SObj, FuncInfo, ClassInfo, BoundMethod, ExtRef)):
            return True
        if isinstance(v, BM.BytesBase):
            return bool(ops_cmp('>', v.length, 0))
        raise Unsupported(f'truth of {type(v).__name__}')

    def concrete_iter(self, I, v):
        """Python list of items if the iterable has a concrete length, else None."""
        v = untag(v)
        if isinstance(v, (list, tuple)):
            return list(v)
        if isinstance(v, (set, frozenset)):
            try:
                return sorted(v)
            except TypeError:
                return list(v)
        if isinstance(v, dict):
            return list(v.keys())
        if isinstance(v, range):
            return list(v)
        if isinstance(v, str):
            return list(v)
        if isinstance(v, SRange):
            if v.is_concrete():
                return list(range(v.start, v.stop, v.step))
            n = v.length()
            if isinstance(n, int):
                return [v.item(k) for k in range(n)]
            return None
        if isinstance(v, NP.SArray):
            n = v.shape[0] if v.shape else None
            if isinstance(n, int) and n <= 4096:
                return [v.getitem((k,)) for k in range(n)]
            return None
        if isinstance(v, ConcreteIter):
            return v.items
        if isinstance(v, SObj) and v.clsname == '$dictview':
            return v.fields['items']
        if isinstance(v, SObj) and callable(v.fields.get('__iter__')):
            return v.fields['__iter__']()
        return None

    # ------------------------------------------------------------------ attribute access
    def getattr(self, I, obj, attr, node, frame):
        obj0 = obj
        obj = untag(obj)
        if isinstance(obj, tuple) and len(obj) == 2 and obj[0] == 'repo_module':
            m = obj[1]
            r = I.prog.resolve_name(m, attr)
            if r is None:
                raise Unsupported(f'module attr {m.name}.{attr}', node)
            if isinstance(r, tuple):
                if r[0] == 'const':
                    return r[1]
                if r[0] == 'ext':
                    return ExtRef(r[1])
                if r[0] == 'module':
                    return ('repo_module', r[1])
            return r
        if isinstance(obj, SObj):
            if attr in obj.fields:
                obj.reads.add(attr)
                return obj.fields[attr]
            if obj.cls is not None:
                m = obj.cls.find_method(attr)
                if m is not None:
                    if m.is_static:
                        return m
                    return BoundMethod(obj, m)
                for c in obj.cls.mro():
                    if attr in c.class_attrs:
                        return c.class_attrs[attr]
            key = (obj.clsname, attr)
            if key in self.methods:
                return ModelMethod(obj, attr)
            for hook in self.attr_hooks:
                r = hook(I, obj, attr)
                if r is not NotImplemented:
                    return r
            raise PyRaise('AttributeError', f'{obj.clsname}.{attr}')
        if isinstance(obj, ClassInfo):
            m = obj.find_method(attr)
            if m is not None:
                return m
            for c in obj.mro():
                if attr in c.class_attrs:
                    v = c.class_attrs[attr]
                    if 'Enum' in obj.all_ext_bases():
                        return EnumMember(obj.name, attr, v)
                    return v
            raise Unsupported(f'class attr {obj.name}.{attr}', node)
        if isinstance(obj, ExtRef) and obj.dotted.startswith('seismic_zfp.') and obj.dotted.count('.') == 1:
            # `import seismic_zfp` ... seismic_zfp.utils.read_range_file: an entity of a repo module
            m = I.prog.modules.get(obj.dotted.split('.')[1])
            if m is not None:
                r = I.prog.resolve_name(m, attr)
                if r is not None and not isinstance(r, tuple):
                    return r
        if isinstance(obj, ExtRef):
            for hook in self.attr_hooks:
                r = hook(I, obj, attr)
                if r is not NotImplemented:
                    return r
            return ExtRef(obj.dotted + '.' + attr)
        if isinstance(obj, EnumMember):
            if attr == 'value':
                return obj.value
            if attr == 'name':
                return obj.member
        if isinstance(obj, SSlice):
            if attr in ('start', 'stop', 'step'):
                return getattr(obj, attr)
            if attr == 'indices':
                return ModelMethod(obj, attr)
        if isinstance(obj, NP.SArray):
            if attr == 'shape':
                return tuple(obj.shape)
            if attr == 'dtype':
                return NP.DType(obj.dtype)
            if attr == 'size':
                r = 1
                for d in obj.shape:
                    r = ops_binop('*', r, d)
                return r
            if attr == 'ndim':
                return len(obj.shape)
            if attr == 'T':
                return obj.transpose()
            return ModelMethod(obj, attr)
        if isinstance(obj, (list, dict, str, tuple, set, bytes, BM.BytesBase, SRange, SExc, float, int, SFloat, SInt,
                            ConcreteIter, NP.DType)):
            return ModelMethod(obj, attr)
        raise Unsupported(f'getattr {type(obj).__name__}.{attr}', node)

    def setattr(self, I, obj, attr, val, node):
        if isinstance(obj, SObj):
            if obj.frozen is not None and attr in obj.frozen:
                c = cur()
                c.ghost.setdefault('frame_violations', []).append(f'{obj.clsname}.{attr}')
            obj.fields[attr] = val
            return
        raise Unsupported(f'setattr on {type(obj).__name__}', node)

    # ------------------------------------------------------------------ subscripts
    def norm_index(self, idx, n, node=None):
        """Python index normalisation with IndexError path."""
        if is_floatlike(idx):
            raise PyRaise('TypeError', 'indices must be integers')
        if not is_sym(idx) and not is_sym(n):
            if idx < -n or idx >= n:
                raise PyRaise('IndexError')
            return idx + n if idx < 0 else idx
        neg = ops_cmp('<', idx, 0)
        c = cur()
        if getattr(c, 'family', None) and neg is not True and neg is not False:
            # inside an independent-iterations loop a branch on the generic index is not available: the index must be a plain in-range
            # ordinal for EVERY iteration (no IndexError, no negative wrap-around) -- an obligation, reported as a violation when it fails
            inr = And(ops_cmp('>=', idx, 0), ops_cmp('<', idx, n))
            if not c.prove(zbool(inr)):
                c.require(inr, 'index_in_range_for_every_iteration_without_wraparound', kind='loop')
            return idx
        idx2 = Ite(neg, ops_binop('+', idx, n), idx)
        ok = And(ops_cmp('>=', idx2, 0), ops_cmp('<', idx2, n))
        if not cur().decide(zbool(ok)):
            raise PyRaise('IndexError')
        return idx2

    def getitem(self, I, cont, key, node):
        cont = untag(cont)
        key = untag(key)
        if isinstance(cont, (tuple, list)):
            if isinstance(key, SSlice):
                if any(is_sym(x) for x in (key.start, key.stop, key.step)):
                    raise Unsupported('symbolic slice of tuple/list', node)
                return cont[slice(key.start, key.stop, key.step)]
            if is_sym(key):
                # symbolic index into a concrete-length sequence of scalars: case split
                n = len(cont)
                k = self.norm_index(key, n, node)
                for j in range(n):
                    if cur().decide(zint(k) == j):
                        return cont[j]
                raise V.PyRaise('IndexError')
            if isinstance(key, bool) or not isinstance(key, int):
                raise PyRaise('TypeError', 'list indices must be integers')
            try:
                return cont[key]
            except IndexError:
                raise PyRaise('IndexError')
        if isinstance(cont, dict):
            k = self.hashable(key)
            if k in cont:
                return cont[k]
            # enum / int keyed equivalence
            for kk in cont:
                if self.key_eq(kk, k):
                    return cont[kk]
            raise PyRaise('KeyError')
        if isinstance(cont, str):
            if isinstance(key, SSlice):
                return cont[slice(key.start, key.stop, key.step)]
            return cont[key]
        if isinstance(cont, SRange):
            n = cont.length()
            if isinstance(key, SSlice):
                lo, hi = slice_bounds(key, n)
                return SRange(cont.item(lo), cont.item(hi), cont.step)
            k = self.norm_index(key, n, node)
            return cont.item(k)
        if isinstance(cont, range):
            return self.getitem(I, SRange(cont.start, cont.stop, cont.step), key, node)
        if isinstance(cont, NP.SArray):
            use_axiom('AX-NP-INDEX')
            return cont.getitem(key if isinstance(key, tuple) else (key,), self)
        if isinstance(cont, BM.BytesBase):
            return cont.getitem(key, self)
        if isinstance(cont, bytes):
            if isinstance(key, SSlice):
                return cont[slice(key.start, key.stop, key.step)]
            return cont[key]
        if isinstance(cont, SObj):
            km = (cont.clsname, '__getitem__')
            if km in self.methods:
                return self.methods[km](I, cont, key)
            if cont.cls is not None:
                m = cont.cls.find_method('__getitem__')
                if m is not None:
                    return I.call_repo(m, [key], {}, self_obj=cont)
        if isinstance(cont, ConcreteIter):
            return cont.items[key]
        from .models_np import WhereResult as _WR
        if isinstance(cont, _WR):
            # np.where(cond)[0][0]: the FIRST index at which cond holds; IndexError when cond holds nowhere (AX-NP-WHERE)
            k = untag(key)
            if not (isinstance(k, int) and k == 0):
                raise Unsupported('np.where(...)[0][k] for k != 0', node)
            c = cur()
            cond = cont.cond
            n = cond.shape[0]
            import z3 as _z3
            j = _z3.Int(c._name('wj'))
            none = _z3.ForAll([j], _z3.Implies(_z3.And(j >= 0, j < zint(n)), _z3.Not(zbool(cond.fn((mk_int(j),))))))
            if c.choose(2, 'np.where: some index / none') == 1:
                c.assume_raw(none)
                raise PyRaise('IndexError', 'index 0 is out of bounds for axis 0 with size 0')
            first = c.fresh_int('first')
            c.assume_raw(_z3.And(first >= 0, first < zint(n)))
            c.nonneg_ids.add(first.get_id())
            c.assume_raw(zbool(cond.fn((mk_int(first),))))
            c.assume_raw(_z3.ForAll([j], _z3.Implies(_z3.And(j >= 0, j < first), _z3.Not(zbool(cond.fn((mk_int(j),)))))))
            return mk_int(first)
        if isinstance(cont, NP.MaskedArray) and (is_intlike(untag(key)) if 'is_intlike' in globals() else True):
            k = untag(key)
            n = mk_int(cont.count)
            bad = Or(ops_cmp('<', k, ops_binop('-', 0, n)), ops_cmp('>=', k, n))
            if bad is True or (bad is not False and cur().decide(zbool(bad), raise_split=True)):
                raise PyRaise('IndexError', 'index out of bounds of the selected entries')
            return cont.item(k, self)[0]
        raise Unsupported(f'getitem on {type(cont).__name__}', node)

    def key_eq(self, a, b):
        a = a.value if isinstance(a, EnumMember) else a
        b = b.value if isinstance(b, EnumMember) else b
        try:
            return a == b
        except Exception:
            return False

    def setitem(self, I, cont, key, val, node):
        cont = untag(cont)
        key = untag(key)
        if isinstance(cont, list):
            if is_sym(key):
                raise Unsupported('symbolic index store into list', node)
            try:
                cont[key] = val
            except IndexError:
                raise PyRaise('IndexError')
            return
        if isinstance(cont, dict):
            k = self.hashable(key)
            for kk in list(cont):
                if kk is not k and self.key_eq(kk, k) and kk != k:
                    k = kk
            cont[k] = val
            return
        if isinstance(cont, NP.SArray):
            use_axiom('AX-NP-INDEX')
            return cont.setitem(key if isinstance(key, tuple) else (key,), val, self)
        if isinstance(cont, BM.BytesBase):
            return cont.setitem(key, val, self)
        if isinstance(cont, SObj):
            km = (cont.clsname, '__setitem__')
            if km in self.methods:
                return self.methods[km](I, cont, key, val)
        raise Unsupported(f'setitem on {type(cont).__name__}', node)

    def delitem(self, I, cont, key, node):
        if isinstance(cont, dict):
            k = self.hashable(untag(key))
            for kk in list(cont):
                if self.key_eq(kk, k):
                    del cont[kk]
                    return
            raise PyRaise('KeyError')
        raise Unsupported('del on non-dict', node)

    # ------------------------------------------------------------------ operators on non-scalars
    def binop(self, I, op, a, b, node):
        if isinstance(a, str) and isinstance(b, str) and op == '+':
            return a + b
        if isinstance(a, str) and op == '%':
            return '<fmt>'
        if isinstance(a, (list, tuple)) and isinstance(b, (list, tuple)) and op == '+':
            if type(a) != type(b):
                raise PyRaise('TypeError', 'concat list/tuple')
            return a + b
        if isinstance(a, (list, tuple)) and isinstance(b, int) and op == '*':
            return a * b
        if isinstance(a, BM.BytesBase) or isinstance(b, BM.BytesBase) or isinstance(a, bytes) or isinstance(b, bytes):
            return BM.bytes_binop(op, a, b)
        if isinstance(a, NP.SArray) or isinstance(b, NP.SArray):
            return NP.array_binop(op, a, b)
        if a is None or b is None:
            raise PyRaise('TypeError', f'unsupported operand None for {op}')
        if isinstance(a, str) or isinstance(b, str):
            raise PyRaise('TypeError', 'str operand')
        raise Unsupported(f'binop {op} on {type(a).__name__},{type(b).__name__}', node)

    def unary(self, I, op, v, node):
        if isinstance(v, NP.SArray):
            return NP.array_binop('-', 0, v)
        raise Unsupported(f'unary {op} on {type(v).__name__}', node)

    def compare(self, I, op, a, b, node):
        if isinstance(a, SObj) and a.cls is not None and isinstance(b, SObj):
            dunder = {'>': '__gt__', '<': '__lt__', '>=': '__ge__', '<=': '__le__', '==': '__eq__', '!=': '__ne__'}[op]
            refl = {'>': '__lt__', '<': '__gt__', '>=': '__le__', '<=': '__ge__', '==': '__eq__', '!=': '__ne__'}[op]
            m = a.cls.find_method(dunder)
            if m is not None:
                return I.call_repo(m, [b], {}, self_obj=a)
            m = b.cls.find_method(refl) if b.cls is not None else None
            if m is not None:
                return I.call_repo(m, [a], {}, self_obj=b)
            if op == '!=' and a.cls.find_method('__eq__') is not None:
                r = I.call_repo(a.cls.find_method('__eq__'), [b], {}, self_obj=a)
                return Not(r) if is_sym(r) else (not r)
        if isinstance(a, EnumMember) or isinstance(b, EnumMember):
            r = self.key_eq(a, b) and isinstance(a, EnumMember) == isinstance(b, EnumMember)
            if isinstance(a, EnumMember) and isinstance(b, EnumMember):
                r = (a.enum == b.enum and a.member == b.member)
            if op == '==':
                return r
            if op == '!=':
                return not r
        if (isinstance(a, NP.DType) or isinstance(b, NP.DType)) and op in ('==', '!='):
            r = (a == b) if isinstance(a, NP.DType) else (b == a)
            return r if op == '==' else not r
        if isinstance(a, str) and isinstance(b, str):
            return {'==': a == b, '!=': a != b, '<': a < b, '<=': a <= b, '>': a > b, '>=': a >= b}[op]
        if isinstance(a, (tuple, list)) and isinstance(b, (tuple, list)) and op in ('==', '!='):
            if type(a) != type(b) or len(a) != len(b):
                return op == '!='
            conj = And(*[Frame.compare(None, '==', x, y) if False else self._eq(I, x, y, node) for x, y in zip(a, b)])
            return conj if op == '==' else Not(conj)
        if isinstance(a, NP.SArray) or isinstance(b, NP.SArray):
            return NP.array_compare(op, a, b)
        if isinstance(a, BM.BytesBase) or isinstance(b, BM.BytesBase):
            return BM.bytes_compare(op, a, b)
        if isinstance(a, bytes) and isinstance(b, bytes):
            return (a == b) if op == '==' else (a != b)
        if op == '==':
            if type(a) != type(b):
                return False
            return a is b
        if op == '!=':
            if type(a) != type(b):
                return True
            return a is not b
        raise Unsupported(f'compare {op} on {type(a).__name__},{type(b).__name__}', node)

    def _eq(self, I, x, y, node):
        x, y = untag(x), untag(y)
        if (is_num(x) or x is None) and (is_num(y) or y is None):
            return ops_cmp('==', x, y)
        return self.compare(I, '==', x, y, node)

    def contains(self, I, cont, item, node):
        cont = untag(cont)
        item = untag(item)
        if isinstance(cont, (list, tuple, set, frozenset)):
            if is_sym(item):
                return Or(*[ops_cmp('==', item, untag(c)) for c in cont if is_num(untag(c))])
            for c in cont:
                if self.key_eq(c, item) or (isinstance(c, type(item)) and c == item):
                    return True
            return False
        if isinstance(cont, dict):
            k = self.hashable(item)
            return any(self.key_eq(kk, k) for kk in cont)
        if isinstance(cont, str):
            return item in cont
        if isinstance(cont, SRange):
            if isinstance(cont.step, int) and cont.step == 1:
                return And(ops_cmp('>=', item, cont.start), ops_cmp('<', item, cont.stop))
            raise Unsupported('in range with step', node)
        if isinstance(cont, SObj):
            km = (cont.clsname, '__contains__')
            if km in self.methods:
                return self.methods[km](I, cont, item)
        if isinstance(cont, ConcreteIter):
            return self.contains(I, cont.items, item, node)
        raise Unsupported(f'in on {type(cont).__name__}', node)

    # ------------------------------------------------------------------ context managers
    def enter(self, I, cm, node):
        if isinstance(cm, SObj):
            km = (cm.clsname, '__enter__')
            if km in self.methods:
                return self.methods[km](I, cm)
            if cm.cls is not None:
                m = cm.cls.find_method('__enter__')
                if m is not None:
                    return I.call_repo(m, [], {}, self_obj=cm)
            return cm
        raise Unsupported(f'with on {type(cm).__name__}', node)

    def exit(self, I, cm, exc):
        if isinstance(cm, SObj):
            km = (cm.clsname, '__exit__')
            if km in self.methods:
                return self.methods[km](I, cm, exc)
            if cm.cls is not None:
                m = cm.cls.find_method('__exit__')
                if m is not None:
                    return I.call_repo(m, [None, None, None], {}, self_obj=cm)
        return None

    def symbolic_comprehension(self, I, frame, n):
        """[elt for v in range(...)] with a symbolic trip count: the element is evaluated ONCE for a generic ordinal k
        (like an L3 loop body: no branching on k except raises) and the result is a symbolic-length list."""
        from .models import SymSeq
        from . import loops
        import ast as _ast
        if len(n.generators) != 1 or n.generators[0].ifs or not isinstance(n, (_ast.ListComp, _ast.GeneratorExp)):
            return None
        g = n.generators[0]
        it = frame.eval(g.iter)
        if self.concrete_iter(I, it) is not None:
            return None
        if not isinstance(it, SRange):
            return None
        c = cur()
        length = it.length()
        nonempty = ops_cmp('>', length, 0)
        frame.loop_ordinal += 1            # comprehensions over symbolic ranges count as loops for the sidecar annotations
        annot = I.loop_annots.get((frame.f.key, frame.loop_ordinal)) or loops.IndependentWrites(witness=None)
        if nonempty is False or (nonempty is not True and not c.decide(zbool(nonempty))):
            return []
        if isinstance(it.step, int) and it.step == 1:
            length = ops_binop('-', it.stop, it.start)
        vars_, k = annot.generic_index(c, frame, length, f'{frame.f.qualname}#{frame.loop_ordinal}(comprehension)')
        c.counter += 1
        fam = loops.Family(annot, vars_, c.counter, dict(frame.env), frame.f.qualname)
        c.family.append(fam)
        try:
            sub = Frame(I, frame.f, dict(frame.env))
            sub.assign(g.target, it.item(k))
            val = sub.eval(n.elt)
        finally:
            c.family.pop()
        kzs = [v.z for v in vars_]
        if len(kzs) == 1:
            return SymSeq(length, lambda j, val=val, kz=kzs[0]: loops.subst(val, [(kz, zint(j))]))
        return SymSeq(length, lambda j, val=val: val)

    # ------------------------------------------------------------------ calls
    def call_ext(self, I, dotted, args, kwargs, node):
        fn = self.ext.get(dotted)
        if fn is None:
            if dotted in BUILTIN_EXC or dotted == 'struct.error':
                return SExc(dotted)
            raise Unsupported(f'external function {dotted} not modelled', node)
        return fn(I, *args, **kwargs)

    def call_method(self, I, recv, name, args, kwargs, node):
        recv = untag(recv)
        tname = type_name(recv)
        fn = self.methods.get((tname, name))
        if fn is None:
            raise Unsupported(f'method {tname}.{name} not modelled', node)
        return fn(I, recv, *args, **kwargs)


def type_name(v):
    if isinstance(v, SObj):
        return v.clsname
    if isinstance(v, bool):
        return 'bool'
    if isinstance(v, (int, SInt)):
        return 'int'
    if isinstance(v, (float, SFloat)):
        return 'float'
    if isinstance(v, NP.SArray):
        return 'ndarray'
    if isinstance(v, BM.BytesBase):
        return 'bytes'
    return type(v).__name__


class EnumMember:
    def __init__(self, enum, member, value):
        self.enum = enum
        self.member = member
        self.value = value

    def __repr__(self):
        return f'{self.enum}.{self.member}'

    def __hash__(self):
        return hash((self.enum, self.member))

    def __eq__(self, o):
        return isinstance(o, EnumMember) and o.enum == self.enum and o.member == self.member


class ConcreteIter:
    def __init__(self, items):
        self.items = list(items)
