"""Check driver: verification run -> known findings -> replay -> evidence -> exit code."""
import importlib
import json
import os
import subprocess
import sys
import time
import hashlib

from . import run as R

VERIF = os.path.dirname(os.path.dirname(os.path.abspath(__file__)))
NATIVE_PY = '/venv/bin/python'
REPO = os.environ.get('VERIF_REPO', '/repo')


def load_known():
    p = os.path.join(VERIF, 'known_findings.json')
    if not os.path.exists(p):
        return []
    with open(p) as f:
        return json.load(f).get('findings', [])


def scan_assumptions():
    """mechanical scan of the contracts for assume/axiom/trusted/havoc markers (DESIGN 2.8)"""
    out = []
    cdir = os.path.join(VERIF, 'contracts')
    for fn in sorted(os.listdir(cdir)):
        if not fn.endswith('.py'):
            continue
        with open(os.path.join(cdir, fn)) as f:
            for i, line in enumerate(f, 1):
                s = line.strip()
                if s.startswith('#'):
                    continue
                for kw in ('c.assume(', 'assume_raw(', 'TRUSTED', 'use_axiom(', 'havoc('):
                    if kw in s:
                        out.append(f'{fn}:{i}: {s[:110]}')
                        break
    return out


def native(cmd_args, timeout=3000, env_extra=None):
    env = dict(os.environ)
    env['PYTHONPATH'] = REPO + os.pathsep + VERIF
    env['VERIF_REPO'] = REPO
    env.setdefault('TMPDIR', '/tmp')
    if env_extra:
        env.update(env_extra)
    p = subprocess.run([NATIVE_PY] + cmd_args, capture_output=True, text=True, timeout=timeout, env=env, cwd=VERIF)
    return p


def run_bounded(prop, tier, seed):
    script = os.path.join(VERIF, 'bounded', f'{prop}.py')
    if not os.path.exists(script):
        return None
    try:
        p = native([script, '--tier', tier, '--seed', str(seed)], timeout=3400 if tier == 'thorough' else 900)
    except subprocess.TimeoutExpired:
        return {'error': 'bounded stage timed out', 'cases': 0}
    txt = p.stdout.strip().splitlines()
    for line in reversed(txt):
        if line.startswith('{'):
            try:
                return json.loads(line)
            except Exception:
                pass
    return {'error': f'bounded stage produced no result (exit {p.returncode}): {p.stderr[-800:]}', 'cases': 0}


def try_native_replay(prop, ob, fuc):
    """Replay a counter-model on the real code.  Returns dict(reproduced=bool|None, detail=...)."""
    script = os.path.join(VERIF, 'oracle', 'replay_model.py')
    if not os.path.exists(script) or ob.get('model') is None:
        return {'reproduced': None, 'detail': 'no scenario builder for this obligation'}
    payload = json.dumps({'prop': prop, 'obligation': ob['name'], 'model': ob['model'], 'fuc': fuc})
    try:
        p = native([script, payload], timeout=300)
    except subprocess.TimeoutExpired:
        return {'reproduced': None, 'detail': 'native replay timed out'}
    for line in reversed(p.stdout.strip().splitlines()):
        if line.startswith('{'):
            try:
                return json.loads(line)
            except Exception:
                pass
    return {'reproduced': None, 'detail': f'native replay gave no verdict (exit {p.returncode}) {p.stderr[-400:]}'}


def run_check(prop, tier, seed, bounded=True):
    t0 = time.time()
    os.makedirs(os.path.join(VERIF, 'evidence'), exist_ok=True)
    os.makedirs(os.path.join(VERIF, 'replays', prop), exist_ok=True)
    try:
        pm = importlib.import_module(f'props.{prop}')
    except ModuleNotFoundError:
        print(f'CHECKER-ERROR no check built for {prop}')
        return 3
    timeout_ms = 20000 if tier == 'quick' else 120000
    jobs = R.jobs_for_property(prop)
    results = R.verify_keys(jobs, timeout_ms=timeout_ms)
    # pure lemmas (composition obligations) of the property
    lemma_results = []
    if hasattr(pm, 'lemmas'):
        from . import lemma
        lemma_results = lemma.run_lemmas(prop, pm.lemmas(tier), timeout_ms)
    known = [k for k in load_known() if k.get('property') == prop and k.get('status') == 'open']

    all_obs = []
    crashes, undecided, vacuous = [], [], []
    fucs = []
    axioms = set()
    solver_s = 0.0
    by_backend = {}
    known_lines = []
    for r in results:
        if 'crash' in r:
            crashes.append(f"{r['fuc']}: {r['crash']}")
            continue
        fucs.append({k: r[k] for k in ('fuc', 'file', 'span', 'sha256', 'paths', 'outcomes', 'dropped', 'contract')})
        for u in r['undecided']:
            undecided.append(f"{r['fuc']}: {u}")
        if r.get('vacuous'):
            vacuous.append(r['fuc'])
        axioms.update(r.get('axioms', []))
        solver_s += r.get('solver_s', 0)
        for o in r['obligations']:
            o['fuc'] = r['fuc']
            if hasattr(pm, 'select') and not pm.select(o['name']):
                continue
            all_obs.append(o)
        for fam, model in (r.get('known_hits') or {}).items():
            for k in known:
                if k.get('obligation', '').startswith(r['fuc'].split('[')[0]) and fam.split('.', 1)[-1] in k.get('obligation', ''):
                    line = f"KNOWN-FINDING: property={prop} {k['what']}"
                    if line not in known_lines:
                        known_lines.append(line)
    for o in lemma_results:
        o['fuc'] = f'lemma:{prop}'
        all_obs.append(o)
        solver_s += o.get('time_s', 0)

    violated = [o for o in all_obs if o['status'] == 'violated']
    # open known findings listed by the exact failing obligation (function variant + obligation): reported as KNOWN-FINDING, everything else stays a violation
    exact = {}
    for k in known:
        for nm in k.get('obligations', []):
            exact[nm] = k
    still = []
    for o in violated:
        k = exact.get(o['name'])
        if k is not None:
            o['status'] = 'known-finding'
            line = f"KNOWN-FINDING: property={prop} {k['what']}"
            if line not in known_lines:
                known_lines.append(line)
        else:
            still.append(o)
    violated = still
    und_obs = [o for o in all_obs if o['status'] == 'undecided']
    discharged = [o for o in all_obs if o['status'] == 'discharged']
    for o in all_obs:
        by_backend[o.get('backend') or 'none'] = by_backend.get(o.get('backend') or 'none', 0) + 1

    # canaries: a deliberately false obligation per property must be refuted (guards against an engine proving everything)
    canary_ok = None
    if hasattr(pm, 'canary'):
        from . import lemma
        cres = lemma.run_lemmas(prop, pm.canary(), timeout_ms)
        canary_ok = all(c['status'] == 'violated' for c in cres) and len(cres) > 0

    # CPython cross-check of the engine's interpreter semantics on concrete calls of real functions (selftest/crosscheck.py)
    cross = None
    if prop in ('C03', 'C05', 'C19'):
        try:
            pc_ = subprocess.run([os.path.join(VERIF, 'selftest', 'crosscheck.py'), str(seed)], capture_output=True, text=True, timeout=600,
                                 env=dict(os.environ, VERIF_REPO=os.environ.get('VERIF_REPO', '/repo')))
            line = [l for l in pc_.stdout.splitlines() if l.startswith('crosscheck:')]
            cross = {'exit': pc_.returncode, 'summary': line[-1] if line else pc_.stderr[-300:], 'disagreements': [l for l in pc_.stdout.splitlines() if 'DISAGREE' in l][:5]}
        except Exception as e:
            cross = {'exit': 3, 'summary': f'{type(e).__name__}: {e}'}

    # bounded stage (never counted as proved)
    bres = None
    if bounded:
        bres = run_bounded(prop, tier, seed)
    bounded_fail = []
    if bres and bres.get('failures'):
        for fl in bres['failures']:
            matched = None
            for k in known:
                if k.get('bounded_id') and k['bounded_id'] == fl.get('id'):
                    matched = k
            if matched:
                line = f"KNOWN-FINDING: property={prop} {matched['what']}"
                if line not in known_lines:
                    known_lines.append(line)
            else:
                bounded_fail.append(fl)

    # ---------------- verdict
    exit_code = 0
    out_lines = []
    replay_paths = []
    if violated or bounded_fail:
        exit_code = 1
        # group violated obligations by (function, obligation) across configuration variants: one replay file and one
        # VIOLATION line per group; the models of the group are replayed on the real code until one reproduces
        fams = {}
        for o in violated:
            base = o['name'].split('[')[0] + '/' + o['name'].split('/')[-1] if '[' in o['name'] else o['name']
            fams.setdefault(base, []).append(o)
        n = 0
        for name, obs in list(fams.items())[:12]:
            n += 1
            rp = os.path.join('replays', prop, f'{_slug(name)}.json')
            rep = {'reproduced': None, 'detail': 'no model'}
            used = obs[0]
            tried = []
            for o in obs[:6]:
                if hasattr(pm, 'replay') and o['fuc'].startswith('lemma:'):
                    rep = pm.replay(obs)
                    tried.append({'function': o['fuc'], 'native_replay': rep})
                    used = o
                    break
                rep = try_native_replay(prop, o, o['fuc'])
                tried.append({'function': o['fuc'], 'model': o.get('model'), 'native_replay': rep})
                used = o
                if rep.get('reproduced'):
                    break
            doc = {'property': prop, 'obligation': used['name'], 'obligation_family': name, 'function': used['fuc'], 'status': 'violated',
                   'solver': used.get('backend'), 'models': [used.get('model')] + [x.get('model') for x in obs[:5] if x is not used],
                   'variants_failing': sorted(set(x['fuc'] for x in obs))[:40],
                   'paths': [x.get('path') for x in obs[:5]], 'raised_at': used.get('line'),
                   'native_replay': rep, 'replays_tried': tried, 'tier': tier,
                   'verifier_output': {'status': 'sat (counter-model to the negated obligation)', 'model': used.get('model')}}
            with open(os.path.join(VERIF, rp), 'w') as f:
                json.dump(doc, f, indent=1, default=str)
            suffix = '' if rep.get('reproduced') else ' no-failing-input-found'
            out_lines.append(f'VIOLATION property={prop} replay={rp}{suffix}')
            replay_paths.append(rp)
        for fl in bounded_fail[:10]:
            n += 1
            rp = os.path.join('replays', prop, f'bounded_{_slug(str(fl.get("id", n)))}.json')
            with open(os.path.join(VERIF, rp), 'w') as f:
                json.dump({'property': prop, 'stage': 'bounded', 'failure': fl, 'tier': tier}, f, indent=1)
            out_lines.append(f'VIOLATION property={prop} replay={rp}')
            replay_paths.append(rp)
    elif crashes or vacuous or not all_obs or canary_ok is False or (bres and bres.get('error')) or (cross and cross['exit'] != 0):
        exit_code = 3
        if cross and cross['exit'] != 0:
            out_lines.append(f"CHECKER-ERROR engine disagrees with CPython on concrete calls: {cross['summary']}")
        for c in crashes:
            out_lines.append(f'CHECKER-ERROR {c}')
        for v in vacuous:
            out_lines.append(f'CHECKER-ERROR vacuous precondition in {v}')
        if not all_obs:
            out_lines.append('CHECKER-ERROR zero obligations generated')
        if canary_ok is False:
            out_lines.append('CHECKER-ERROR canary obligation was not refuted')
        if bres and bres.get('error'):
            out_lines.append(f"CHECKER-ERROR bounded stage: {bres['error']}")
    elif undecided or und_obs:
        exit_code = 2
        for u in undecided[:20]:
            out_lines.append(f'UNDECIDED property={prop} reason={u}')
        for o in und_obs[:20]:
            out_lines.append(f"UNDECIDED property={prop} obligation={o['name']} reason={o.get('reason')}")

    wall = time.time() - t0
    samples = []
    for o in discharged[:3]:
        samples.append({'obligation': o['name'], 'status': o['status'], 'backend': o.get('backend'), 'time_s': o.get('time_s'),
                        'smt2': (o.get('smt2') or '')[:1500]})
    for o in discharged:
        if o.get('smt2') and len(samples) < 6:
            samples.append({'obligation': o['name'], 'status': o['status'], 'backend': o.get('backend'),
                            'smt2': o['smt2'][:1500]})
    for o in violated[:3]:
        samples.append({'obligation': o['name'], 'status': 'violated', 'model': o.get('model')})
    if not samples:
        samples.append({'note': 'no obligation generated'})
    families = sorted(set(o['name'] for o in all_obs))
    level = getattr(pm, 'LEVEL', 'proof')
    ev = {
        'property_id': prop, 'tier': tier, 'seed': seed, 'level': level, 'wall_s': round(wall, 2),
        'violations': len(violated) + len(bounded_fail),
        'coverage': {
            # obligations matched by an open known finding are reported separately (known_finding_obligations), not counted here
            'obligations': len([o for o in all_obs if o['status'] != 'known-finding']), 'discharged': len(discharged),
            'known_finding_obligations': sorted(o['name'] for o in all_obs if o['status'] == 'known-finding'),
            'checker_cmd': f'./check {prop} --tier {tier}',
            'trusted_base': sorted(axioms) + getattr(pm, 'TRUSTED', []) + ['ENGINE pyvc (VC generator; validated by canaries/mutants/CPython cross-check, not proved)', 'z3 5.1.0', 'cvc5 1.0.3 (fallback)'],
            'samples': samples,
            'obligation_families': len(families),
            'family_names': families[:400],
            'functions_under_contract': fucs,
            'by_backend': by_backend, 'solver_s': round(solver_s, 2),
            'undecided': undecided + [o['name'] for o in und_obs],
            'violated': sorted(set(o['name'] for o in violated)),
            'canary_refuted': canary_ok,
            'cpython_crosscheck': cross,
            'known_findings_matched': known_lines,
            'assumption_scan': scan_assumptions() if tier == 'thorough' else f'{len(scan_assumptions())} markers (listed in thorough tier)',
            'bounded': bres if bres else 'none for this property',
            'explanation': getattr(pm, 'EXPLANATION', ''),
            'exhaustive': False,
        },
        'assumptions': getattr(pm, 'ASSUMPTIONS', []),
        'extracted': getattr(pm, '_STATE', {}).get('skeleton'),
    }
    if bres and isinstance(bres, dict):
        ev['coverage']['evaluations'] = int(bres.get('cases', 0))
        ev['coverage']['distinct_nontrivial'] = int(bres.get('distinct_nontrivial', 0))
        ev['coverage']['rule'] = bres.get('rule', '')
    evdir = os.environ.get('VERIF_EVIDENCE_DIR') or os.path.join(VERIF, 'evidence')
    os.makedirs(evdir, exist_ok=True)
    with open(os.path.join(evdir, f'{prop}.json'), 'w') as f:
        json.dump(ev, f, indent=1, default=str)

    print(f'[{prop}] tier={tier} functions={len(fucs)} obligations={len(all_obs)} discharged={len(discharged)} '
          f'violated={len(violated)} undecided={len(undecided) + len(und_obs)} bounded_cases={bres.get("cases") if bres else 0} '
          f'solver={solver_s:.1f}s wall={wall:.1f}s')
    for line in known_lines:
        print(line)
    for line in out_lines:
        print(line)
    return exit_code


def _slug(s):
    keep = ''.join(ch if ch.isalnum() or ch in '._-' else '_' for ch in s)
    if len(keep) > 120:
        keep = keep[:100] + '_' + hashlib.sha1(s.encode()).hexdigest()[:10]
    return keep


def replay_file(prop, path):
    with open(path) as f:
        doc = json.load(f)
    if doc.get('stage') == 'bounded':
        script = os.path.join(VERIF, 'bounded', f'{prop}.py')
        p = native([script, '--replay', json.dumps(doc['failure'])], timeout=600)
        print(p.stdout[-3000:])
        return 1 if 'REPRODUCED' in p.stdout else 0
    ob = {'name': doc['obligation'], 'model': (doc.get('models') or [None])[0]}
    rep = try_native_replay(prop, ob, doc.get('function'))
    print(json.dumps(rep, indent=1))
    if rep.get('reproduced'):
        print(f'VIOLATION property={prop} replay={path}')
        return 1
    return 0
