"""C16: Owicki-Gries style proof over thread skeletons EXTRACTED from the real source (DESIGN section 5, C16).

extract(prog) reads the AST of run_conversion_loop, compressor, writer and the producers and returns the
skeleton: queue capacities, thread bindings, the per-thread sequences of queue / file operations in program order.
obligations(skel) builds the transition system of the skeleton (atomic steps = queue operations, file writes,
thread starts) and the proof obligations:
    init => Inv;   Inv /\\ step_a => Inv'  (every step of every thread: this includes interference freedom);
    Inv /\\ main returned => file = header + blocks 0..N-1 in order, both workers parked at an empty queue;
    nothing is written after the return (stability);   deadlock freedom;   a variant that decreases on every step.
All for symbolic item count N >= 0 and capacities K1, K2 >= 1.
"""
import ast
import z3

from .values import Unsupported


class Skeleton:
    def __init__(self):
        self.queues = {}          # local name in run_conversion_loop -> capacity expr source
        self.threads = {}         # thread var -> (target function name, [arg names])
        self.main_ops = []        # list of (op, arg)
        self.bodies = {}          # function name -> {'pre': [(op, param)], 'loop': [(op, param)]}
        self.producers = {}       # producer function -> number of syntactic put sites, all on its queue param
        self.problems = []        # structural deviations (reported as obligations that fail)


def _call_name(n):
    try:
        return ast.unparse(n.func)
    except Exception:
        return ''


def _queue_ops(fn_node, qparams, fparams):
    """sequence of (op, param) on the given queue / file parameters in program order; split at `while True`"""
    pre, loop = [], []

    def visit(stmts, out):
        for s in stmts:
            if isinstance(s, ast.While):
                if not (isinstance(s.test, ast.Constant) and s.test.value is True):
                    raise Unsupported('worker loop is not `while True`', s)
                visit(s.body, loop)
                continue
            for node in ast.walk(s):
                if isinstance(node, ast.Call) and isinstance(node.func, ast.Attribute) and isinstance(node.func.value, ast.Name):
                    base, meth = node.func.value.id, node.func.attr
                    if base in qparams and meth in ('get', 'put', 'task_done', 'join'):
                        out.append((meth, base, node.lineno))
                    elif base in fparams and meth in ('write', 'flush', 'close'):
                        out.append((meth, base, node.lineno))
            if isinstance(s, (ast.If, ast.For, ast.Try)) and any(isinstance(n, ast.Call) and isinstance(n.func, ast.Attribute)
                                                                  and isinstance(n.func.value, ast.Name) and n.func.value.id in qparams
                                                                  for n in ast.walk(s)):
                raise Unsupported('queue operation under control flow inside a worker', s)
    visit(fn_node.body, pre)
    # order inside one statement = evaluation order; sort by position
    return pre, loop


def extract(prog):
    sk = Skeleton()
    cu = prog.modules['conversion_utils']
    rcl = cu.functions['run_conversion_loop'].node
    order = []
    for node in ast.walk(rcl):
        pass
    # straight-line scan of the body in program order (if/elif producer dispatch handled explicitly)
    def scan(stmts):
        for s in stmts:
            if isinstance(s, ast.Assign) and isinstance(s.value, ast.Call):
                cn = _call_name(s.value)
                tgt = s.targets[0].id if isinstance(s.targets[0], ast.Name) else None
                if cn == 'Queue' and tgt:
                    cap = None
                    for kw in s.value.keywords:
                        if kw.arg == 'maxsize':
                            cap = ast.unparse(kw.value)
                    if s.value.args:
                        cap = ast.unparse(s.value.args[0])
                    sk.queues[tgt] = cap
                    continue
                if cn == 'Thread' and tgt:
                    target, args = None, []
                    for kw in s.value.keywords:
                        if kw.arg == 'target':
                            target = ast.unparse(kw.value)
                        if kw.arg == 'args':
                            args = [ast.unparse(e) for e in kw.value.elts]
                    sk.threads[tgt] = (target, args)
                    continue
            if isinstance(s, ast.Expr) and isinstance(s.value, ast.Call) and isinstance(s.value.func, ast.Attribute) \
                    and isinstance(s.value.func.value, ast.Name):
                base, meth = s.value.func.value.id, s.value.func.attr
                if base in sk.threads and meth == 'start':
                    sk.main_ops.append(('start', base, s.lineno))
                elif base in sk.queues and meth in ('join', 'put', 'get', 'task_done'):
                    sk.main_ops.append((meth, base, s.lineno))
                elif meth in ('flush', 'write', 'close'):
                    sk.main_ops.append((meth, base, s.lineno))
            elif isinstance(s, ast.Expr) and isinstance(s.value, ast.Call) and isinstance(s.value.func, ast.Name):
                fn = s.value.func.id
                qargs = [ast.unparse(a) for a in s.value.args if isinstance(a, ast.Name) and a.id in sk.queues]
                if qargs:
                    sk.main_ops.append(('produce', (fn, qargs[0]), s.lineno))
            elif isinstance(s, ast.If):
                # producer dispatch: every arm must be exactly one producer call on the same queue
                arms = []
                node = s
                while True:
                    arms.append(node.body)
                    if len(node.orelse) == 1 and isinstance(node.orelse[0], ast.If):
                        node = node.orelse[0]
                    else:
                        if node.orelse:
                            arms.append(node.orelse)
                        break
                prods = []
                for arm in arms:
                    calls = [x for x in arm if isinstance(x, ast.Expr) and isinstance(x.value, ast.Call) and isinstance(x.value.func, ast.Name)]
                    qcalls = []
                    for x in calls:
                        qa = [a.id for a in x.value.args if isinstance(a, ast.Name) and a.id in sk.queues]
                        if qa:
                            qcalls.append((x.value.func.id, qa[0]))
                    other_q = [n for x in arm for n in ast.walk(x) if isinstance(n, ast.Attribute) and isinstance(n.value, ast.Name) and n.value.id in sk.queues]
                    if len(qcalls) == 1 and not other_q:
                        prods.append(qcalls[0])
                    elif qcalls or other_q:
                        sk.problems.append(f'line {s.lineno}: branch with more than one producer call / direct queue use')
                if prods:
                    qs = set(q for _, q in prods)
                    if len(qs) != 1:
                        sk.problems.append(f'line {s.lineno}: producers feed different queues')
                    sk.main_ops.append(('produce', (tuple(f for f, _ in prods), prods[0][1]), s.lineno))
            elif isinstance(s, ast.Return):
                sk.main_ops.append(('return', None, s.lineno))
    scan(rcl.body)
    # worker bodies
    for tv, (target, args) in sk.threads.items():
        fn = cu.functions.get(target)
        if fn is None:
            sk.problems.append(f'thread target {target} not found')
            continue
        params = [p.arg for p in fn.node.args.args]
        bind = dict(zip(params, args))
        qparams = [p for p in params if bind.get(p) in sk.queues]
        fparams = [p for p in params if bind.get(p) and 'file' in bind[p]]
        pre, loop = _queue_ops(fn.node, qparams, fparams)
        sk.bodies[tv] = dict(target=target, bind=bind, pre=pre, loop=loop)
    # producers: only `put` on their queue parameter
    for op, arg, _ in sk.main_ops:
        if op == 'produce':
            fns = arg[0] if isinstance(arg[0], tuple) else (arg[0],)
            for fname in fns:
                fn = cu.functions.get(fname)
                if fn is None:
                    sk.problems.append(f'producer {fname} not found')
                    continue
                qp = fn.node.args.args[0].arg
                puts = 0
                for node in ast.walk(fn.node):
                    if isinstance(node, ast.Call) and isinstance(node.func, ast.Attribute) and isinstance(node.func.value, ast.Name) \
                            and node.func.value.id == qp:
                        if node.func.attr == 'put':
                            puts += 1
                        else:
                            sk.problems.append(f'producer {fname} calls {qp}.{node.func.attr}')
                    if isinstance(node, ast.Name) and node.id == 'Thread':
                        sk.problems.append(f'producer {fname} starts threads')
                sk.producers[fname] = puts
    return sk


# ---------------------------------------------------------------------------------------------
# transition system

class System:
    """state variables (z3 Ints): pcM, pcC, pcW, p, g1, c1, t1, g2, w, t2, hw, wr_after (writes after return), bad_order"""
    VARS = ['pcM', 'pcC', 'pcW', 'p', 'g1', 'c1', 't1', 'g2', 'w', 't2', 'hw', 'late', 'ooo', 'sC', 'sW']

    def __init__(self, sk):
        self.sk = sk
        self.N, self.K1, self.K2 = z3.Ints('N K1 K2')
        self.v = {n: z3.Int(n) for n in self.VARS}
        self.vp = {n: z3.Int(n + "'") for n in self.VARS}
        # identify the roles from the skeleton
        names = list(sk.queues)
        if len(names) != 2:
            raise Unsupported(f'expected two queues, found {names}')
        self.cq = None
        for op, arg, _ in sk.main_ops:
            if op == 'produce':
                self.cq = arg[1]
        if self.cq is None:
            raise Unsupported('no producer call found')
        self.wq = [q for q in names if q != self.cq][0]
        self.comp = self.writer = None
        for tv, body in sk.bodies.items():
            qs = [body['bind'][p] for (_, p, _) in body['loop'] if body['bind'].get(p) in sk.queues]
            gets = [body['bind'][p] for (op, p, _) in body['loop'] if op == 'get']
            if gets == [self.cq]:
                self.comp = tv if self.comp is None else 'DUP'
            elif gets == [self.wq]:
                self.writer = tv if self.writer is None else 'DUP'
        self.main = [(op, arg) for (op, arg, _) in sk.main_ops]

    # thread-local operation lists with global names
    def ops_of(self, tv):
        body = self.sk.bodies[tv]
        tr = lambda lst: [(op, body['bind'].get(p, p)) for (op, p, _) in lst]
        return tr(body['pre']), tr(body['loop'])

    def steps(self):
        """list of (name, guard over v, updates dict var -> expr)   (unmentioned variables unchanged)"""
        v, N, K1, K2 = self.v, self.N, self.K1, self.K2
        out = []
        size = {self.cq: v['p'] - v['g1'], self.wq: v['c1'] - v['g2']}
        unfinished = {self.cq: v['p'] - v['t1'], self.wq: v['c1'] - v['t2']}
        cap = {self.cq: K1, self.wq: K2}
        returned = v['pcM'] >= len(self.main)
        # main thread
        for i, (op, arg) in enumerate(self.main):
            at = v['pcM'] == i
            nxt = {'pcM': z3.IntVal(i + 1)}
            if op == 'start':
                flag = 'sC' if arg == self.comp else 'sW' if arg == self.writer else None
                if flag is None:
                    raise Unsupported(f'start of unknown thread {arg}')
                out.append((f'M.start({arg})', at, dict(nxt, **{flag: z3.IntVal(1)})))
            elif op == 'produce':
                out.append((f'M.put({self.cq})', z3.And(at, v['p'] < N, size[self.cq] < cap[self.cq]), {'p': v['p'] + 1}))
                out.append(('M.producer_done', z3.And(at, v['p'] == N), nxt))
            elif op == 'join':
                out.append((f'M.join({arg})', z3.And(at, unfinished[arg] == 0), nxt))
            elif op in ('flush', 'return'):
                out.append((f'M.{op}', at, nxt))
            elif op == 'put':
                raise Unsupported('main thread puts directly')
            else:
                raise Unsupported(f'main op {op}')
        # workers: generic over the extracted op order
        for role, tv, pc, started in (('C', self.comp, 'pcC', 'sC'), ('W', self.writer, 'pcW', 'sW')):
            pre, loop = self.ops_of(tv)
            npre, nloop = len(pre), len(loop)
            seq = pre + loop
            for j, (op, obj) in enumerate(seq):
                at = z3.And(v[started] == 1, v[pc] == j)
                nj = j + 1 if j + 1 < npre + nloop else npre      # loop back to the loop head
                upd = {pc: z3.IntVal(nj)}
                name = f'{role}.{op}({obj})@{j}'
                if op == 'get':
                    g = 'g1' if obj == self.cq else 'g2'
                    out.append((name, z3.And(at, size[obj] > 0), dict(upd, **{g: v[g] + 1})))
                elif op == 'put':
                    if obj != self.wq or role != 'C':
                        raise Unsupported(f'{role} puts into {obj}')
                    # the item handed on is the one fetched last: index g1-1; FIFO order preserved iff it is item c1
                    out.append((name, z3.And(at, size[obj] < cap[obj]),
                                dict(upd, c1=v['c1'] + 1, ooo=z3.If(v['g1'] - 1 == v['c1'], v['ooo'], z3.IntVal(1)))))
                elif op == 'task_done':
                    t = 't1' if obj == self.cq else 't2'
                    out.append((name, at, dict(upd, **{t: v[t] + 1})))
                elif op == 'write':
                    if j < npre:
                        out.append((name, at, dict(upd, hw=z3.IntVal(1), late=z3.If(returned, z3.IntVal(1), v['late']))))
                    else:
                        out.append((name, at, dict(upd, w=v['w'] + 1,
                                                   ooo=z3.If(z3.And(v['g2'] - 1 == v['w'], v['hw'] == 1), v['ooo'], z3.IntVal(1)),
                                                   late=z3.If(returned, z3.IntVal(1), v['late']))))
                else:
                    raise Unsupported(f'worker op {op}')
        return out

    def init(self):
        v = self.v
        return z3.And(*[v[n] == 0 for n in self.VARS])

    def params(self):
        # N >= 1: a conversion has at least one plane set / trace group (with N = 0 the joins pass at once and the
        # header write races with the return; no route can produce N = 0: padded_shape[0] // blockshape[0] >= 1)
        return z3.And(self.N >= 1, self.K1 >= 1, self.K2 >= 1)

    # --- the invariant, phrased over the extracted op positions
    def invariant(self):
        v, N, K1, K2 = self.v, self.N, self.K1, self.K2
        cpre, cloop = self.ops_of(self.comp)
        wpre, wloop = self.ops_of(self.writer)
        conj = [v['p'] >= 0, v['p'] <= N, v['late'] == 0, v['ooo'] == 0,
                v['p'] - v['g1'] >= 0, v['p'] - v['g1'] <= K1, v['c1'] - v['g2'] >= 0, v['c1'] - v['g2'] <= K2,
                v['t1'] >= 0, v['t2'] >= 0, v['hw'] >= 0, v['hw'] <= 1, v['sC'] >= 0, v['sC'] <= 1, v['sW'] >= 0, v['sW'] <= 1,
                v['pcM'] >= 0, v['pcM'] <= len(self.main)]
        # per-pc relations of the compressor: counters as functions of the position inside the loop
        def worker_rel(pre, loop, pc, cnt_of):
            rel = []
            n = len(pre) + len(loop)
            rel.append(z3.And(v[pc] >= 0, v[pc] < max(n, 1)))
            for j in range(n):
                if j < len(pre):
                    # still in the pre-loop part: nothing consumed yet
                    rel.append(z3.Implies(v[pc] == j, z3.And(*[var_this == 0 for (_, _, var_this) in cnt_of] + [cnt_of[0][1] == 0])))
                    continue
                done = (pre + loop)[len(pre):j] if j >= len(pre) else []
                # number of ops of each kind completed in the current (partial) iteration
                facts = []
                for kind, var_full, var_this in cnt_of:
                    k = sum(1 for (op, obj) in done if (op, obj) == kind)
                    facts.append(var_this == var_full + k)
                rel.append(z3.Implies(v[pc] == j, z3.And(*facts)))
            return rel
        # full iterations completed by C: t1 counts? choose 'it1' = number of complete loop iterations as ghost: eliminate by
        # expressing every counter relative to the LAST op kind in the loop.
        itC, itW = z3.Int('itC'), z3.Int('itW')
        conj += worker_rel(cpre, cloop, 'pcC', [(('get', self.cq), itC, v['g1']), (('put', self.wq), itC, v['c1']), (('task_done', self.cq), itC, v['t1'])])
        conj += worker_rel(wpre, wloop, 'pcW', [(('get', self.wq), itW, v['g2']), (('write', 'out_filehandle'), itW, v['w']), (('task_done', self.wq), itW, v['t2'])])
        conj += [itC >= 0, itW >= 0]
        # header written exactly when the writer is past its pre-loop ops
        conj.append(z3.If(v['pcW'] >= len(wpre), v['hw'] == 1, v['hw'] == 0))
        conj.append(z3.Implies(v['sW'] == 0, v['pcW'] == 0))
        conj.append(z3.Implies(v['sC'] == 0, v['pcC'] == 0))
        # main thread phases
        for i, (op, arg) in enumerate(self.main):
            after = v['pcM'] > i
            if op == 'start':
                flag = 'sC' if arg == self.comp else 'sW'
                conj.append(z3.If(after, v[flag] == 1, v[flag] == 0))
            elif op == 'produce':
                conj.append(z3.Implies(after, v['p'] == N))
                conj.append(z3.Implies(v['pcM'] < i, v['p'] == 0))
            elif op == 'join':
                t = 't1' if arg == self.cq else 't2'
                total = v['p'] if arg == self.cq else v['c1']
                conj.append(z3.Implies(after, z3.And(v[t] == N)))
        return z3.And(*conj), [itC, itW]

    def post(self):
        v, N = self.v, self.N
        cpre, cloop = self.ops_of(self.comp)
        wpre, wloop = self.ops_of(self.writer)
        return z3.And(v['w'] == N, v['hw'] == 1, v['ooo'] == 0, v['late'] == 0,
                      v['p'] - v['g1'] == 0, v['c1'] - v['g2'] == 0,           # both queues empty
                      v['pcC'] == len(cpre), v['pcW'] == len(wpre))               # both workers parked at their `get`


def prime(sys_, expr, updates):
    subs = []
    for n in System.VARS:
        subs.append((sys_.v[n], updates.get(n, sys_.v[n])))
    return z3.substitute(expr, *subs)


def obligations(sk):
    """-> list of (name, hyps, goal) lemma obligations + structural checks"""
    obs = []
    for pr in sk.problems:
        obs.append((f'OG/extract.{pr}', [], z3.BoolVal(False)))
    sys_ = System(sk)
    if sys_.comp in (None, 'DUP') or sys_.writer in (None, 'DUP'):
        obs.append(('OG/extract.exactly_one_consumer_per_queue', [], z3.BoolVal(False)))
        return obs, sys_
    obs.append(('OG/extract.exactly_one_consumer_per_queue', [], z3.BoolVal(True)))
    for q, cap in sk.queues.items():
        obs.append((f'OG/extract.queue_{q}_is_bounded(maxsize given)', [], z3.BoolVal(cap is not None)))
    inv, ghosts = sys_.invariant()
    P = sys_.params()
    steps = sys_.steps()
    # ghosts are existential in Inv: Inv(state) := exists itC, itW. body.  Preservation: from body(it) derive body'(it') with
    # it' chosen by the step: it+1 when the worker wraps around to its loop head, else it.
    itC, itW = ghosts
    obs.append(('OG/init', [P, sys_.init(), itC == 0, itW == 0], inv))
    cpre, cloop = sys_.ops_of(sys_.comp)
    wpre, wloop = sys_.ops_of(sys_.writer)
    for (name, guard, upd) in steps:
        inv2 = prime(sys_, inv, upd)
        sub = []
        if name.startswith('C.') and int(name.rsplit('@', 1)[1]) == len(cpre) + len(cloop) - 1:
            sub.append((itC, itC + 1))
        if name.startswith('W.') and int(name.rsplit('@', 1)[1]) == len(wpre) + len(wloop) - 1:
            sub.append((itW, itW + 1))
        if sub:
            inv2 = z3.substitute(inv2, *sub)
        obs.append((f'OG/step.{name}.preserves_invariant', [P, inv, guard], inv2))
    returned = sys_.v['pcM'] >= len(sys_.main)
    obs.append(('OG/post.returned_implies_file_complete_and_workers_parked', [P, inv, returned], sys_.post()))
    # deadlock freedom: before the return some step is enabled
    obs.append(('OG/deadlock_freedom', [P, inv, z3.Not(returned)], z3.Or(*[g for (_, g, _) in steps])))
    # after the return no step at all is enabled (nothing can be written later)
    obs.append(('OG/quiescence_after_return', [P, inv, returned], z3.Not(z3.Or(*[g for (_, g, _) in steps]))))
    # variant: steps remaining = (#main ops - pcM) + (N - p) + sum over workers of ops remaining; decreases by 1 each step
    v = sys_.v
    nC, nW = len(cloop), len(wloop)
    var = (len(sys_.main) - v['pcM']) + (sys_.N - v['p']) \
        + nC * (sys_.N - itC) - (v['pcC'] - len(cpre)) + (1 - v['sC']) * 0 \
        + nW * (sys_.N - itW) - z3.If(v['pcW'] >= len(wpre), v['pcW'] - len(wpre), 0) + z3.If(v['pcW'] < len(wpre), len(wpre) - v['pcW'], 0)
    obs.append(('OG/variant.nonnegative', [P, inv], var >= 0))
    for (name, guard, upd) in steps:
        var2 = prime(sys_, var, upd)
        sub = []
        if name.startswith('C.') and int(name.rsplit('@', 1)[1]) == len(cpre) + len(cloop) - 1:
            sub.append((itC, itC + 1))
        if name.startswith('W.') and int(name.rsplit('@', 1)[1]) == len(wpre) + len(wloop) - 1:
            sub.append((itW, itW + 1))
        if sub:
            var2 = z3.substitute(var2, *sub)
        obs.append((f'OG/variant.{name}.decreases', [P, inv, guard], var2 < var))
    return obs, sys_


def bmc(sys_, nmax=3, kmax=2, depth=60):
    """bounded search for a REACHABLE bad state (used only to give a violation a concrete schedule)"""
    steps = sys_.steps()
    for N in range(1, nmax + 1):
        for K in range(1, kmax + 1):
            s = z3.Solver()
            s.set('timeout', 20000)
            s.add(sys_.N == N, sys_.K1 == K, sys_.K2 == K)
            frames = [{n: z3.Int(f'{n}_0') for n in System.VARS}]
            s.add(*[frames[0][n] == 0 for n in System.VARS])
            choice = []
            for d in range(depth):
                cur_, nxt = frames[-1], {n: z3.Int(f'{n}_{d+1}') for n in System.VARS}
                ch = z3.Int(f'ch_{d}')
                choice.append(ch)
                alts = []
                sub0 = [(sys_.v[n], cur_[n]) for n in System.VARS]
                for si, (name, guard, upd) in enumerate(steps):
                    g = z3.substitute(guard, *sub0)
                    eqs = [nxt[n] == z3.substitute(upd.get(n, sys_.v[n]), *sub0) for n in System.VARS]
                    alts.append(z3.And(ch == si, g, *eqs))
                # stutter when nothing is enabled (to let `returned` states persist)
                alts.append(z3.And(ch == -1, *[nxt[n] == cur_[n] for n in System.VARS]))
                s.add(z3.Or(*alts))
                frames.append(nxt)
            last = frames[-1]
            returned = last['pcM'] >= len(sys_.main)
            bad = z3.Or(last['late'] == 1, last['ooo'] == 1, z3.And(returned, z3.Or(last['w'] != N, last['hw'] != 1)))
            # deadlock: not returned and only stutters possible at some frame
            s.push()
            s.add(bad)
            if s.check() == z3.sat:
                m = s.model()
                sched = [steps[m.eval(c).as_long()][0] for c in choice if m.eval(c).as_long() >= 0]
                return {'N': N, 'K': K, 'schedule': sched,
                        'final': {n: m.eval(last[n]).as_long() for n in System.VARS}}
            s.pop()
    return None
