"""Run the verification of a set of contracts (one worker process per function under contract)."""
import importlib
import json
import multiprocessing as mp
import os
import sys
import time
import traceback

from .frontend import Program
from . import contract as C


def load_contracts():
    import contracts  # noqa: F401  (package /verif/contracts registers everything on import)
    return C.REGISTRY


class ModularSet:
    def __init__(self, scoped, general):
        self.scoped, self.general = scoped, general

    def pick(self, current_fuc):
        for con in self.scoped:
            if current_fuc and any(current_fuc.endswith(o) for o in con.only_in):
                return con
        return self.general


def make_interp(prog):
    from .symex import Interp
    from .stdlib import Stdlib
    reg = load_contracts()
    # call-site contracts per function: scoped views (only_in = names of the callers they are valid in) are all kept;
    # of the unscoped ones the last registered is THE call-site contract of the function
    modular = {}
    for key, cons in reg.items():
        scoped = [con for con in cons if con.modular and getattr(con, 'only_in', None)]
        general = [con for con in cons if con.modular and not getattr(con, 'only_in', None)]
        if scoped or general:
            modular[key] = ModularSet(scoped, general[-1] if general else None)
    lib = Stdlib()
    try:
        from contracts import models_ext
        models_ext.register(lib)       # assumed contracts of segyio handles etc. live next to the contracts that use them
    except ImportError:
        pass
    interp = Interp(prog, contracts=modular, stdlib=lib)
    from . import loops
    loops.install(interp, reg)
    return interp


def verify_one(args):
    key, variant_idx, timeout_ms, repo = args
    t0 = time.time()
    try:
        prog = Program(repo)
        interp = make_interp(prog)
        con = C.REGISTRY[key][variant_idx]
        ex, finfo = con.verify(interp, prog, timeout_ms=timeout_ms)
        res = {
            'fuc': con.fuc_name(), 'key': key, 'props': list(con.props), 'contract': con.name,
            'file': f'seismic_zfp/{finfo.module}.py' if finfo else None,
            'span': list(finfo.span) if finfo else None, 'sha256': finfo.sha256 if finfo else None,
            'paths': ex.paths, 'outcomes': ex.outcomes, 'undecided': ex.undecided,
            'vacuous': getattr(ex, 'vacuous', False),
            'dropped': ex.dropped, 'solver_s': round(ex.solver_s, 3), 'wall_s': round(time.time() - t0, 3),
            'axioms': sorted(getattr(ex, 'axioms', set())),
            'obligations': [o.to_json() for o in ex.obligations],
            'known_hits': ex.known_hits,
            'called': sorted(interp.called),
        }
        return res
    except (Exception, SystemExit) as e:   # engine crash / unparsable source: never a violation (and never a dead pool worker: pool.map would wait for ever)
        return {'fuc': key, 'key': key, 'crash': f'{type(e).__name__}: {e}', 'trace': traceback.format_exc(),
                'obligations': [], 'undecided': [], 'props': [], 'wall_s': round(time.time() - t0, 3)}


def verify_keys(jobs, timeout_ms=20000, repo=None, procs=None):
    """jobs: list of (key, variant_idx)."""
    repo = repo or os.environ.get('VERIF_REPO', '/repo')
    work = [(k, v, timeout_ms, repo) for (k, v) in jobs]
    procs = procs or min(int(os.environ.get('PYVC_PROCS', '14')), max(1, len(work)))
    if procs == 1 or len(work) == 1:
        return [verify_one(w) for w in work]
    # one fresh process per job: the verdict of a job must not depend on which jobs ran before it in the same worker
    with mp.get_context('fork').Pool(procs, maxtasksperchild=1) as pool:
        return pool.map(verify_one, work, chunksize=1)


def jobs_for_property(prop):
    reg = load_contracts()
    # a property stated as "the guarantees of other properties, for every ..." takes their contract sets too (props/<id>.py: INCLUDES)
    props = {prop}
    try:
        import importlib
        props |= set(getattr(importlib.import_module(f'props.{prop}'), 'INCLUDES', ()))
    except ImportError:
        pass
    jobs = []
    for key, cons in sorted(reg.items()):
        for i, con in enumerate(cons):
            if props & set(con.props):
                jobs.append((key, i))
    return jobs


if __name__ == '__main__':
    sys.path.insert(0, os.path.dirname(os.path.dirname(os.path.abspath(__file__))))
    reg = load_contracts()
    sel = sys.argv[1:] or None
    jobs = []
    for key, cons in sorted(reg.items()):
        for i, con in enumerate(cons):
            if sel is None or any(s in key or s in con.props or s == con.name for s in sel):
                jobs.append((key, i))
    t0 = time.time()
    results = verify_keys(jobs, procs=int(os.environ.get('PYVC_PROCS', '16')))
    tot = dis = vio = und = 0
    for r in results:
        if 'crash' in r:
            print('CRASH', r['fuc'], r['crash'])
            print(r['trace'])
            continue
        obs = r['obligations']
        d = sum(1 for o in obs if o['status'] == 'discharged')
        v = [o for o in obs if o['status'] == 'violated']
        u = [o for o in obs if o['status'] == 'undecided']
        tot += len(obs); dis += d; vio += len(v); und += len(u) + len(r['undecided'])
        print(f"{r['fuc']:70s} paths={r['paths']:4d} obl={len(obs):4d} ok={d:4d} viol={len(v)} undec={len(u)+len(r['undecided'])} "
              f"{r['wall_s']}s outcomes={r['outcomes']}")
        for o in v:
            print('   VIOLATED', o['name'], o.get('model'), o.get('path'))
        for o in u:
            print('   UNDECIDED', o['name'], o.get('reason'))
        for x in r['undecided']:
            print('   UNSUPPORTED', x)
        if r.get('vacuous'):
            print('   VACUOUS precondition!')
    print(f'total obligations={tot} discharged={dis} violated={vio} undecided={und} wall={time.time()-t0:.1f}s')
