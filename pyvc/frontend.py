"""Front end: re-reads the repository source with `ast` on every run.

Nothing here imports seismic_zfp.  The table built is:
  modules[modname] = ModuleInfo(path, tree, functions, classes, constants, imports)
Functions under contract are looked up by 'module.py::qualname' and carry the sha256 of
their source segment so evidence can show exactly which text was verified.
"""
import ast
import hashlib
import os

REPO = os.environ.get('VERIF_REPO', '/repo')
PKG = 'seismic_zfp'


class FuncInfo:
    def __init__(self, module, qualname, node, cls=None, src=''):
        self.module = module          # 'utils'
        self.qualname = qualname      # 'pad' or 'SgzReader.read_inline'
        self.node = node
        self.cls = cls                # ClassInfo or None
        self.src = src
        self.sha256 = hashlib.sha256(src.encode()).hexdigest()
        self.decorators = [ast.unparse(d) for d in node.decorator_list]
        self.is_static = any(d == 'staticmethod' for d in self.decorators)
        self.is_lru = any(d.startswith('lru_cache') for d in self.decorators)

    @property
    def key(self):
        return f'{PKG}/{self.module}.py::{self.qualname}'

    @property
    def span(self):
        return (self.node.lineno, self.node.end_lineno)

    def __repr__(self):
        return f'<Func {self.key}>'


class ClassInfo:
    def __init__(self, module, name, node):
        self.module = module
        self.name = name
        self.node = node
        self.base_exprs = [ast.unparse(b) for b in node.bases]
        self.bases = []               # resolved ClassInfo (repo classes only)
        self.ext_bases = []           # names of external bases
        self.methods = {}
        self.class_attrs = {}

    def mro(self):
        out = [self]
        for b in self.bases:
            for c in b.mro():
                if c not in out:
                    out.append(c)
        return out

    def find_method(self, name):
        for c in self.mro():
            if name in c.methods:
                return c.methods[name]
        return None

    def is_subclass_of(self, other_name):
        return any(c.name == other_name for c in self.mro()) or other_name in self.all_ext_bases()

    def all_ext_bases(self):
        out = []
        for c in self.mro():
            out += c.ext_bases
        return out

    def __repr__(self):
        return f'<Class {self.module}.{self.name}>'


class ModuleInfo:
    def __init__(self, name, path):
        self.name = name
        self.path = path
        with open(path) as f:
            self.source = f.read()
        self.sha256 = hashlib.sha256(self.source.encode()).hexdigest()
        self.tree = ast.parse(self.source, filename=path)
        self.functions = {}
        self.classes = {}
        self.constants = {}           # name -> python constant (int/str/dict/tuple of constants)
        self.imports = {}             # local name -> ('repo', module, name) | ('ext', dotted)
        self._scan()

    def _scan(self):
        for node in self.tree.body:
            if isinstance(node, ast.FunctionDef):
                src = ast.get_source_segment(self.source, node) or ''
                self.functions[node.name] = FuncInfo(self.name, node.name, node, None, src)
            elif isinstance(node, ast.ClassDef):
                ci = ClassInfo(self.name, node.name, node)
                for sub in node.body:
                    if isinstance(sub, ast.FunctionDef):
                        src = ast.get_source_segment(self.source, sub) or ''
                        ci.methods[sub.name] = FuncInfo(self.name, f'{node.name}.{sub.name}', sub, ci, src)
                    elif isinstance(sub, ast.Assign) and len(sub.targets) == 1 and isinstance(sub.targets[0], ast.Name):
                        try:
                            ci.class_attrs[sub.targets[0].id] = ast.literal_eval(sub.value)
                        except Exception:
                            ci.class_attrs[sub.targets[0].id] = sub.value
                self.classes[node.name] = ci
            elif isinstance(node, ast.Assign):
                if len(node.targets) == 1 and isinstance(node.targets[0], ast.Name):
                    try:
                        self.constants[node.targets[0].id] = ast.literal_eval(node.value)
                    except Exception:
                        pass
            elif isinstance(node, ast.ImportFrom):
                for a in node.names:
                    local = a.asname or a.name
                    if node.level >= 1:
                        self.imports[local] = ('repo', node.module, a.name)
                    elif node.module and node.module.startswith(PKG):
                        sub = node.module[len(PKG):].lstrip('.')
                        self.imports[local] = ('repo', sub or None, a.name)
                    else:
                        self.imports[local] = ('ext', f'{node.module}.{a.name}')
            elif isinstance(node, ast.Import):
                for a in node.names:
                    local = a.asname or a.name.split('.')[0]
                    self.imports[local] = ('ext', a.name if a.asname else a.name.split('.')[0])
            elif isinstance(node, ast.Try):
                # optional imports (azure, pyzgy, pyvds): names bound to ext or None
                for sub in ast.walk(node):
                    if isinstance(sub, ast.ImportFrom):
                        for a in sub.names:
                            self.imports[a.asname or a.name] = ('ext', f'{sub.module}.{a.name}')
                    elif isinstance(sub, ast.Import):
                        for a in sub.names:
                            self.imports[a.asname or a.name.split('.')[0]] = ('ext', a.name)


class Program:
    def __init__(self, repo=None):
        self.repo = repo or REPO
        self.modules = {}
        pkgdir = os.path.join(self.repo, PKG)
        for fn in sorted(os.listdir(pkgdir)):
            if fn.endswith('.py'):
                name = fn[:-3]
                try:
                    self.modules[name] = ModuleInfo(name, os.path.join(pkgdir, fn))
                except SyntaxError as e:
                    raise SystemExit(f'CHECKER-ERROR cannot parse {fn}: {e}')
        self._link()

    def _link(self):
        for m in self.modules.values():
            for c in m.classes.values():
                for b in c.base_exprs:
                    tgt = self.resolve_name(m, b.split('.')[-1]) if '.' not in b else None
                    if isinstance(tgt, ClassInfo):
                        c.bases.append(tgt)
                    else:
                        c.ext_bases.append(b)

    def resolve_name(self, module, name):
        """Resolve a bare name used in `module` to a repo entity, constant, or ('ext', dotted)."""
        if name in module.functions:
            return module.functions[name]
        if name in module.classes:
            return module.classes[name]
        if name in module.constants:
            return ('const', module.constants[name])
        if name in module.imports:
            imp = module.imports[name]
            if imp[0] == 'repo':
                _, sub, nm = imp
                if sub is None:
                    # from seismic_zfp import x  /  from . import x
                    if nm in self.modules:
                        return ('module', self.modules[nm])
                    return None
                target = self.modules.get(sub)
                if target is None:
                    return None
                if nm in target.functions or nm in target.classes or nm in target.constants:
                    return self.resolve_name(target, nm)
                if nm in target.imports:
                    return self.resolve_name(target, nm)
                return None
            return imp
        return None

    def function(self, key):
        """key: 'utils.py::pad' or 'seismic_zfp/utils.py::pad' or 'read.py::SgzReader.read_inline'"""
        path, qual = key.split('::')
        mod = os.path.basename(path)[:-3]
        m = self.modules.get(mod)
        if m is None:
            return None
        if '.' in qual:
            cname, fname = qual.split('.', 1)
            c = m.classes.get(cname)
            if c is None:
                return None
            return c.methods.get(fname)
        return m.functions.get(qual)

    def klass(self, name):
        for m in self.modules.values():
            if name in m.classes:
                return m.classes[name]
        return None
