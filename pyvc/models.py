"""Registration of modelled builtins / library functions (the assumed contracts, DESIGN appendix A)."""
import z3

from . import values as V
from .values import (Unsupported, PyRaise, SInt, SFloat, SBool, STok, SObj, SRange, SSlice, SExc, is_sym, is_num,
                     is_intlike, is_floatlike, ops_binop, ops_cmp, mk_bool, mk_int, mk_float, zint, zbool, zreal,
                     cur, Ite, Min, Max, And, Or, Not, slice_bounds, ite_val)
from .symex import ExtRef, ModelMethod, BoundMethod, TaggedInt, untag, BUILTIN_EXC
from .frontend import FuncInfo, ClassInfo
from . import npmodel as NP
from . import bytesmodel as BM


def use_axiom(ax):
    c = cur()
    c.ex.__dict__.setdefault('axioms', set()).add(ax)


def register(lib):
    E = lib.ext
    M = lib.methods

    # ------------------------------------------------------------------ builtins
    def b_len(I, x):
        x = untag(x)
        if isinstance(x, (list, tuple, dict, str, set, bytes, range)):
            return len(x)
        if isinstance(x, SRange):
            return x.length()
        if isinstance(x, NP.SArray):
            if not x.shape:
                raise PyRaise('TypeError', 'len() of unsized object')
            return x.shape[0]
        if isinstance(x, NP.MaskedArray):
            return x.shape[0]
        if isinstance(x, SymIntSet):
            return x.n
        if isinstance(x, BM.BytesBase):
            return x.length
        if isinstance(x, SymSeq):
            return x.length
        if isinstance(x, SObj):
            if (x.clsname, '__len__') in M:
                return M[(x.clsname, '__len__')](I, x)
            if x.cls is not None:
                m = x.cls.find_method('__len__')
                if m is not None:
                    return I.call_repo(m, [], {}, self_obj=x)
        if x is None:
            raise PyRaise('TypeError', 'len(None)')
        raise Unsupported(f'len of {type(x).__name__}')
    E['len'] = b_len

    def b_int(I, x=0, base=None):
        x = untag(x)
        if isinstance(x, (bool, int)):
            return int(x)
        if isinstance(x, float):
            try:
                return int(x)
            except (OverflowError, ValueError):
                raise PyRaise('ValueError')
        if isinstance(x, SInt):
            return SInt(x.z)
        if isinstance(x, SBool):
            return mk_int(zint(x))
        if isinstance(x, SFloat):
            return NP.trunc_float(x)
        if isinstance(x, str):
            try:
                return int(x)
            except ValueError:
                raise PyRaise('ValueError')
        if isinstance(x, NPScalar):
            return b_int(I, x.value)
        raise Unsupported(f'int() of {type(x).__name__}')
    E['int'] = b_int

    def b_float(I, x=0.0):
        x = untag(x)
        if isinstance(x, (bool, int, float)):
            return float(x)
        if isinstance(x, SInt):
            return mk_float(z3.ToReal(x.z))
        if isinstance(x, SFloat):
            return x
        if isinstance(x, str):
            try:
                return float(x)
            except ValueError:
                raise PyRaise('ValueError')
        if isinstance(x, SymStr):
            return x.as_float()
        raise Unsupported(f'float() of {type(x).__name__}')
    E['float'] = b_float

    def b_bool(I, x=False):
        return I_truth(I, x)
    E['bool'] = b_bool

    def I_truth(I, x):
        fr = _frame(I)
        return fr.truth(x)

    def _frame(I):
        from .symex import Frame
        some = next(iter(I.prog.modules.values()))
        anyf = next(iter(some.functions.values()), None)
        if anyf is None:
            for m in I.prog.modules.values():
                if m.functions:
                    anyf = next(iter(m.functions.values()))
                    break
        return Frame(I, anyf, {})

    def b_str(I, x=''):
        if isinstance(x, str):
            return x
        if isinstance(x, (int, float)) and not isinstance(x, bool):
            return str(x)
        return '<str>'
    E['str'] = b_str
    E['repr'] = b_str

    def b_abs(I, x):
        x = untag(x)
        if is_sym(x):
            if isinstance(x, SInt):
                return abs(x)
            return mk_float(z3.If(x.z >= 0, x.z, -x.z))
        return abs(x)
    E['abs'] = b_abs

    def _minmax(I, args, kwargs, is_min):
        if len(args) == 1:
            items = lib.concrete_iter(I, args[0])
            if items is None:
                a = untag(args[0])
                if isinstance(a, SymIntSet):
                    return a.min() if is_min else a.max()
                raise Unsupported('min/max of symbolic-length iterable')
        else:
            items = list(args)
        if not items:
            raise PyRaise('ValueError', 'min/max of empty')
        r = untag(items[0])
        for x in items[1:]:
            x = untag(x)
            if is_sym(r) or is_sym(x):
                # resolve the comparison from the path condition when possible (keeps terms free of conditionals)
                c = cur()
                le_ = ops_cmp('<=', r, x)
                if c.prove(le_):
                    r = r if is_min else x
                    continue
                if c.prove(ops_cmp('>=', r, x)):
                    r = x if is_min else r
                    continue
            r = Min(r, x) if is_min else Max(r, x)
        return r
    E['min'] = lambda I, *a, **k: _minmax(I, a, k, True)
    E['max'] = lambda I, *a, **k: _minmax(I, a, k, False)

    def b_sum(I, it, start=0):
        items = lib.concrete_iter(I, it)
        if items is None:
            raise Unsupported('sum of symbolic-length iterable')
        r = start
        for x in items:
            x = untag(x)
            if isinstance(x, (SBool, bool)):
                x = mk_int(zint(x)) if is_sym(x) else int(x)
            r = ops_binop('+', r, x)
        return r
    E['sum'] = b_sum

    def b_all(I, it):
        it = untag(it)
        if isinstance(it, NP.SArray):
            return np_all(I, it)
        items = lib.concrete_iter(I, it)
        if items is None:
            raise Unsupported('all of symbolic-length iterable')
        fr = _frame(I)
        for x in items:
            if not fr.truth(x):
                return False
        return True
    E['all'] = b_all

    def b_any(I, it):
        items = lib.concrete_iter(I, it)
        if items is None:
            raise Unsupported('any of symbolic-length iterable')
        fr = _frame(I)
        for x in items:
            if fr.truth(x):
                return True
        return False
    E['any'] = b_any

    def b_isinstance(I, x, cls):
        if isinstance(cls, tuple):
            return any(b_isinstance(I, x, c) for c in cls)
        if isinstance(cls, ClassInfo):
            if isinstance(x, SObj):
                return x.cls is not None and cls in x.cls.mro()
            if isinstance(x, TaggedInt):
                return x.tag == cls.name
            if isinstance(x, SExc):
                return V.exc_isinstance(x.cls, cls.name)
            from .stdlib import EnumMember
            if isinstance(x, EnumMember):
                return x.enum == cls.name
            return False
        if isinstance(cls, ExtRef):
            n = cls.dotted
            xx = untag(x)
            if n == 'int':
                return isinstance(x, TaggedInt) or (isinstance(xx, (int, SInt, bool)) and not isinstance(xx, float))
            if n == 'float':
                return isinstance(xx, (float, SFloat))
            if n == 'str':
                return isinstance(xx, (str, SymStr))
            if n == 'bool':
                return isinstance(xx, (bool, SBool))
            if n == 'tuple':
                return isinstance(xx, tuple)
            if n == 'list':
                return isinstance(xx, list)
            if n == 'dict':
                return isinstance(xx, dict)
            if n == 'slice':
                return isinstance(xx, SSlice)
            if n in ('numpy.ndarray',):
                return isinstance(xx, NP.SArray)
            if n in ('bytes', 'bytearray'):
                return isinstance(xx, (bytes, BM.BytesBase))
            raise Unsupported(f'isinstance(_, {n})')
        raise Unsupported('isinstance with unknown class object')
    E['isinstance'] = b_isinstance

    def b_hasattr(I, x, name):
        if isinstance(x, SObj):
            if x.clsname == '$file' and name in ('download_blob', 'blob_name'):
                return bool(x.fields.get('blob'))          # the engine's file object also models blob clients
            if x.clsname == '$file' and name == 'read':
                return not x.fields.get('blob')
            if name in x.fields:
                return True
            if x.cls is not None and x.cls.find_method(name) is not None:
                return True
            return (x.clsname, name) in M
        return False
    E['hasattr'] = b_hasattr

    def b_range(I, *a):
        a = [untag(x) for x in a]
        for x in a:
            if is_floatlike(x):
                raise PyRaise('TypeError', 'range() float argument')
            if x is None or isinstance(x, str):
                raise PyRaise('TypeError', 'range() argument')
        if len(a) == 1:
            return SRange(0, a[0], 1)
        if len(a) == 2:
            return SRange(a[0], a[1], 1)
        if not is_sym(a[2]) and a[2] == 0:
            raise PyRaise('ValueError', 'range() arg 3 must not be zero')
        if is_sym(a[2]) and cur().decide(zint(a[2]) == 0):
            raise PyRaise('ValueError', 'range() arg 3 must not be zero')
        return SRange(a[0], a[1], a[2])
    E['range'] = b_range

    def b_tuple(I, it=()):
        items = lib.concrete_iter(I, it)
        if items is None:
            raise Unsupported('tuple() of symbolic-length iterable')
        return tuple(items)
    E['tuple'] = b_tuple

    def b_list(I, it=()):
        it = untag(it)
        items = lib.concrete_iter(I, it)
        if items is None:
            if isinstance(it, (SRange, NP.SArray)):
                return SymSeq.from_indexable(it, lib)
            raise Unsupported('list() of symbolic-length iterable')
        return list(items)
    E['list'] = b_list

    def b_sorted(I, it, key=None, reverse=False):
        items = lib.concrete_iter(I, it)
        if items is None or key is not None:
            raise Unsupported('sorted() symbolic')
        its = [untag(x) for x in items]
        if any(is_sym(x) for x in its) or any(isinstance(x, tuple) and any(is_sym(y) for y in x) for x in its):
            raise Unsupported('sorted() of symbolic values')
        try:
            return sorted(items, key=lambda x: sort_key(x), reverse=reverse)
        except TypeError:
            raise Unsupported('sorted() of unorderable values')
    E['sorted'] = b_sorted

    def sort_key(x):
        from .stdlib import EnumMember
        if isinstance(x, tuple):
            return tuple(sort_key(y) for y in x)
        if isinstance(x, EnumMember):
            return x.value
        return x

    def b_set(I, it=()):
        it = untag(it)
        items = lib.concrete_iter(I, it)
        if items is None:
            raise Unsupported('set() of symbolic-length iterable')
        out = []
        for x in items:
            h = lib.hashable(x)
            if h not in out:
                out.append(h)
        return set(out) if all(_hashable_py(x) for x in out) else out
    E['set'] = b_set

    def _hashable_py(x):
        try:
            hash(x)
            return True
        except TypeError:
            return False

    def b_zip(I, *its):
        seqs = [lib.concrete_iter(I, it) for it in its]
        if any(s is None for s in seqs):
            raise Unsupported('zip of symbolic-length iterable')
        return [tuple(t) for t in zip(*seqs)]
    E['zip'] = b_zip

    def b_map(I, fn, *its):
        seqs = [lib.concrete_iter(I, it) for it in its]
        if any(s is None for s in seqs):
            raise Unsupported('map over symbolic-length iterable')
        return [I.call_value(fn, list(t), {}) for t in zip(*seqs)]
    E['map'] = b_map

    def b_enumerate(I, it, start=0):
        seq = lib.concrete_iter(I, it)
        if seq is None:
            return SymEnumerate(it, start)
        return [(ops_binop('+', start, k), x) for k, x in enumerate(seq)]
    E['enumerate'] = b_enumerate

    def slice_indices(I, sl, n):
        """slice.indices(n) as CPython computes it (PySlice_AdjustIndices) -- exact, forks on the sign of the step"""
        n = untag(n)
        step = 1 if sl.step is None else untag(sl.step)
        if not is_sym(step) and step == 0:
            raise PyRaise('ValueError', 'slice step cannot be zero')
        if is_sym(step) and cur().decide(zint(step) == 0):
            raise PyRaise('ValueError', 'slice step cannot be zero')
        pos = ops_cmp('>', step, 0)
        pos = pos if isinstance(pos, bool) else cur().decide(zbool(pos))
        lower = 0 if pos else -1
        upper = n if pos else ops_binop('-', n, 1)

        def adj(v, default):
            if v is None:
                return default
            v = untag(v)
            v2 = Ite(ops_cmp('<', v, 0), Max(ops_binop('+', v, n), lower), Min(v, upper))
            return v2
        start = adj(sl.start, lower if pos else upper)
        stop = adj(sl.stop, upper if pos else lower)
        if sl.start is None:
            start = 0 if pos else ops_binop('-', n, 1)
        if sl.stop is None:
            stop = n if pos else -1
        return (start, stop, step)
    M[('SSlice', 'indices')] = slice_indices

    def b_iter(I, it):
        return it
    E['iter'] = b_iter

    def symseq_getitem(I, seq, k):
        return seq.item(lib.norm_index(k, seq.length))
    M[('SymSeq', '__getitem__')] = symseq_getitem

    def b_slice(I, *a):
        if len(a) == 1:
            return SSlice(None, a[0], None)
        if len(a) == 2:
            return SSlice(a[0], a[1], None)
        return SSlice(a[0], a[1], a[2])
    E['slice'] = b_slice

    def b_dict(I, *a, **k):
        if a:
            src = a[0]
            if isinstance(src, dict):
                d = dict(src)
            else:
                d = {lib.hashable(kk): vv for kk, vv in lib.concrete_iter(I, src)}
        else:
            d = {}
        d.update(k)
        return d
    E['dict'] = b_dict
    E['collections.OrderedDict'] = b_dict

    def od_fromkeys(I, keys, value=None):
        items = lib.concrete_iter(I, keys)
        if items is None:
            raise Unsupported('fromkeys symbolic')
        return {lib.hashable(k): value for k in items}
    E['collections.OrderedDict.fromkeys'] = od_fromkeys

    def b_bytes(I, x=b'', *a):
        x = untag(x)
        if isinstance(x, BM.BytesBase):
            s = x.snapshot()
            if isinstance(s, BM.SByteArray):
                s.mutable = False
            return s
        if isinstance(x, bytes):
            return BM.concrete_bytes(x)
        if is_intlike(x):
            if is_floatlike(x):
                raise PyRaise('TypeError')
            if not is_sym(x):
                if x < 0:
                    raise PyRaise('ValueError', 'negative count')
            elif cur().decide(zint(x) < 0):
                raise PyRaise('ValueError', 'negative count')
            return BM.zeros(x)
        if is_floatlike(x):
            raise PyRaise('TypeError', 'bytes(float)')
        raise Unsupported(f'bytes() of {type(x).__name__}')
    E['bytes'] = b_bytes

    def b_bytearray(I, x=0, *a, **kw):
        x = untag(x)
        if isinstance(x, str):
            raise Unsupported('bytearray(str, encoding)')
        b = b_bytes(I, x)
        if isinstance(b, BM.SByteArray):
            r = b.snapshot()
            r.mutable = True
            return r
        return BM.SByteArray(b)
    E['bytearray'] = b_bytearray

    M[('bytes', 'copy')] = lambda I, b: b_bytearray(I, b) if b.mutable else b
    M[('bytes', 'hex')] = lambda I, b: SymStr('hex', b)

    def ba_len(I, b):
        return b.length

    # ------------------------------------------------------------------ containers' methods
    M[('list', 'append')] = lambda I, l, x: l.append(x)
    M[('list', 'index')] = lambda I, l, x: _list_index(l, x)
    M[('list', 'copy')] = lambda I, l: list(l)
    M[('list', 'extend')] = lambda I, l, x: l.extend(lib.concrete_iter(I, x))

    def _list_index(l, x):
        for i, y in enumerate(l):
            if lib.key_eq(y, x):
                return i
        raise PyRaise('ValueError')

    M[('dict', 'items')] = lambda I, d: [(k, v) for k, v in d.items()]
    M[('dict', 'keys')] = lambda I, d: list(d.keys())
    M[('dict', 'values')] = lambda I, d: list(d.values())
    M[('dict', 'copy')] = lambda I, d: dict(d)
    M[('dict', 'clear')] = lambda I, d: d.clear()
    M[('dict', 'get')] = lambda I, d, k, default=None: d.get(lib.hashable(k), default)
    M[('dict', 'update')] = lambda I, d, o: d.update(o)
    M[('dict', 'setdefault')] = lambda I, d, k, v=None: d.setdefault(lib.hashable(k), v)
    M[('str', 'format')] = lambda I, s, *a, **k: '<fmt>'
    M[('str', 'join')] = lambda I, s, it: '<str>'
    M[('str', 'lower')] = lambda I, s: s.lower()
    M[('str', 'strip')] = lambda I, s, *a: s.strip(*a)
    M[('str', 'split')] = lambda I, s, *a: s.split(*a)
    M[('str', 'replace')] = lambda I, s, a, b: s.replace(a, b)
    M[('str', 'startswith')] = lambda I, s, a: s.startswith(a)
    M[('str', 'endswith')] = lambda I, s, a: s.endswith(a)

    # ------------------------------------------------------------------ struct
    RANGES = {'<I': (0, 2**32 - 1), '<i': (-2**31, 2**31 - 1), '<H': (0, 65535), '<h': (-32768, 32767),
              '>H': (0, 65535), '>h': (-32768, 32767), '>I': (0, 2**32 - 1), '>i': (-2**31, 2**31 - 1)}

    def struct_pack(I, fmt, v):
        use_axiom('AX-STRUCT')
        v = untag(v)
        if isinstance(v, NPScalar):
            v = v.value      # numpy ints implement __index__
        if fmt == '<d':
            if not is_num(v):
                raise PyRaise('struct.error')
            return BM.Packed(fmt, v)
        if fmt not in RANGES:
            raise Unsupported(f'struct format {fmt}')
        if is_floatlike(v) or v is None or isinstance(v, (str, STok)):
            raise PyRaise('struct.error', 'required argument is not an integer')
        lo, hi = RANGES[fmt]
        ok = And(ops_cmp('>=', v, lo), ops_cmp('<=', v, hi))
        if not (ok is True or (ok is not False and cur().decide(zbool(ok)))):
            raise PyRaise('struct.error', 'argument out of range')
        return BM.Packed(fmt, v)
    E['struct.pack'] = struct_pack

    def struct_unpack(I, fmt, b):
        use_axiom('AX-STRUCT')
        b = untag(b)
        if isinstance(b, bytes):
            import struct as _s
            try:
                return _s.unpack(fmt, b)
            except _s.error:
                raise PyRaise('struct.error')
        if not isinstance(b, BM.BytesBase):
            raise PyRaise('TypeError', 'a bytes-like object is required')
        size = BM.Packed.SIZES.get(fmt)
        if size is None:
            raise Unsupported(f'struct format {fmt}')
        leq = ops_cmp('==', b.length, size)
        if not (leq is True or (leq is not False and cur().decide(zbool(leq)))):
            raise PyRaise('struct.error', 'unpack requires a buffer of n bytes')
        return (decode_word(b, fmt),)
    E['struct.unpack'] = struct_unpack

    def decode_word(b, fmt):
        size = BM.Packed.SIZES[fmt]
        if isinstance(b, BM.Packed):
            if b.fmt == fmt:
                return b.value
            if size == b.length and fmt[0] == b.fmt[0] and fmt != '<d' and b.fmt != '<d':
                # reinterpret signedness
                bits = size * 8
                return NP.wrap_int(b.value, bits, signed=fmt[1].islower())
            raise Unsupported(f'unpack {fmt} of Packed {b.fmt}')
        if isinstance(b, BM.SBytes) and b.origin and b.origin[0] == 'zeros':
            return 0.0 if fmt == '<d' else 0
        r = BM.contiguous_file_range(b, 0, size)
        if r is None:
            # all-zero bytes?
            c = cur()
            j = c.fresh_int('zj')
            t = b.tok(mk_int(j))
            if c.known(mk_bool(z3.Implies(z3.And(j >= 0, j < size), t.zk() == BM.K_ZERO))):
                return 0.0 if fmt == '<d' else 0
            raise Unsupported('unpack of bytes that are not a contiguous file range / packed word')
        kind, off = r
        c = cur()
        if not c.known(mk_bool(z3.Or(zint(kind) == BM.K_FILE, zint(kind) == BM.K_FILE2))):
            raise Unsupported('unpack of non-file bytes')
        if fmt == '<d':
            return mk_float(BM.F64(zint(kind), zint(off)))
        le = fmt[0] == '<'
        if size == 4:
            if not le:
                raise Unsupported('big-endian 4-byte file word')
            w = BM.U32(zint(kind), zint(off))
            c.assume_raw(z3.And(w >= 0, w < 2**32))
            return NP.wrap_int(mk_int(w), 32, signed=True) if fmt[1] == 'i' else mk_int(w)
        if size == 2:
            w = BM.U16(zint(kind), zint(off)) if le else BM.U16(zint(kind) + 100, zint(off))
            c.assume_raw(z3.And(w >= 0, w < 65536))
            return NP.wrap_int(mk_int(w), 16, signed=True) if fmt[1] == 'h' else mk_int(w)
        raise Unsupported('unpack size')
    lib.decode_word = decode_word

    def int_from_bytes(I, b, byteorder='big', signed=False):
        b = untag(b)
        if isinstance(b, bytes):
            return int.from_bytes(b, byteorder, signed=signed)
        n = b.length
        if not is_sym(n) and n > 8 and not signed:
            return BigIntOfBytes(b, byteorder)       # wide unsigned integers are opaque: only format(v, 'x') is understood
        if is_sym(n) or n not in (2, 4):
            raise Unsupported('int.from_bytes length')
        fmt = ('<' if byteorder == 'little' else '>') + {2: 'H', 4: 'I'}[n]
        if signed:
            fmt = fmt.lower()
        return decode_word(b, fmt)
    E['int.from_bytes'] = int_from_bytes

    def builtin_format(I, v, spec=''):
        v = untag(v)
        if isinstance(v, BigIntOfBytes) and spec == 'x' and v.byteorder == 'big':
            return SymStr('hexint', v.b)         # hexadecimal digits WITHOUT leading zeros: not bytes.hex() (two digits per byte)
        if isinstance(v, (int, float, str)) and not is_sym(v):
            return format(v, spec)
        raise Unsupported(f'format({type(v).__name__}, {spec!r})')
    E['format'] = builtin_format

    def int_to_bytes(I, v, length=1, byteorder='big', signed=False):
        fmt = ('<' if byteorder == 'little' else '>') + {1: 'B', 2: 'H', 4: 'I'}[length]
        if signed:
            fmt = fmt.lower()
        return BM.Packed(fmt, v)
    M[('int', 'to_bytes')] = int_to_bytes

    # ------------------------------------------------------------------ misc stdlib
    E['time.time'] = lambda I: cur().sym_float('time')

    def pkg_dist(I, name):
        o = SObj(None, clsname='$dist')
        o.fields['version'] = SymStr('version', name)
        return o
    E['pkg_resources.get_distribution'] = pkg_dist
    E['platform.system'] = lambda I: 'Linux'
    E['random.choice'] = lambda I, seq: lib.concrete_iter(I, seq)[0]
    E['os.path.exists'] = lambda I, p: cur().sym_bool('exists')
    E['operator.floordiv'] = lambda I, a, b: ops_binop('//', untag(a), untag(b))

    class _Mem:
        pass

    def psutil_vm(I):
        o = SObj(None, clsname='$vm')
        o.fields['total'] = cur().sym_int('memtotal', lo=1)
        return o
    E['psutil.virtual_memory'] = psutil_vm
    E['psutil.cpu_count'] = lambda I, logical=True: cur().sym_int('cpus', lo=1)

    def lru_cache(I, maxsize=128, typed=False):
        use_axiom('AX-LRU')

        def deco(fn):
            return fn
        return deco
    E['functools.lru_cache'] = lru_cache
    M[('function', 'cache_clear')] = lambda I, f: None

    # warnings.catch_warnings() context
    def catch_warnings(I):
        return SObj(None, clsname='$nullctx')
    E['warnings.catch_warnings'] = catch_warnings

    from . import models_np, models_io
    models_np.register(lib)
    models_io.register(lib)


class NPScalar:
    """numpy scalar (np.int32(x), result of arr[i] kept as python scalar otherwise)."""
    def __init__(self, value, dtype):
        self.value = value
        self.dtype = dtype


class BigIntOfBytes:
    """int.from_bytes(b, order) of more than 8 symbolic bytes"""
    def __init__(self, b, byteorder):
        self.b, self.byteorder = b, byteorder


class SymStr:
    """Opaque string-valued results (hex digests ...) and numeric strings (bits_per_voxel='0.5')."""
    def __init__(self, kind, payload):
        self.kind = kind
        self.payload = payload

    def as_float(self):
        if self.kind == 'numeric':
            return self.payload
        raise PyRaise('ValueError', 'could not convert string to float')


class SymIntSet:
    """set of ints {lo + k*step : 0 <= k < n} known only through (min, max, len)  (C08 get_range)."""
    def __init__(self, lo, hi, n):
        self.lo, self.hi, self.n = lo, hi, n

    def min(self):
        return self.lo

    def max(self):
        return self.hi


class SymEnumerate:
    def __init__(self, it, start):
        self.it = it
        self.start = start


class SymSeq:
    """python list of symbolic length: (length, item(k))"""
    def __init__(self, length, item):
        self.length = length
        self.item = item

    @staticmethod
    def from_indexable(x, lib):
        if isinstance(x, SRange):
            return SymSeq(x.length(), lambda k: x.item(k))
        return SymSeq(x.shape[0], lambda k: x.fn((k,)))
