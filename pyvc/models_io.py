"""File objects, thread pools, hashlib (AX-FILE, AX-POOL, AX-SHA1) and the ghost logs they feed.

Ghost state (in ctx.ghost):
  reads    list of ReadEvent(kind, off, n, guard, family)   -- every backend range read issued
  writes   list of WriteEvent(handle, pos|None, bytes)       -- every write on an output handle
  fault    z3 Bool: some read raised or returned short (environment choice, when enabled)
  swallowed list of exception classes captured by executor.submit and never re-raised
"""
import z3

from . import values as V
from .values import (Unsupported, PyRaise, SInt, SFloat, SBool, STok, SObj, SRange, SSlice, is_sym, is_num,
                     is_intlike, is_floatlike, ops_binop, ops_cmp, mk_bool, mk_int, zint, zbool, cur, Ite, Min, Max,
                     And, Or, Not)
from .symex import ExtRef, untag
from . import bytesmodel as BM
from . import npmodel as NP


def use_axiom(ax):
    cur().ex.__dict__.setdefault('axioms', set()).add(ax)


class ReadEvent:
    def __init__(self, kind, off, n, pc_len, loopvars=None):
        self.kind = kind
        self.off = off
        self.n = n
        self.pc_len = pc_len
        self.loopvars = loopvars or []      # [(z3 var, lo, hi)] when the event stands for a family


class WriteEvent:
    def __init__(self, handle, pos, data, loopvars=None):
        self.handle = handle
        self.pos = pos                      # None = at current position (append for fresh 'wb' handles)
        self.data = data
        self.loopvars = loopvars or []


def log_read(c, kind, off, n, extra_loopvars=()):
    """append a backend range read to the ghost log (family event when inside L3 loops / for contract summaries)"""
    from . import loops
    lv = [(v.z, v.n) for v in loops.active_vars()] + list(extra_loopvars)
    c.ghost.setdefault('reads', []).append(ReadEvent(kind, off, n, len(c.pc), loopvars=lv))


def new_file(kind, mode='rb', name='<file>', length=None):
    f = SObj(None, clsname='$file')
    f.fields.update(kind=kind, mode=mode, name=name, pos=0, closed=False, flen=length)
    return f


def register(lib):
    E = lib.ext
    M = lib.methods

    def f_seek(I, f, off, whence=0):
        off = untag(off)
        if is_floatlike(off):
            raise PyRaise('TypeError', 'seek offset float')
        if whence != 0:
            raise Unsupported('seek whence')
        neg = ops_cmp('<', off, 0)
        if neg is True or (neg is not False and cur().decide(zbool(neg))):
            raise PyRaise('OSError', 'negative seek position')
        f.fields['pos'] = off
        return off
    M[('$file', 'seek')] = f_seek

    def f_read(I, f, n=-1):
        use_axiom('AX-FILE')
        c = cur()
        n = untag(n)
        if is_floatlike(n):
            raise PyRaise('TypeError', 'read length float')
        if n is None or (not is_sym(n) and n < 0):
            raise Unsupported('read() to EOF')
        neg = ops_cmp('<', n, 0)
        if neg is not False and is_sym(n) and c.decide(zbool(neg)):
            raise Unsupported('read() with negative symbolic length (reads to EOF)')
        kind = f.fields['kind']
        pos = f.fields['pos']
        from . import loops
        c.ghost.setdefault('reads', []).append(ReadEvent(kind, pos, n, len(c.pc), loopvars=[(v.z, v.n) for v in loops.active_vars()]))
        mode = c.ghost.get('io_mode', 'reliable')
        if mode == 'faulty':
            # environment: may raise, may return short (AX-FILE weak form)
            k = c.choose(3, 'read outcome')
            if k == 1:
                c.ghost['fault'] = True
                raise PyRaise('OSError', 'I/O error (environment)')
            if k == 2:
                m = c.sym_int('shortlen', lo=0)
                c.assume(ops_cmp('<', m, n))
                c.ghost['fault'] = True
                f.fields['pos'] = ops_binop('+', pos, m)
                return BM.file_bytes(kind, pos, m)
        elif mode == 'truncated':
            # file has length L (ghost); a read crossing L is short (C18a)
            L = c.ghost['trunc_len']
            avail = Max(0, ops_binop('-', L, pos))
            m = Min(n, avail)
            f.fields['pos'] = ops_binop('+', pos, m)
            return BM.file_bytes(kind, pos, m)
        f.fields['pos'] = ops_binop('+', pos, n)
        return BM.file_bytes(kind, pos, n)
    M[('$file', 'read')] = f_read

    def f_write(I, f, data):
        use_axiom('AX-FILE')
        c = cur()
        data = untag(data)
        if isinstance(data, bytes):
            data = BM.concrete_bytes(data)
        if isinstance(data, NP.SArray):
            raise Unsupported('write of ndarray')
        if not isinstance(data, BM.BytesBase):
            raise PyRaise('TypeError', 'a bytes-like object is required')
        if 'r' in f.fields['mode'] and '+' not in f.fields['mode']:
            raise PyRaise('OSError', 'not writable')
        snap = data.snapshot()
        c.ghost.setdefault('writes', []).append(WriteEvent(f, f.fields['pos'], snap))
        f.fields['pos'] = ops_binop('+', f.fields['pos'], snap.length)
        return snap.length
    M[('$file', 'write')] = f_write

    M[('$file', 'close')] = lambda I, f: f.fields.__setitem__('closed', True)
    M[('$file', 'flush')] = lambda I, f: None
    M[('$file', '__enter__')] = lambda I, f: f
    M[('$file', '__exit__')] = lambda I, f, exc: f.fields.__setitem__('closed', True)
    M[('$nullctx', '__enter__')] = lambda I, f: f
    M[('$nullctx', '__exit__')] = lambda I, f, exc: None

    def b_open(I, name, mode='r', *a, **k):
        use_axiom('AX-FILE')
        c = cur()
        opened = c.ghost.setdefault('opened', [])
        f = new_file(kind=('out', len(opened)), mode=mode, name=name)
        if 'w' in mode:
            f.fields['kind'] = ('out', len(opened))
        elif mode in ('rb', 'r'):
            f.fields['kind'] = 5 if name == '<segy>' else BM.K_FILE2      # 5 = the source SEG-Y of the producer contracts
        opened.append((name, mode, f))
        return f
    E['open'] = b_open

    # ------------------------------------------------------------------ blob client (AX-BLOB)
    def blob_download(I, f, offset=None, length=None):
        use_axiom('AX-BLOB')
        f.fields['pos'] = untag(offset)
        d = SObj(None, clsname='$blobdl')
        d.fields['file'] = f
        d.fields['length'] = untag(length)
        return d
    M[('$file', 'download_blob')] = blob_download
    M[('$blobdl', 'readall')] = lambda I, d: f_read(I, d.fields['file'], d.fields['length'])

    # ------------------------------------------------------------------ thread pool (AX-POOL)
    def tpe(I, max_workers=None):
        use_axiom('AX-POOL')
        ex = SObj(None, clsname='$executor')
        ex.fields['futures'] = []
        return ex
    E['concurrent.futures.ThreadPoolExecutor'] = tpe
    M[('$executor', '__enter__')] = lambda I, ex: ex
    # leaving the with-block shuts the pool down for good: a later submit raises RuntimeError (as in CPython)
    M[('$executor', '__exit__')] = lambda I, ex, exc: ex.fields.__setitem__('shutdown', True)
    M[('$executor', 'shutdown')] = lambda I, ex, *a, **k: ex.fields.__setitem__('shutdown', True)

    def ex_submit(I, ex, fn, *args, **kwargs):
        c = cur()
        if ex.fields.get('shutdown'):
            raise PyRaise('RuntimeError', 'cannot schedule new futures after shutdown')
        fut = SObj(None, clsname='$future')
        fut.fields['exc'] = None
        fut.fields['value'] = None
        try:
            fut.fields['value'] = I.call_value(fn, list(args), kwargs)
        except PyRaise as e:
            # the exception is stored in the future; it surfaces only through result()/exception()
            fut.fields['exc'] = e.cls
            c.ghost.setdefault('swallowed', []).append(fut)
        ex.fields['futures'].append(fut)
        return fut
    M[('$executor', 'submit')] = ex_submit

    def fut_result(I, fut, timeout=None):
        c = cur()
        if fut.fields['exc'] is not None:
            sw = c.ghost.get('swallowed', [])
            if fut in sw:
                sw.remove(fut)
            raise PyRaise(fut.fields['exc'])
        return fut.fields['value']
    M[('$future', 'result')] = fut_result

    def fut_exception(I, fut, timeout=None):
        c = cur()
        if fut.fields['exc'] is not None:
            sw = c.ghost.get('swallowed', [])
            if fut in sw:
                sw.remove(fut)
            return V.SExc(fut.fields['exc'])
        return None
    M[('$future', 'exception')] = fut_exception

    def cf_wait(I, futs, **k):
        return (list(lib.concrete_iter(I, futs) or []), [])
    E['concurrent.futures.wait'] = cf_wait
    E['concurrent.futures.as_completed'] = lambda I, futs, **k: list(lib.concrete_iter(I, futs) or [])

    # ------------------------------------------------------------------ queue.Queue as seen by a producer (C01/C16/C20)
    def q_put(I, q, item, *a, **k):
        c = cur()
        from . import loops
        if loops.active_vars():
            # ownership: what an iteration hands to the consumer must not be an object the other iterations write as well
            c.require(mk_bool(loops.shared_written_base(untag(item)) is None), 'put.item_is_not_a_buffer_reused_by_other_iterations', kind='loop')
        ev = dict(item=untag(item), loopvars=[(v.z, v.n) for v in loops.active_vars()], seq=len(c.ghost.setdefault('puts', [])))
        c.ghost['puts'].append(ev)
        hook = q.fields.get('on_put')
        if hook:
            hook(c, ev)
    M[('$queue', 'put')] = q_put

    # ------------------------------------------------------------------ hashlib (AX-SHA1)
    def hash_new(I, name, *a):
        use_axiom('AX-SHA1')
        h = SObj(None, clsname='$hash')
        h.fields['log'] = []
        h.fields['alg'] = name
        return h
    E['hashlib.new'] = hash_new
    E['hashlib.sha1'] = lambda I, *a: hash_new(I, 'sha1')

    def hash_update(I, h, data):
        c = cur()
        from . import loops
        ev = dict(data=untag(data), loopvars=[(v.z, v.n) for v in loops.active_vars()], seq=len(h.fields['log']))
        h.fields['log'].append(ev)
        hook = h.fields.get('on_update')
        if hook:
            hook(c, ev)
    M[('$hash', 'update')] = hash_update

    def hash_digest(I, h):
        d = BM.junk_bytes(20, 'digest')
        d.digest_of = list(h.fields['log'])
        return d
    M[('$hash', 'digest')] = hash_digest
