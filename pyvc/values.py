"""Symbolic values of the pyvc engine.

Python ints/floats/bools/None/str stay native when concrete.  Symbolic scalars wrap z3 terms:
  SInt  -> z3 Int  (Python int is unbounded, so this is exact; numpy widths carried as a tag)
  SFloat-> z3 Real (assumption S3(a): exact on the dyadic values the preconditions allow)
  SBool -> z3 Bool
Branching on a symbolic SBool (``if x > 0``) asks the current path context to *decide*, which is
how both the interpreted repository code and the sidecar spec functions fork paths.
"""
import os
import z3
from fractions import Fraction

CUR = None          # current path context (set by the explorer)


def cur():
    if CUR is None:
        raise RuntimeError('no active path context')
    return CUR


def set_cur(c):
    global CUR
    CUR = c


class Unsupported(Exception):
    """Construct outside the supported subset -> obligation undecided (never discharged/violated)."""
    def __init__(self, why, node=None):
        self.why = why
        self.node = node
        line = getattr(node, 'lineno', None)
        super().__init__(f'{why}' + (f' @line {line}' if line else ''))


class SVal:
    pass


def _simp(z):
    return z3.simplify(z)


def mk_int(z):
    if isinstance(z, int):
        return z
    if isinstance(z, SInt):
        return z
    z = _simp(z)
    if z3.is_int_value(z):
        return z.as_long()
    return SInt(z)


def mk_float(z):
    if isinstance(z, (int, float)):
        return float(z)
    if isinstance(z, SFloat):
        return z
    z = _simp(z)
    if z3.is_rational_value(z):
        fr = Fraction(z.numerator_as_long(), z.denominator_as_long())
        f = float(fr)
        if Fraction(f) == fr:
            return f
    return SFloat(z)


def mk_bool(z):
    if isinstance(z, bool):
        return z
    if isinstance(z, SBool):
        return z
    z = _simp(z)
    if z3.is_true(z):
        return True
    if z3.is_false(z):
        return False
    return SBool(z)


def is_sym(v):
    return isinstance(v, SVal)


def is_intlike(v):
    return (isinstance(v, int) and not isinstance(v, bool)) or isinstance(v, SInt) or isinstance(v, bool)


def is_floatlike(v):
    return isinstance(v, float) or isinstance(v, SFloat)


def is_num(v):
    return is_intlike(v) or is_floatlike(v)


def zint(v):
    if isinstance(v, SInt):
        return v.z
    if isinstance(v, bool):
        return z3.IntVal(1 if v else 0)
    if isinstance(v, int):
        return z3.IntVal(v)
    if isinstance(v, SBool):
        return z3.If(v.z, z3.IntVal(1), z3.IntVal(0))
    if isinstance(v, z3.ArithRef) and v.is_int():
        return v
    if os.environ.get('PYVC_DEBUG'):
        import traceback; traceback.print_stack()
    raise Unsupported(f'zint of {type(v).__name__} {v!r}'[:120])


def zreal(v):
    if isinstance(v, SFloat):
        return v.z
    if isinstance(v, float):
        fr = Fraction(v)
        return z3.RealVal(fr.numerator) / z3.RealVal(fr.denominator) if fr.denominator != 1 else z3.RealVal(fr.numerator)
    if isinstance(v, Fraction):
        return z3.RealVal(v.numerator) / z3.RealVal(v.denominator)
    if isinstance(v, z3.ArithRef) and v.is_real():
        return v
    return z3.ToReal(zint(v))


def zbool(v):
    if isinstance(v, SBool):
        return v.z
    if isinstance(v, bool):
        return z3.BoolVal(v)
    if isinstance(v, z3.BoolRef):
        return v
    if isinstance(v, (int, SInt)):
        return zint(v) != 0
    if isinstance(v, (float, SFloat)):
        return zreal(v) != 0
    if v is None:
        return z3.BoolVal(False)
    raise Unsupported(f'zbool of {type(v).__name__}')


class SInt(SVal):
    __slots__ = ('z', 'width')

    def __init__(self, z, width=None):
        self.z = z
        self.width = width

    def __repr__(self):
        return f'SInt({self.z})'

    # arithmetic delegates to ops (Python semantics)
    def __add__(self, o): return ops_binop('+', self, o)
    def __radd__(self, o): return ops_binop('+', o, self)
    def __sub__(self, o): return ops_binop('-', self, o)
    def __rsub__(self, o): return ops_binop('-', o, self)
    def __mul__(self, o): return ops_binop('*', self, o)
    def __rmul__(self, o): return ops_binop('*', o, self)
    def __floordiv__(self, o): return ops_binop('//', self, o)
    def __rfloordiv__(self, o): return ops_binop('//', o, self)
    def __mod__(self, o): return ops_binop('%', self, o)
    def __rmod__(self, o): return ops_binop('%', o, self)
    def __truediv__(self, o): return ops_binop('/', self, o)
    def __rtruediv__(self, o): return ops_binop('/', o, self)
    def __neg__(self): return mk_int(-self.z)
    def __pos__(self): return self
    def __abs__(self): return mk_int(z3.If(self.z >= 0, self.z, -self.z))
    def __lt__(self, o): return ops_cmp('<', self, o)
    def __le__(self, o): return ops_cmp('<=', self, o)
    def __gt__(self, o): return ops_cmp('>', self, o)
    def __ge__(self, o): return ops_cmp('>=', self, o)
    def __eq__(self, o): return ops_cmp('==', self, o)
    def __ne__(self, o): return ops_cmp('!=', self, o)
    __hash__ = None

    def __bool__(self):
        return cur().decide(self.z != 0)

    def __index__(self):
        raise Unsupported('symbolic int used as concrete index')


class SFloat(SVal):
    __slots__ = ('z',)

    def __init__(self, z):
        self.z = z

    def __repr__(self):
        return f'SFloat({self.z})'

    def __add__(self, o): return ops_binop('+', self, o)
    def __radd__(self, o): return ops_binop('+', o, self)
    def __sub__(self, o): return ops_binop('-', self, o)
    def __rsub__(self, o): return ops_binop('-', o, self)
    def __mul__(self, o): return ops_binop('*', self, o)
    def __rmul__(self, o): return ops_binop('*', o, self)
    def __floordiv__(self, o): return ops_binop('//', self, o)
    def __rfloordiv__(self, o): return ops_binop('//', o, self)
    def __mod__(self, o): return ops_binop('%', self, o)
    def __truediv__(self, o): return ops_binop('/', self, o)
    def __rtruediv__(self, o): return ops_binop('/', o, self)
    def __neg__(self): return mk_float(-self.z)
    def __lt__(self, o): return ops_cmp('<', self, o)
    def __le__(self, o): return ops_cmp('<=', self, o)
    def __gt__(self, o): return ops_cmp('>', self, o)
    def __ge__(self, o): return ops_cmp('>=', self, o)
    def __eq__(self, o): return ops_cmp('==', self, o)
    def __ne__(self, o): return ops_cmp('!=', self, o)
    __hash__ = None

    def __bool__(self):
        return cur().decide(self.z != 0)


class SBool(SVal):
    __slots__ = ('z',)

    def __init__(self, z):
        self.z = z

    def __repr__(self):
        return f'SBool({self.z})'

    def __bool__(self):
        return cur().decide(self.z)

    def __and__(self, o): return mk_bool(z3.And(self.z, zbool(o)))
    def __rand__(self, o): return mk_bool(z3.And(zbool(o), self.z))
    def __or__(self, o): return mk_bool(z3.Or(self.z, zbool(o)))
    def __ror__(self, o): return mk_bool(z3.Or(zbool(o), self.z))
    def __invert__(self): return mk_bool(z3.Not(self.z))
    def __eq__(self, o): return mk_bool(self.z == zbool(o))
    def __ne__(self, o): return mk_bool(self.z != zbool(o))
    __hash__ = None


# ---------------------------------------------------------------------------------------------
# logic helpers for contracts (do not fork)

def And(*xs):
    flat = []
    for x in xs:
        if isinstance(x, (list, tuple)):
            flat += list(x)
        else:
            flat.append(x)
    return mk_bool(z3.And(*[zbool(x) for x in flat])) if flat else True


def Or(*xs):
    flat = []
    for x in xs:
        if isinstance(x, (list, tuple)):
            flat += list(x)
        else:
            flat.append(x)
    return mk_bool(z3.Or(*[zbool(x) for x in flat])) if flat else False


def Not(x):
    return mk_bool(z3.Not(zbool(x)))


def Implies(a, b):
    return mk_bool(z3.Implies(zbool(a), zbool(b)))


def Iff(a, b):
    return mk_bool(zbool(a) == zbool(b))


def Ite(c, a, b):
    """Non-forking conditional on scalars."""
    if isinstance(c, bool):
        return a if c else b
    cz = zbool(c)
    if is_floatlike(a) or is_floatlike(b):
        return mk_float(z3.If(cz, zreal(a), zreal(b)))
    if isinstance(a, (bool, SBool)) and isinstance(b, (bool, SBool)):
        return mk_bool(z3.If(cz, zbool(a), zbool(b)))
    return mk_int(z3.If(cz, zint(a), zint(b)))


def Min(a, b):
    return Ite(ops_cmp('<=', a, b), a, b)


def Max(a, b):
    return Ite(ops_cmp('>=', a, b), a, b)


# ---------------------------------------------------------------------------------------------
# arithmetic with Python semantics

def _monomials(z):
    """z3 Int term -> list of (coef:int, atoms: sorted tuple of (ast id, term)) after sum-of-monomials expansion"""
    z = z3.simplify(z, som=True)
    terms = list(z.children()) if z3.is_add(z) else [z]
    out = []
    for t in terms:
        coef = 1
        atoms = []
        stack = [t]
        while stack:
            u = stack.pop()
            if z3.is_int_value(u):
                coef *= u.as_long()
            elif z3.is_mul(u):
                stack.extend(u.children())
            elif z3.is_app(u) and u.decl().kind() == z3.Z3_OP_UMINUS:
                coef = -coef
                stack.append(u.arg(0))
            else:
                atoms.append((u.get_id(), u))
        atoms.sort(key=lambda x: x[0])
        out.append((coef, atoms))
    return out


def _mono_term(coef, atoms):
    t = z3.IntVal(coef)
    for _, a in atoms:
        t = t * a
    return t


def _nonneg_term(c, z):
    """cheap syntactic check that a z3 Int term is >= 0 (sound, incomplete)"""
    if z3.is_int_value(z):
        return z.as_long() >= 0
    if z.get_id() in c.nonneg_ids:
        return True
    if z3.is_mul(z) or z3.is_add(z):
        return all(_nonneg_term(c, ch) for ch in z.children())
    if z3.is_app(z) and z.decl().kind() in (z3.Z3_OP_IDIV, z3.Z3_OP_MOD):
        return z.decl().kind() == z3.Z3_OP_MOD and _pos_term(c, z.arg(1)) or (_nonneg_term(c, z.arg(0)) and _pos_term(c, z.arg(1)))
    return False


def _pos_term(c, z):
    if z3.is_int_value(z):
        return z.as_long() > 0
    if z.get_id() in c.pos_ids:
        return True
    if z3.is_mul(z):
        return all(_pos_term(c, ch) for ch in z.children())
    if z3.is_add(z):
        ch = z.children()
        return all(_nonneg_term(c, x) for x in ch) and any(_pos_term(c, x) for x in ch)
    return False


def _consts_of(z, acc=None):
    acc = {} if acc is None else acc
    stack = [z]
    seen = set()
    while stack:
        t = stack.pop()
        if t.get_id() in seen:
            continue
        seen.add(t.get_id())
        if z3.is_const(t) and t.decl().kind() == z3.Z3_OP_UNINTERPRETED:
            acc[t.get_id()] = t
        stack.extend(t.children())
    return acc


def _expand_defs(c, z, keep=()):
    """replace let-named locals by their definitions (except those in `keep`, which must stay atomic)"""
    for _ in range(6):
        cs = _consts_of(z)
        pairs = [(c.defs[i][0], c.defs[i][1]) for i in cs if i in c.defs and i not in keep]
        if not pairs:
            return z
        z = z3.substitute(z, *pairs)
    return z


def _divisible(coef, atoms, bc, batoms):
    """monomial coef*atoms divisible by monomial bc*batoms?  -> cofactor (coef, atoms) or None"""
    if bc == 0 or coef % bc != 0:
        return None
    left = list(atoms)
    for bi, _ in batoms:
        for j, (i, _) in enumerate(left):
            if i == bi:
                left.pop(j)
                break
        else:
            return None
    return coef // bc, left


def prove_lt(c, rest, b, depth=0):
    """Sound, incomplete procedure for  0 <= rest < b  (b a positive monomial), by the mixed-radix lemma
         0 <= t <= X-1  and  0 <= r < M   ==>   0 <= t*M + r < X*M
    applied recursively, with linear leaf queries to the solver.  Nonlinear solvers are bad at exactly this
    pattern, which is what all block/offset arithmetic of the repository consists of.  A proved bound is added
    to the path condition (it is a consequence of it)."""
    rest = z3.simplify(rest)
    b = z3.simplify(b)
    if z3.is_int_value(rest) and z3.is_int_value(b):
        return 0 <= rest.as_long() < b.as_long()
    if depth == 0:
        bm0 = _monomials(b)
        if len(bm0) == 1:
            rest = z3.simplify(_expand_defs(c, rest, keep={i for i, _ in bm0[0][1]}))
    if c.known_fast(z3.And(rest >= 0, rest < b)):
        return True
    if depth > 5:
        return False
    bm = _monomials(b)
    if len(bm) != 1 or bm[0][0] <= 0:
        return False
    bc, batoms = bm[0]
    rm = _monomials(rest)
    for idx in range(len(batoms)):
        X = batoms[idx][1]
        Matoms = batoms[:idx] + batoms[idx + 1:]
        M = _mono_term(bc, Matoms)
        t = z3.IntVal(0)
        r2 = z3.IntVal(0)
        any_t = False
        for coef, atoms in rm:
            cof = _divisible(coef, atoms, bc, Matoms)
            if cof is not None:
                t = t + _mono_term(cof[0], cof[1])
                any_t = True
            else:
                r2 = r2 + _mono_term(coef, atoms)
        if not any_t:
            continue
        t = z3.simplify(t)
        r2 = z3.simplify(r2)
        if not c.known_fast(z3.And(t >= 0, t <= X - 1)):
            continue
        if (z3.is_int_value(r2) and r2.as_long() == 0) or prove_lt(c, r2, M, depth + 1):
            c.assume_raw(z3.And(rest >= 0, rest < b))
            return True
    return False


def _split_by(zterm, bc, batoms):
    Q = z3.IntVal(0)
    rest = z3.IntVal(0)
    for coef, atoms in _monomials(zterm):
        cof = _divisible(coef, atoms, bc, batoms)
        if cof is not None:
            Q = Q + _mono_term(cof[0], cof[1])
        else:
            rest = rest + _mono_term(coef, atoms)
    return z3.simplify(Q), z3.simplify(rest)


def _div_const(za, b):
    """floor(za / b) for a concrete b > 0 in canonical form: monomials whose coefficient is a multiple of b are
    divided exactly; (x div a) div b is rewritten to x div (a*b)  (valid for positive a, b)"""
    Q = z3.IntVal(0)
    rest = z3.IntVal(0)
    for coef, atoms in _monomials(za):
        if coef % b == 0 and (atoms or coef == 0):
            Q = Q + _mono_term(coef // b, atoms)
        else:
            rest = rest + _mono_term(coef, atoms)
    Q = z3.simplify(Q)
    rest = z3.simplify(rest)
    if z3.is_int_value(rest):
        return z3.simplify(Q + z3.IntVal(rest.as_long() // b))
    # drop quotient atoms (x div a) that are provably zero, then cancel the gcd of coefficients and divisor
    if CUR is not None:
        mons = _monomials(rest)
        kept = []
        for coef, atoms in mons:
            zero = False
            for _, at in atoms:
                if z3.is_app(at) and at.decl().kind() == z3.Z3_OP_IDIV and z3.is_int_value(at.arg(1)) and at.arg(1).as_long() > 0:
                    if CUR.known_fast(z3.And(at.arg(0) >= 0, at.arg(0) < at.arg(1))):
                        zero = True
                        break
            if not zero:
                kept.append((coef, atoms))
        if len(kept) != len(mons):
            rest = z3.simplify(sum([_mono_term(cf, at) for cf, at in kept], z3.IntVal(0)))
            if z3.is_int_value(rest):
                return z3.simplify(Q + z3.IntVal(rest.as_long() // b))
        import math
        g = b
        for coef, atoms in kept:
            g = math.gcd(g, abs(coef))
        if g > 1 and kept:
            rest = z3.simplify(sum([_mono_term(cf // g, at) for cf, at in kept], z3.IntVal(0)))
            b = b // g
            if b == 1:
                return z3.simplify(Q + rest)
    if z3.is_app(rest) and rest.decl().kind() == z3.Z3_OP_IDIV and z3.is_int_value(rest.arg(1)) and rest.arg(1).as_long() > 0:
        return z3.simplify(Q + rest.arg(0) / z3.IntVal(rest.arg(1).as_long() * b))
    return z3.simplify(Q + rest / z3.IntVal(b))


def _div_terms(a, b):
    """floor quotient and remainder (Python semantics) of ints a,b as z3 terms, b != 0 assumed.
    Concrete positive divisor: z3's native div/mod (Euclidean == floor).
    Symbolic divisor known positive and a single monomial: exact polynomial division first
    ( a = b*Q + rest  =>  a//b = Q + rest//b ), so mixed-radix expressions like (k*C + j)//C collapse to k
    when 0 <= j < C is known.  Otherwise fresh q, r with the defining constraints on the path condition."""
    za, zb = zint(a), zint(b)
    if isinstance(b, int) and not isinstance(b, bool) and b > 0:
        if b == 1:
            return za, z3.IntVal(0)
        q = _div_const(za, b)
        # remainder expressed through the quotient (canonical form: only `div` atoms of the original variables)
        return q, z3.simplify(za - b * q)
    c = cur()
    key = ('div', za.sexpr(), zb.sexpr())
    if key in c.divcache:
        return c.divcache[key]
    positive = _pos_term(c, z3.simplify(zb))
    if not positive and c.known(mk_bool(zb > 0)):
        positive = True
    if positive:
        bm = _monomials(zb)
        if len(bm) == 1 and bm[0][0] > 0:
            bc, batoms = bm[0]

            def split(zterm):
                Q = z3.IntVal(0)
                rest = z3.IntVal(0)
                for coef, atoms in _monomials(zterm):
                    cof = _divisible(coef, atoms, bc, batoms)
                    if cof is not None:
                        Q = Q + _mono_term(cof[0], cof[1])
                    else:
                        rest = rest + _mono_term(coef, atoms)
                return z3.simplify(Q), z3.simplify(rest)
            # fold: where the dividend contains the DEFINITION of a let-named factor of the divisor, use the name
            folds = [(c.defs[i][1], c.defs[i][0]) for i, _ in batoms if i in c.defs]
            if folds and not os.environ.get("PYVC_NOFOLD"):
                za_f = z3.substitute(za, *folds)
                if not za_f.eq(za):
                    za = za_f
            # first with let-named locals kept atomic, then with their definitions expanded
            cands = [za]
            za2 = _expand_defs(c, za, keep={i for i, _ in batoms})
            if za2 is not za:
                cands.append(za2)
            last = None
            for cand in cands:
                Q, rest = split(cand)
                last = (Q, rest)
                if z3.is_int_value(rest) and rest.as_long() == 0:
                    res = (Q, z3.IntVal(0))
                    c.divcache[key] = res
                    return res
                if prove_lt(c, rest, zb):
                    res = (Q, rest)
                    c.divcache[key] = res
                    return res
                # -b <= rest < 0  (e.g. (k*n - d - 1) // n with 0 <= d < n):  quotient one less
                shifted = z3.simplify(rest + zb)
                if c.known_fast(rest < 0) and prove_lt(c, shifted, zb):
                    res = (z3.simplify(Q - 1), shifted)
                    c.divcache[key] = res
                    return res
            # factor a constant out of the divisor:  a // (K*b') = (a // b') // K
            if bc > 1 and not getattr(c, '_in_factor_div', False):
                c._in_factor_div = True
                try:
                    K = 2
                    while K <= bc:
                        if bc % K == 0:
                            b2 = _mono_term(bc // K, batoms)
                            for cand in cands:
                                Q2, rest2 = _split_by(cand, bc // K, batoms)
                                ok = (z3.is_int_value(rest2) and rest2.as_long() == 0) or prove_lt(c, rest2, b2)
                                if ok:
                                    qq = _div_const(Q2, K)
                                    res = (qq, z3.simplify(za - zb * qq))
                                    c.divcache[key] = res
                                    return res
                        K *= 2
                finally:
                    c._in_factor_div = False
            Q, rest = last
            if os.environ.get('PYVC_DEBUG_DIV'):
                print('DIV-FRESH rest=', rest, ' b=', zb, ' guards=', [str(g)[:80] for g in c.guards])
            q = c.fresh_int('q')
            r = c.fresh_int('r')
            c.assume_raw(rest == zb * q + r)
            c.assume_raw(z3.And(r >= 0, r < zb))
            c.nonneg_ids.add(r.get_id())
            c.__dict__.setdefault('qr_defs', []).append((q, r, rest, zb))
            res = (z3.simplify(Q + q), r)
            c.divcache[key] = res
            return res
        q = c.fresh_int('q')
        r = c.fresh_int('r')
        c.assume_raw(za == zb * q + r)
        c.assume_raw(z3.And(r >= 0, r < zb))
        c.nonneg_ids.add(r.get_id())
        c.__dict__.setdefault('qr_defs', []).append((q, r, za, zb))
        c.divcache[key] = (q, r)
        return q, r
    q = c.fresh_int('q')
    r = c.fresh_int('r')
    # Python: a == b*q + r, 0 <= r < b (b>0) or b < r <= 0 (b<0)
    c.assume_raw(za == zb * q + r)
    c.assume_raw(z3.If(zb > 0, z3.And(r >= 0, r < zb), z3.And(r <= 0, r > zb)))
    c.__dict__.setdefault('qr_defs', []).append((q, r, za, zb, 'signed'))
    c.divcache[key] = (q, r)
    return q, r


class PyRaise(Exception):
    """An exception raised by the *interpreted* program (carried through the interpreter)."""
    def __init__(self, cls, msg=''):
        self.cls = cls
        self.msg = msg
        super().__init__(f'{cls}: {msg}')


def ops_binop(op, a, b):
    # concrete fast path
    if not is_sym(a) and not is_sym(b):
        try:
            if op == '+': return a + b
            if op == '-': return a - b
            if op == '*': return a * b
            if op == '//': return a // b
            if op == '%': return a % b
            if op == '/': return a / b
            if op == '**': return a ** b
        except ZeroDivisionError:
            raise PyRaise('ZeroDivisionError')
        except TypeError as e:
            raise PyRaise('TypeError', str(e))
        raise Unsupported(f'binop {op}')
    if not (is_num(a) and is_num(b)):
        raise Unsupported(f'binop {op} on {type(a).__name__},{type(b).__name__}')
    fl = is_floatlike(a) or is_floatlike(b)
    if op in ('+', '-', '*'):
        if fl:
            x, y = zreal(a), zreal(b)
            return mk_float({'+': x + y, '-': x - y, '*': x * y}[op])
        x, y = zint(a), zint(b)
        return mk_int({'+': x + y, '-': x - y, '*': x * y}[op])
    if op == '**':
        if isinstance(b, int) and 0 <= b <= 4:
            r = 1
            for _ in range(b):
                r = ops_binop('*', r, a)
            return r
        raise Unsupported('symbolic exponent')
    # divisions: zero check forks
    if fl:
        x, y = zreal(a), zreal(b)
        if cur().decide(y == 0):
            raise PyRaise('ZeroDivisionError')
        if op == '/':
            return mk_float(x / y)
        if op == '//':
            return mk_float(z3.ToReal(z3.ToInt(x / y)))
        if op == '%':
            return mk_float(x - y * z3.ToReal(z3.ToInt(x / y)))
    else:
        if cur().decide(zint(b) == 0):
            raise PyRaise('ZeroDivisionError')
        if op == '/':
            return mk_float(zreal(a) / zreal(b))
        q, r = _div_terms(a, b)
        return mk_int(q if op == '//' else r)
    raise Unsupported(f'binop {op}')


def ops_cmp(op, a, b):
    if not is_sym(a) and not is_sym(b):
        if op == '<': return a < b
        if op == '<=': return a <= b
        if op == '>': return a > b
        if op == '>=': return a >= b
        if op == '==': return a == b
        if op == '!=': return a != b
    if isinstance(a, (SBool, bool)) and isinstance(b, (SBool, bool)) and op in ('==', '!='):
        z = zbool(a) == zbool(b)
        return mk_bool(z if op == '==' else z3.Not(z))
    if a is None or b is None or isinstance(a, str) or isinstance(b, str):
        if op == '==': return False
        if op == '!=': return True
        raise PyRaise('TypeError', 'ordering None/str with number')
    if not (is_num(a) and is_num(b)):
        if op == '==': return False
        if op == '!=': return True
        raise Unsupported(f'cmp {op} on {type(a).__name__},{type(b).__name__}')
    if is_floatlike(a) or is_floatlike(b):
        x, y = zreal(a), zreal(b)
    else:
        x, y = zint(a), zint(b)
    z = {'<': x < y, '<=': x <= y, '>': x > y, '>=': x >= y, '==': x == y, '!=': x != y}[op]
    return mk_bool(z)


# ---------------------------------------------------------------------------------------------
# structured values

class SObj:
    """Instance of a repository class (or of a modelled external class)."""
    def __init__(self, cls, fields=None, clsname=None):
        self.cls = cls                  # frontend.ClassInfo or None
        self.clsname = clsname or (cls.name if cls is not None else '?')
        self.fields = dict(fields or {})
        self.frozen = None              # set of immutable field names (frame obligations)
        self.reads = set()              # field names read (for C15 frame check)

    def __repr__(self):
        return f'<SObj {self.clsname}>'


class SRange:
    """range(start, stop, step) with possibly symbolic components (step != 0 known by construction)."""
    def __init__(self, start, stop, step=1):
        self.start, self.stop, self.step = start, stop, step

    def is_concrete(self):
        return not (is_sym(self.start) or is_sym(self.stop) or is_sym(self.step))

    known_len = None        # set by a contract that constructs range(a, a + (n-1)*s + 1, s): n elements (LEMMA-RANGE-LEN)

    def length(self):
        if self.known_len is not None:
            return self.known_len
        if self.is_concrete():
            return len(range(self.start, self.stop, self.step))
        if isinstance(self.step, int) and self.step == 1:
            d = ops_binop('-', self.stop, self.start)
            return Max(d, 0)
        if isinstance(self.step, int) and self.step > 0:
            d = ops_binop('-', self.stop, self.start)
            return Max(ops_binop('//', ops_binop('+', d, self.step - 1), self.step), 0)
        # general symbolic step: Python's formula
        st = self.step
        d = ops_binop('-', self.stop, self.start)
        pos = ops_cmp('>', st, 0)
        lpos = Max(ops_binop('//', ops_binop('+', d, ops_binop('-', st, 1)), st), 0)
        lneg = Max(ops_binop('//', ops_binop('-', ops_binop('-', self.start, self.stop), ops_binop('+', st, 1)), ops_binop('-', 0, st)), 0)
        return Ite(pos, lpos, lneg)

    def item(self, k):
        return ops_binop('+', self.start, ops_binop('*', k, self.step))

    def __repr__(self):
        return f'SRange({self.start},{self.stop},{self.step})'


class SSlice:
    def __init__(self, start, stop, step=None):
        self.start, self.stop, self.step = start, stop, step

    def __repr__(self):
        return f'SSlice({self.start},{self.stop},{self.step})'


def slice_bounds(sl, n):
    """(lo, hi) of a[sl] for a sequence of length n with step None/1, Python clamping semantics.
    Non-forking (uses Ite).  Float bounds raise TypeError like CPython."""
    if sl.step is not None and not (isinstance(sl.step, int) and sl.step == 1):
        raise Unsupported('slice step')
    for b in (sl.start, sl.stop):
        if is_floatlike(b):
            raise PyRaise('TypeError', 'slice indices must be integers')

    # bounds that are provably inside [0, n] and ordered need no clamping (keeps terms small)
    st, sp = sl.start, sl.stop
    if (st is None or is_intlike(st)) and (sp is None or is_intlike(sp)) and (is_sym(st) or is_sym(sp) or is_sym(n)):
        lo0 = 0 if st is None else st
        hi0 = n if sp is None else sp
        c = cur()
        if c.known(And(ops_cmp('>=', lo0, 0), ops_cmp('<=', lo0, hi0), ops_cmp('<=', hi0, n))):
            return lo0, hi0
        if is_sym(n) and c.known_fast(zbool(And(ops_cmp('>=', lo0, 0), ops_cmp('<', lo0, hi0)))) \
                and prove_lt(c, zint(hi0) - 1, zint(n)):
            return lo0, hi0

    def clamp(v, default):
        if v is None:
            return default
        v = Ite(ops_cmp('<', v, 0), ops_binop('+', v, n), v)
        v = Max(v, 0)
        return Min(v, n)
    lo = clamp(sl.start, 0)
    hi = clamp(sl.stop, n)
    hi = Max(hi, lo)
    return lo, hi


class SExc:
    def __init__(self, cls, msg=''):
        self.cls = cls
        self.msg = msg

    def __repr__(self):
        return f'SExc({self.cls})'


EXC_PARENTS = {
    'IndexError': 'LookupError', 'KeyError': 'LookupError', 'LookupError': 'Exception',
    'ValueError': 'Exception', 'TypeError': 'Exception', 'AssertionError': 'Exception',
    'ZeroDivisionError': 'ArithmeticError', 'OverflowError': 'ArithmeticError', 'ArithmeticError': 'Exception',
    'RuntimeError': 'Exception', 'NotImplementedError': 'RuntimeError', 'OSError': 'Exception',
    'IOError': 'Exception', 'EOFError': 'Exception',
    'FileNotFoundError': 'OSError', 'ImportError': 'Exception', 'struct.error': 'Exception',
    'WrongDimensionalityError': 'TypeError', 'AttributeError': 'Exception', 'StopIteration': 'Exception',
    'MemoryError': 'Exception', 'Exception': 'BaseException',
}


def exc_isinstance(cls, target):
    if target in ('IOError', 'EnvironmentError'):
        target = 'OSError'
    if cls in ('IOError', 'EnvironmentError'):
        cls = 'OSError'
    while cls is not None:
        if cls == target:
            return True
        cls = EXC_PARENTS.get(cls)
    return False


# ---------------------------------------------------------------------------------------------
# opaque tokens (float32 samples, etc.): only equality matters

F32 = z3.DeclareSort('F32')
F32_ZERO = z3.Const('F32_ZERO', F32)


class STok(SVal):
    """Opaque element (e.g. a float32 sample).  Properties move samples bit for bit, so only
    equality is ever needed; arithmetic on tokens is unsupported by design."""
    __slots__ = ('z',)

    def __init__(self, z):
        self.z = z

    def __repr__(self):
        return f'STok({self.z})'

    def __eq__(self, o):
        if isinstance(o, STok):
            return mk_bool(self.z == o.z)
        if isinstance(o, (int, float)) and o == 0:
            return mk_bool(self.z == F32_ZERO)
        raise Unsupported('token compared with non-token')

    def __ne__(self, o):
        return Not(self.__eq__(o))
    __hash__ = None


def ite_val(c, a, b):
    """Non-forking conditional for any element kind."""
    if isinstance(c, bool):
        return a if c else b
    if isinstance(a, STok) or isinstance(b, STok):
        az = a.z if isinstance(a, STok) else tok_of_number(a)
        bz = b.z if isinstance(b, STok) else tok_of_number(b)
        return STok(z3.simplify(z3.If(zbool(c), az, bz)))
    if a is None and b is None:
        return None
    return Ite(c, a, b)


def tok_of_number(v):
    if isinstance(v, (int, float)) and v == 0:
        return F32_ZERO
    raise Unsupported('number mixed with opaque token')
