"""Symbolic values of the pyvc engine.

Python ints/floats/bools/None/str stay native when concrete.  Symbolic scalars wrap z3 terms:
  SInt  -> z3 Int  (Python int is unbounded, so this is exact; numpy widths carried as a tag)
  SFloat-> z3 Real (assumption S3(a): exact on the dyadic values the preconditions allow)
  SBool -> z3 Bool
Branching on a symbolic SBool (``if x > 0``) asks the current path context to *decide*, which is
how both the interpreted repository code and the sidecar spec functions fork paths.
"""
import z3
from fractions import Fraction

CUR = None          # current path context (set by the explorer)


def cur():
    if CUR is None:
        raise RuntimeError('no active path context')
    return CUR


def set_cur(c):
    global CUR
    CUR = c


class Unsupported(Exception):
    """Construct outside the supported subset -> obligation undecided (never discharged/violated)."""
    def __init__(self, why, node=None):
        self.why = why
        self.node = node
        line = getattr(node, 'lineno', None)
        super().__init__(f'{why}' + (f' @line {line}' if line else ''))


class SVal:
    pass


def _simp(z):
    return z3.simplify(z)


def mk_int(z):
    if isinstance(z, int):
        return z
    if isinstance(z, SInt):
        return z
    z = _simp(z)
    if z3.is_int_value(z):
        return z.as_long()
    return SInt(z)


def mk_float(z):
    if isinstance(z, (int, float)):
        return float(z)
    if isinstance(z, SFloat):
        return z
    z = _simp(z)
    if z3.is_rational_value(z):
        fr = Fraction(z.numerator_as_long(), z.denominator_as_long())
        f = float(fr)
        if Fraction(f) == fr:
            return f
    return SFloat(z)


def mk_bool(z):
    if isinstance(z, bool):
        return z
    if isinstance(z, SBool):
        return z
    z = _simp(z)
    if z3.is_true(z):
        return True
    if z3.is_false(z):
        return False
    return SBool(z)


def is_sym(v):
    return isinstance(v, SVal)


def is_intlike(v):
    return (isinstance(v, int) and not isinstance(v, bool)) or isinstance(v, SInt) or isinstance(v, bool)


def is_floatlike(v):
    return isinstance(v, float) or isinstance(v, SFloat)


def is_num(v):
    return is_intlike(v) or is_floatlike(v)


def zint(v):
    if isinstance(v, SInt):
        return v.z
    if isinstance(v, bool):
        return z3.IntVal(1 if v else 0)
    if isinstance(v, int):
        return z3.IntVal(v)
    if isinstance(v, SBool):
        return z3.If(v.z, z3.IntVal(1), z3.IntVal(0))
    if isinstance(v, z3.ArithRef) and v.is_int():
        return v
    raise Unsupported(f'zint of {type(v).__name__}')


def zreal(v):
    if isinstance(v, SFloat):
        return v.z
    if isinstance(v, float):
        fr = Fraction(v)
        return z3.RealVal(fr.numerator) / z3.RealVal(fr.denominator) if fr.denominator != 1 else z3.RealVal(fr.numerator)
    if isinstance(v, Fraction):
        return z3.RealVal(v.numerator) / z3.RealVal(v.denominator)
    if isinstance(v, z3.ArithRef) and v.is_real():
        return v
    return z3.ToReal(zint(v))


def zbool(v):
    if isinstance(v, SBool):
        return v.z
    if isinstance(v, bool):
        return z3.BoolVal(v)
    if isinstance(v, z3.BoolRef):
        return v
    if isinstance(v, (int, SInt)):
        return zint(v) != 0
    if isinstance(v, (float, SFloat)):
        return zreal(v) != 0
    if v is None:
        return z3.BoolVal(False)
    raise Unsupported(f'zbool of {type(v).__name__}')


class SInt(SVal):
    __slots__ = ('z', 'width')

    def __init__(self, z, width=None):
        self.z = z
        self.width = width

    def __repr__(self):
        return f'SInt({self.z})'

    # arithmetic delegates to ops (Python semantics)
    def __add__(self, o): return ops_binop('+', self, o)
    def __radd__(self, o): return ops_binop('+', o, self)
    def __sub__(self, o): return ops_binop('-', self, o)
    def __rsub__(self, o): return ops_binop('-', o, self)
    def __mul__(self, o): return ops_binop('*', self, o)
    def __rmul__(self, o): return ops_binop('*', o, self)
    def __floordiv__(self, o): return ops_binop('//', self, o)
    def __rfloordiv__(self, o): return ops_binop('//', o, self)
    def __mod__(self, o): return ops_binop('%', self, o)
    def __rmod__(self, o): return ops_binop('%', o, self)
    def __truediv__(self, o): return ops_binop('/', self, o)
    def __rtruediv__(self, o): return ops_binop('/', o, self)
    def __neg__(self): return mk_int(-self.z)
    def __pos__(self): return self
    def __abs__(self): return mk_int(z3.If(self.z >= 0, self.z, -self.z))
    def __lt__(self, o): return ops_cmp('<', self, o)
    def __le__(self, o): return ops_cmp('<=', self, o)
    def __gt__(self, o): return ops_cmp('>', self, o)
    def __ge__(self, o): return ops_cmp('>=', self, o)
    def __eq__(self, o): return ops_cmp('==', self, o)
    def __ne__(self, o): return ops_cmp('!=', self, o)
    __hash__ = None

    def __bool__(self):
        return cur().decide(self.z != 0)

    def __index__(self):
        raise Unsupported('symbolic int used as concrete index')


class SFloat(SVal):
    __slots__ = ('z',)

    def __init__(self, z):
        self.z = z

    def __repr__(self):
        return f'SFloat({self.z})'

    def __add__(self, o): return ops_binop('+', self, o)
    def __radd__(self, o): return ops_binop('+', o, self)
    def __sub__(self, o): return ops_binop('-', self, o)
    def __rsub__(self, o): return ops_binop('-', o, self)
    def __mul__(self, o): return ops_binop('*', self, o)
    def __rmul__(self, o): return ops_binop('*', o, self)
    def __floordiv__(self, o): return ops_binop('//', self, o)
    def __rfloordiv__(self, o): return ops_binop('//', o, self)
    def __mod__(self, o): return ops_binop('%', self, o)
    def __truediv__(self, o): return ops_binop('/', self, o)
    def __rtruediv__(self, o): return ops_binop('/', o, self)
    def __neg__(self): return mk_float(-self.z)
    def __lt__(self, o): return ops_cmp('<', self, o)
    def __le__(self, o): return ops_cmp('<=', self, o)
    def __gt__(self, o): return ops_cmp('>', self, o)
    def __ge__(self, o): return ops_cmp('>=', self, o)
    def __eq__(self, o): return ops_cmp('==', self, o)
    def __ne__(self, o): return ops_cmp('!=', self, o)
    __hash__ = None

    def __bool__(self):
        return cur().decide(self.z != 0)


class SBool(SVal):
    __slots__ = ('z',)

    def __init__(self, z):
        self.z = z

    def __repr__(self):
        return f'SBool({self.z})'

    def __bool__(self):
        return cur().decide(self.z)

    def __and__(self, o): return mk_bool(z3.And(self.z, zbool(o)))
    def __rand__(self, o): return mk_bool(z3.And(zbool(o), self.z))
    def __or__(self, o): return mk_bool(z3.Or(self.z, zbool(o)))
    def __ror__(self, o): return mk_bool(z3.Or(zbool(o), self.z))
    def __invert__(self): return mk_bool(z3.Not(self.z))
    def __eq__(self, o): return mk_bool(self.z == zbool(o))
    def __ne__(self, o): return mk_bool(self.z != zbool(o))
    __hash__ = None


# ---------------------------------------------------------------------------------------------
# logic helpers for contracts (do not fork)

def And(*xs):
    flat = []
    for x in xs:
        if isinstance(x, (list, tuple)):
            flat += list(x)
        else:
            flat.append(x)
    return mk_bool(z3.And(*[zbool(x) for x in flat])) if flat else True


def Or(*xs):
    flat = []
    for x in xs:
        if isinstance(x, (list, tuple)):
            flat += list(x)
        else:
            flat.append(x)
    return mk_bool(z3.Or(*[zbool(x) for x in flat])) if flat else False


def Not(x):
    return mk_bool(z3.Not(zbool(x)))


def Implies(a, b):
    return mk_bool(z3.Implies(zbool(a), zbool(b)))


def Iff(a, b):
    return mk_bool(zbool(a) == zbool(b))


def Ite(c, a, b):
    """Non-forking conditional on scalars."""
    if isinstance(c, bool):
        return a if c else b
    cz = zbool(c)
    if is_floatlike(a) or is_floatlike(b):
        return mk_float(z3.If(cz, zreal(a), zreal(b)))
    if isinstance(a, (bool, SBool)) and isinstance(b, (bool, SBool)):
        return mk_bool(z3.If(cz, zbool(a), zbool(b)))
    return mk_int(z3.If(cz, zint(a), zint(b)))


def Min(a, b):
    return Ite(ops_cmp('<=', a, b), a, b)


def Max(a, b):
    return Ite(ops_cmp('>=', a, b), a, b)


# ---------------------------------------------------------------------------------------------
# arithmetic with Python semantics

def _div_terms(a, b):
    """floor quotient and remainder (Python semantics) of ints a,b as z3 terms, b != 0 assumed.
    Concrete positive divisor: z3's native div/mod (Euclidean == floor).  Otherwise fresh
    q, r with the defining constraints added to the path condition (works better for NIA)."""
    za, zb = zint(a), zint(b)
    if isinstance(b, int) and not isinstance(b, bool) and b > 0:
        return za / zb, za % zb
    c = cur()
    key = ('div', za.sexpr(), zb.sexpr())
    if key in c.divcache:
        return c.divcache[key]
    q = c.fresh_int('q')
    r = c.fresh_int('r')
    # Python: a == b*q + r, 0 <= r < b (b>0) or b < r <= 0 (b<0)
    c.assume_raw(za == zb * q + r)
    c.assume_raw(z3.If(zb > 0, z3.And(r >= 0, r < zb), z3.And(r <= 0, r > zb)))
    c.divcache[key] = (q, r)
    return q, r


class PyRaise(Exception):
    """An exception raised by the *interpreted* program (carried through the interpreter)."""
    def __init__(self, cls, msg=''):
        self.cls = cls
        self.msg = msg
        super().__init__(f'{cls}: {msg}')


def ops_binop(op, a, b):
    # concrete fast path
    if not is_sym(a) and not is_sym(b):
        try:
            if op == '+': return a + b
            if op == '-': return a - b
            if op == '*': return a * b
            if op == '//': return a // b
            if op == '%': return a % b
            if op == '/': return a / b
            if op == '**': return a ** b
        except ZeroDivisionError:
            raise PyRaise('ZeroDivisionError')
        except TypeError as e:
            raise PyRaise('TypeError', str(e))
        raise Unsupported(f'binop {op}')
    if not (is_num(a) and is_num(b)):
        raise Unsupported(f'binop {op} on {type(a).__name__},{type(b).__name__}')
    fl = is_floatlike(a) or is_floatlike(b)
    if op in ('+', '-', '*'):
        if fl:
            x, y = zreal(a), zreal(b)
            return mk_float({'+': x + y, '-': x - y, '*': x * y}[op])
        x, y = zint(a), zint(b)
        return mk_int({'+': x + y, '-': x - y, '*': x * y}[op])
    if op == '**':
        if isinstance(b, int) and 0 <= b <= 4:
            r = 1
            for _ in range(b):
                r = ops_binop('*', r, a)
            return r
        raise Unsupported('symbolic exponent')
    # divisions: zero check forks
    if fl:
        x, y = zreal(a), zreal(b)
        if cur().decide(y == 0):
            raise PyRaise('ZeroDivisionError')
        if op == '/':
            return mk_float(x / y)
        if op == '//':
            return mk_float(z3.ToReal(z3.ToInt(x / y)))
        if op == '%':
            return mk_float(x - y * z3.ToReal(z3.ToInt(x / y)))
    else:
        if cur().decide(zint(b) == 0):
            raise PyRaise('ZeroDivisionError')
        if op == '/':
            return mk_float(zreal(a) / zreal(b))
        q, r = _div_terms(a, b)
        return mk_int(q if op == '//' else r)
    raise Unsupported(f'binop {op}')


def ops_cmp(op, a, b):
    if not is_sym(a) and not is_sym(b):
        if op == '<': return a < b
        if op == '<=': return a <= b
        if op == '>': return a > b
        if op == '>=': return a >= b
        if op == '==': return a == b
        if op == '!=': return a != b
    if isinstance(a, (SBool, bool)) and isinstance(b, (SBool, bool)) and op in ('==', '!='):
        z = zbool(a) == zbool(b)
        return mk_bool(z if op == '==' else z3.Not(z))
    if a is None or b is None or isinstance(a, str) or isinstance(b, str):
        if op == '==': return False
        if op == '!=': return True
        raise PyRaise('TypeError', 'ordering None/str with number')
    if not (is_num(a) and is_num(b)):
        if op == '==': return False
        if op == '!=': return True
        raise Unsupported(f'cmp {op} on {type(a).__name__},{type(b).__name__}')
    if is_floatlike(a) or is_floatlike(b):
        x, y = zreal(a), zreal(b)
    else:
        x, y = zint(a), zint(b)
    z = {'<': x < y, '<=': x <= y, '>': x > y, '>=': x >= y, '==': x == y, '!=': x != y}[op]
    return mk_bool(z)


# ---------------------------------------------------------------------------------------------
# structured values

class SObj:
    """Instance of a repository class (or of a modelled external class)."""
    def __init__(self, cls, fields=None, clsname=None):
        self.cls = cls                  # frontend.ClassInfo or None
        self.clsname = clsname or (cls.name if cls is not None else '?')
        self.fields = dict(fields or {})
        self.frozen = None              # set of immutable field names (frame obligations)
        self.reads = set()              # field names read (for C15 frame check)

    def __repr__(self):
        return f'<SObj {self.clsname}>'


class SRange:
    """range(start, stop, step) with possibly symbolic components (step != 0 known by construction)."""
    def __init__(self, start, stop, step=1):
        self.start, self.stop, self.step = start, stop, step

    def is_concrete(self):
        return not (is_sym(self.start) or is_sym(self.stop) or is_sym(self.step))

    def length(self):
        if self.is_concrete():
            return len(range(self.start, self.stop, self.step))
        if isinstance(self.step, int) and self.step == 1:
            d = ops_binop('-', self.stop, self.start)
            return Max(d, 0)
        if isinstance(self.step, int) and self.step > 0:
            d = ops_binop('-', self.stop, self.start)
            return Max(ops_binop('//', ops_binop('+', d, self.step - 1), self.step), 0)
        # general symbolic step: Python's formula
        st = self.step
        d = ops_binop('-', self.stop, self.start)
        pos = ops_cmp('>', st, 0)
        lpos = Max(ops_binop('//', ops_binop('+', d, ops_binop('-', st, 1)), st), 0)
        lneg = Max(ops_binop('//', ops_binop('-', ops_binop('-', self.start, self.stop), ops_binop('+', st, 1)), ops_binop('-', 0, st)), 0)
        return Ite(pos, lpos, lneg)

    def item(self, k):
        return ops_binop('+', self.start, ops_binop('*', k, self.step))

    def __repr__(self):
        return f'SRange({self.start},{self.stop},{self.step})'


class SSlice:
    def __init__(self, start, stop, step=None):
        self.start, self.stop, self.step = start, stop, step

    def __repr__(self):
        return f'SSlice({self.start},{self.stop},{self.step})'


def slice_bounds(sl, n):
    """(lo, hi) of a[sl] for a sequence of length n with step None/1, Python clamping semantics.
    Non-forking (uses Ite).  Float bounds raise TypeError like CPython."""
    if sl.step is not None and not (isinstance(sl.step, int) and sl.step == 1):
        raise Unsupported('slice step')
    for b in (sl.start, sl.stop):
        if is_floatlike(b):
            raise PyRaise('TypeError', 'slice indices must be integers')

    def clamp(v, default):
        if v is None:
            return default
        v = Ite(ops_cmp('<', v, 0), ops_binop('+', v, n), v)
        v = Max(v, 0)
        return Min(v, n)
    lo = clamp(sl.start, 0)
    hi = clamp(sl.stop, n)
    hi = Max(hi, lo)
    return lo, hi


class SExc:
    def __init__(self, cls, msg=''):
        self.cls = cls
        self.msg = msg

    def __repr__(self):
        return f'SExc({self.cls})'


EXC_PARENTS = {
    'IndexError': 'LookupError', 'KeyError': 'LookupError', 'LookupError': 'Exception',
    'ValueError': 'Exception', 'TypeError': 'Exception', 'AssertionError': 'Exception',
    'ZeroDivisionError': 'ArithmeticError', 'OverflowError': 'ArithmeticError', 'ArithmeticError': 'Exception',
    'RuntimeError': 'Exception', 'NotImplementedError': 'RuntimeError', 'OSError': 'Exception',
    'IOError': 'Exception', 'EOFError': 'Exception',
    'FileNotFoundError': 'OSError', 'ImportError': 'Exception', 'struct.error': 'Exception',
    'WrongDimensionalityError': 'TypeError', 'AttributeError': 'Exception', 'StopIteration': 'Exception',
    'MemoryError': 'Exception', 'Exception': 'BaseException',
}


def exc_isinstance(cls, target):
    if target in ('IOError', 'EnvironmentError'):
        target = 'OSError'
    if cls in ('IOError', 'EnvironmentError'):
        cls = 'OSError'
    while cls is not None:
        if cls == target:
            return True
        cls = EXC_PARENTS.get(cls)
    return False


# ---------------------------------------------------------------------------------------------
# opaque tokens (float32 samples, etc.): only equality matters

F32 = z3.DeclareSort('F32')
F32_ZERO = z3.Const('F32_ZERO', F32)


class STok(SVal):
    """Opaque element (e.g. a float32 sample).  Properties move samples bit for bit, so only
    equality is ever needed; arithmetic on tokens is unsupported by design."""
    __slots__ = ('z',)

    def __init__(self, z):
        self.z = z

    def __repr__(self):
        return f'STok({self.z})'

    def __eq__(self, o):
        if isinstance(o, STok):
            return mk_bool(self.z == o.z)
        if isinstance(o, (int, float)) and o == 0:
            return mk_bool(self.z == F32_ZERO)
        raise Unsupported('token compared with non-token')

    def __ne__(self, o):
        return Not(self.__eq__(o))
    __hash__ = None


def ite_val(c, a, b):
    """Non-forking conditional for any element kind."""
    if isinstance(c, bool):
        return a if c else b
    if isinstance(a, STok) or isinstance(b, STok):
        az = a.z if isinstance(a, STok) else tok_of_number(a)
        bz = b.z if isinstance(b, STok) else tok_of_number(b)
        return STok(z3.simplify(z3.If(zbool(c), az, bz)))
    if a is None and b is None:
        return None
    return Ite(c, a, b)


def tok_of_number(v):
    if isinstance(v, (int, float)) and v == 0:
        return F32_ZERO
    raise Unsupported('number mixed with opaque token')
