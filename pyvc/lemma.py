"""Pure lemma obligations (composition lemmas over contracts; canaries)."""
import time
import z3

from .smt import run_cvc5


def run_lemmas(prop, lemmas, timeout_ms):
    out = []
    for (name, hyps, goal) in lemmas:
        s = z3.Solver()
        s.set('timeout', timeout_ms)
        for h in hyps:
            s.add(h)
        s.add(z3.Not(goal))
        t0 = time.time()
        r = s.check()
        backend = 'z3'
        if r == z3.unknown:
            r2 = run_cvc5(s.to_smt2(), timeout_ms / 1000.0)
            if r2 == 'unsat':
                r, backend = z3.unsat, 'cvc5'
            elif r2 == 'sat':
                r, backend = z3.sat, 'cvc5'
        d = {'name': f'lemma/{name}', 'kind': 'lemma', 'backend': backend, 'time_s': round(time.time() - t0, 4)}
        if r == z3.unsat:
            d['status'] = 'discharged'
            if len(s.sexpr()) < 3000:
                d['smt2'] = s.sexpr()
        elif r == z3.sat:
            d['status'] = 'violated'
            try:
                m = s.model()
                d['model'] = {str(k): str(m[k]) for k in m.decls()[:30]}
            except Exception:
                d['model'] = {}
        else:
            d['status'] = 'undecided'
            d['reason'] = 'solver unknown'
        out.append(d)
    return out
