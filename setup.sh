#!/bin/sh
# Offline setup: nothing to build or download; verify the tool chain is usable.
set -e
cd "$(dirname "$0")"
/opt/veriftools/pyvenv/bin/python -c "import z3; assert z3.get_version_string().startswith('5.'), z3.get_version_string()"
/venv/bin/python -c "import numpy, segyio, zfpy, seismic_zfp"
test -x /usr/bin/cvc5
mkdir -p evidence replays
echo setup ok
