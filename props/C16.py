"""C16 Writer pipeline: output independent of interleaving; always completes."""
import json
import os
import z3

LEVEL = 'proof'
EXPLANATION = ('The thread skeletons (queue constructions and capacities, Thread targets and argument bindings, start order, producer '
               'calls, join order, flush/return, and per worker the program-order sequence of get/put/task_done/write) are EXTRACTED '
               'from the AST of run_conversion_loop, compressor, writer and the three producers on every run. Over that transition '
               'system (atomic steps = queue operations, thread starts, file writes) a global invariant is proved inductive for every '
               'step of every thread (interference freedom included), for symbolic item count N >= 1 and capacities K1, K2 >= 1: '
               'on return the file is header + blocks 0..N-1 in order, both workers are parked at an empty queue, no step is enabled '
               'afterwards (nothing written after the return), no deadlock before it, and a variant decreases on every step (termination '
               'under every schedule).  The transition system treats queue items as values: that the array an iteration hands to the queue '
               'is not an object other iterations overwrite (a reused buffer would be changed under the compressor by a faster producer) is an '
               'obligation of the producer contracts (`put.item_is_not_a_buffer_reused_by_other_iterations`), which are therefore part of this check, '
               'together with their one-put-per-block-in-block-order event obligations.')
ASSUMPTIONS = [
    'AX-QUEUE: queue.Queue(maxsize=K) is a blocking bounded FIFO; join() returns iff unfinished_tasks == 0; get/put/task_done are atomic',
    'Thread.start runs the target; out_filehandle.write calls are atomic; non-queue statements of the workers touch only their locals (zfpy.compress_numpy is pure)',
    'producers only `put` on their queue parameter (checked syntactically) and put N >= 1 items (a conversion has at least one plane set / trace group)',
    'footer writes and in-place patches follow the call in program order on the calling thread (conversion.py run methods; checked in C18 when built)',
]
TRUSTED = []
_STATE = {}


def select(name):
    return True


def lemmas(tier):
    from pyvc.frontend import Program
    from pyvc import threads as T
    prog = Program(os.environ.get('VERIF_REPO', '/repo'))
    sk = T.extract(prog)
    obs, sys_ = T.obligations(sk)
    _STATE['sys'] = sys_
    _STATE['skeleton'] = {'queues': sk.queues, 'threads': {k: v[0] for k, v in sk.threads.items()},
                          'main': [(o, str(a)) for o, a, _ in sk.main_ops],
                          'workers': {k: {'pre': [(o, p) for o, p, _ in b['pre']], 'loop': [(o, p) for o, p, _ in b['loop']]} for k, b in sk.bodies.items()}}
    return obs


def replay(violated):
    """bounded search for a reachable bad state gives the schedule; the schedule is forced on the real pipeline"""
    from pyvc import threads as T
    from pyvc.report import native
    import subprocess
    sys_ = _STATE.get('sys')
    if sys_ is None:
        return {'reproduced': None, 'detail': 'no transition system'}
    cex = T.bmc(sys_)
    if cex is None:
        return {'reproduced': None, 'detail': 'invariant not inductive / post not implied, but no reachable bad state for N<=3, K<=2 within 60 steps'}
    try:
        p = native([os.path.join(os.path.dirname(os.path.dirname(os.path.abspath(__file__))), 'oracle', 'pipeline_replay.py'),
                    json.dumps({'schedule': cex['schedule'], 'N': cex['N']})], timeout=300)
        for line in reversed(p.stdout.strip().splitlines()):
            if line.startswith('{'):
                r = json.loads(line)
                r['counterexample_schedule'] = cex
                return r
        return {'reproduced': None, 'detail': f'replay gave no verdict: {p.stderr[-300:]}', 'counterexample_schedule': cex}
    except subprocess.TimeoutExpired:
        return {'reproduced': None, 'detail': 'replay timed out (possible deadlock in the real pipeline)', 'counterexample_schedule': cex}


def canary():
    x, y = z3.Ints('x y')
    return [('canary.false_post', [x >= 0, y >= 1], (x / y) * y == x)]
