"""C04 Trace-header and file-header preservation through compression."""
from .common import kind_of, std_canary

LEVEL = 'proof'
EXPLANATION = ('Chain of contracts on the real functions, each for all trace counts / header values: (capture) io_thread_func / io_thread_func_2d store header f of '
               'source trace t at entry t of array f (C11/C09 contracts, incl. the reduced-I/O reader bytes); (classification) HeaderwordInfo.__init__: list modes '
               '(thorough/exhaustive/strip) mark exactly the listed fields STORED with one int32 array each in ascending code order; heuristic mode under the '
               'precondition of the property: differing field -> STORED, equal non-zero -> CONSTANT, zero -> absent; get_blank_header_info picks the mode and '
               'sizes arrays to the output trace count; (thorough pass) write_headers drops exactly arrays constant over all traces and records that constant, '
               'patches count and table before any footer byte; (serialisation) to_buffer / get_header_array_count = table words / number of STORED fields; '
               'footer array j = int32 little-endian values of the j-th stored field at foot0 + j*512*ceil(4n/512) (both converters, any integer dtype on the NumPy route, '
               'default inline/crossline arrays = axis values, fields in ascending order); (reader) HeaderwordInfo(buffer) reads the same table, get_header_dict gives the '
               'j-th STORED field the same offset, gen_trace_header reads entry i of each array / the constants (C07/C14 contracts); (file headers) '
               'make_header_seismic_file copies the first 3600 bytes of the SEG-Y verbatim into bytes 4096..7696.')
ASSUMPTIONS = [
    'AX-SEGYIO-ENUM: TraceField members behave as their int codes (==, hash, int); the 89 trace header words and their order are parsed from the installed segyio (hash pinned)',
    'heuristic-mode contract: header words other than {189,193} (thorough tier {73,189,193}) are zero in every trace -- the classification of the remaining words is symbolic; '
    'write_headers / get_header_dict / to_buffer contracts: tables with up to 3-4 non-trivial entries (the loops over the 89 words are unrolled, not summarised by an invariant)',
    'AX-NP-ALL: np.all(x) implies x[e] for every index e; astype(int32) is the identity on values within int32 (SEG-Y header words are 2- or 4-byte integers)',
    'reader object state set by SgzReader.__init__ (stride = 512*ceil(len/512) for files newer than 0.2.1) as in the reader contracts; regenerated headers on SEG-Y export: C06',
    'irregular and 2-D capture: C08 / C09; cropper footers: C10',
]
TRUSTED = []


def select(name):
    k, lab = kind_of(name)
    return True


def canary():
    return std_canary()
