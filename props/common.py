"""Shared pieces of the per-property modules: which obligations of a function's verification belong to which
property (one symbolic execution of a function yields value, bounds, read-log and fault obligations at once)."""
import z3


def kind_of(name):
    """'<fuc>/<kind>.<label>' -> (kind, label)"""
    tail = name.split('/')[-1]
    k, _, lab = tail.partition('.')
    return k, lab


def is_value(name):
    k, lab = kind_of(name)
    return k in ('post', 'axiom-pre', 'loop') or (k == 'call' and 'pre' in lab)


def is_readlog(name):
    k, lab = kind_of(name)
    return (k == 'ghost' and (lab.startswith('reads') or lab.startswith('preload') or lab.startswith('one_backend') or lab.startswith('read_is')))\
        or (k == 'call' and '_get_compressed_bytes.pre' in lab) or (k == 'post' and lab == 'provenance')


def is_bounds(name):
    k, lab = kind_of(name)
    return k == 'raises' or (k == 'post' and lab in ('elem', 'shape', 'is_array', 'scalar_only_for_length_1')) or (k == 'call' and 'pre' in lab)


def is_fault(name):
    k, lab = kind_of(name)
    return k == 'ghost' and (lab.startswith('pool.') or lab.startswith('fault'))


def std_canary():
    x, y = z3.Ints('x y')
    return [('canary.false_post', [x >= 0, y >= 1], (x / y) * y == x)]
