"""C01 Write-then-read fidelity (producer side + layout agreement; reader side is C02)."""
from .common import std_canary

LEVEL = 'proof'
EXPLANATION = ('Producers (real source): every array handed to the compression queue has exactly the shape of the plane set / block it '
               'stands for and is, element by element, the edge-replicated source; with the stream order of zfp (AX-ZFP-ENC) and the '
               'sequential order of the loops the ub bytes of every 4x4x4 cell land at the file offset the specification prescribes '
               '(layout agreement spec_off), for all cube shapes and every valid (rate, blockshape). The reader returns the spec-defined '
               'volume (C02: read_volume under contract), the pipeline writes the compressed events in put order (C16), the header states '
               'the matching sizes (C03). Composition: read_volume(write(X)) = DEC(ENC(edgepad(X))) cell by cell.')
# read-back fidelity needs the header words the reader decodes (C03 set) and the read paths that decode the data (C02 set)
INCLUDES = ('C02', 'C03')
ASSUMPTIONS = [
    'AX-ZFP-ENC: compress_numpy(A, rate, write_header=False) = concatenation over the cells of A in C order of ENC_r(cell), ub bytes each (probed)',
    'AX-NP-INDEX incl. np.pad(...,"edge"); Python for-loops over range iterate in order (rank of an event = mixed-radix number of its loop indices)',
    'routes under contract: NumPy (numpy_producer), regular SEG-Y (seismic_file_producer + io_thread_func for every inline block extent (symbolic extent; unrolled 4/8[/16] as cross-check), MinimalInlineReader.read_line against AX-SEGY-LAYOUT); AX-SEGYIO-R handle model; pyzgy/pyvds handles assumed to satisfy the same interface; CLI not under contract',
]
TRUSTED = []


def select(name):
    from .common import kind_of
    k, lab = kind_of(name)
    return not (k == 'event' and lab.startswith('hash')) and not (k == 'ghost')


def canary():
    return std_canary()
