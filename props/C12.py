"""C12 Re-blocking to the z-slice layout changes layout only."""
from .common import kind_of, std_canary

LEVEL = 'exploration'
EXPLANATION = ('BOUNDED stand-in (never counted as proved): the copying loops of convert_to_adv_sgz (four nested symbolic loops whose slice stores rely on '
               'Python\'s out-of-range slice semantics) are outside the reach of the VC generator. bounded/C12.py runs the real function on a grid of default-layout '
               '2-bit sources (each axis below / at / above one and two 64-blocks, sample counts around 1024, 0/2/3 stored arrays, regular and irregular) and compares the '
               'output with the source under the independent spec oracle (conformance, cell-by-cell decode on every real voxel, footer arrays) and under the real reader '
               '(volume, axes, trace count, every trace header, file headers, hash). Deductive part: refusal of every input other than 2-bit (4,4,1024) with an '
               'AssertionError before any output exists (contract on the real function, all shapes).')
ASSUMPTIONS = [
    'bounded: the listed (shape, stored arrays, regularity) cases only; spec oracle (oracle/specsgz.py) written from docs/file-specification.md',
    'zfpy decoding used by the oracle to compare volumes is the same library the reader uses (bitwise comparison of two decodes of the same bytes)',
]
TRUSTED = []


def select(name):
    return True


def canary():
    return std_canary()
