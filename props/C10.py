"""C10 Cropping."""
from .common import std_canary

LEVEL = 'proof'
EXPLANATION = ('check_and_correct_bounds: IndexError iff no range / range outside the cube / empty or inverted (both directions, all None '
               'patterns); result = box widened outward to block boundaries and clipped. write_cropped_file_by_indexes (real source, all '
               'layouts): refusals leave no output file; writes are header, data, then one footer array per stored array; data section = '
               'exactly the stated disk blocks; every cell / block of the padded output grid is the corresponding source cell / block '
               '(through the read_chunk_range contract for 4x4xN and the L3-verified block copy for other layouts); header words for '
               'dimensions, array length, trace count, block count, axis origins; footer arrays int32, values of the box, padded to the '
               'stride of the file\'s own version.')
ASSUMPTIONS = [
    'reader object state as established by __init__ (objects.mk_reader); trace length below 65536 samples (16-bit sample-count word of the SEG-Y binary header), grid below 2^29 traces',
    'write_cropped_file_by_coords = index lookup (coord_to_index) + the verified by-index function; the lookup is not under contract yet',
    'decoded-volume equality of the cropped file follows from copied-cell provenance + C02 on the output file (composition by modularity)',
]
TRUSTED = []


def select(name):
    return True


def canary():
    return std_canary()
