"""C08 Irregular 3D surveys: trace identity, inferred grid and zero-filled holes."""
from .common import kind_of, std_canary

LEVEL = 'proof'
EXPLANATION = ('Per function, for all grids, populations and trace counts: get_range gives each axis its own origin/end/increment (all lines present, as C08 quantifies); '
               'make_header (irregular) writes those, the grid counts, the source trace count; unstructured_io_thread_func (if-conversion of the presence test inside the '
               'independent-iterations loop): buffer = source trace at every populated (inline no, crossline no), 0.0 at holes, beyond the grid and beyond the samples, header f '
               'of the trace at entry row*nX+x, hole entries untouched (zero from the allocation); seismic_file_producer (irregular): arrays put = that zero-filled, zero-extended '
               'grid with cells at spec_off, header arrays re-allocated per grid position; SgzReader.__init__: structured = (trace count == grid); get_unstructured_mask = (stored '
               'inline number != 0) read once from the offset of field 189; get_trace(i) = volume at the i-th populated grid position (and at grid position i with the override, '
               'whatever was read before); volume-style reads on the grid: C02 contracts (they do not depend on structured).')
ASSUMPTIONS = [
    'traces_ref maps exactly the (inline no, crossline no) pairs carried by a source trace to its ordinal (infer_geometry builds it with a dict comprehension over the headers: read, not verified); '
    'the i-th populated grid position in row-major order is the i-th source trace because the source is inline-sorted (quantifier of C08)',
    'AX-NP-WHERE (boolean-mask selection = ascending positions where the mask holds), AX-SEGYIO-R for trace/header by ordinal',
    'unstructured_io_thread_func verified for a symbolic inline block extent (both loops as independent iterations) and unrolled for 4 / 8 as cross-check; LEMMA-RANGE-LEN (range(a, a+(n-1)s+1, s) has n elements) trusted; inline number 0 marks a hole in the mask (a survey whose real inline number is 0 is outside what the format can express)',
    'bounds of irregular trace ordinals follow numpy sequence semantics (negative ordinals wrap); gen_trace_header / get_tracefield_values on irregular files: only the parts shared with the regular contracts',
]
TRUSTED = []


def select(name):
    return True


def canary():
    return std_canary()
