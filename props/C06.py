"""C06 SEG-Y export round trip."""
from .common import kind_of, std_canary

LEVEL = 'proof'
EXPLANATION = ('What the exporter hands to segyio and writes itself, per function on the real source: convert_to_segy builds the segyio spec from the reader axes (samples, inlines, '
               'crosslines, inline sorting) and takes the sample format from the big-endian word at bytes 3225-3226 of the stored binary header when it is IBM(1)/IEEE(5), else IBM with '
               'only that word patched; write_segy assigns ALL traces in ordinal order, trace i = get_trace(i) = every real sample of the decoded volume at (i // nX, i % nX) '
               '(get_trace contract: C02), all headers in ordinal order from regenerate_trace_header(i) = gen_trace_header(i) with DelayRecordingTime := first sample time, and '
               'finally overwrites the first 3600 bytes of the output with the stored SEG-Y file header, byte for byte. With C04 (every header field read back equals the source) and '
               'C02 this is the round trip up to what segyio does with the spec.')
ASSUMPTIONS = [
    'AX-SEGYIO-W: segyio.create(file, spec) writes the traces / headers assigned to .trace / .header in order, in the format spec.format (IBM rounding is segyio\'s); not verified',
    'regular 3-D reader state (mk_reader); 2-D / irregular exports use the same functions with the tracecount branch of convert_to_segy (read, not separately verified); the sgz2sgy command is under a data-flow contract',
    'sample axis starts at a whole millisecond (it is regenerated from a 16-bit header field)',
]
TRUSTED = ['segyio.create / segyio.spec']


def select(name):
    return True


def canary():
    return std_canary()
