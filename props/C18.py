"""C18 Partial files: an interrupted conversion or copy never reads back as data."""
from .common import kind_of, std_canary

LEVEL = 'proof'
EXPLANATION = ('Two parts. (1) Byte-length cuts: a file of length L < complete length answers every range read that crosses L with fewer bytes than requested -- one '
               'of the environments of the fault mode of C17 (any read may raise or come back short). Under contract in that mode: the range-read primitives raise on a short '
               'result; SgzReader.__init__ (plain, preload, 2-D), every loader function, the sample-reading methods and gen_trace_header: NORMAL RETURN => every read was complete, '
               'so the bytes used are bytes of the complete file at the same offsets and the value contracts (C02/C04) give the same result as on the complete file; otherwise the '
               'call raises. (2) Prefixes of the write sequence: the pipeline writes header, then the compressed blocks in order (C16); write_headers (contract) performs the in-place '
               'patches of array count and table BEFORE it appends the first footer byte, and appends the footer arrays in table order at the reader stride; the hash patch is last. '
               'Hence every prefix state is a byte-length cut of a file whose header/table already describe the final footer (or, before the patches, a table whose every stored '
               'array lies beyond the end of the file), and part (1) applies.')
ASSUMPTIONS = [
    'write order across functions: SeismicFileConverter.run / NumpyConverter.run are under contract (run_conversion_loop, then write_headers, then write_hash, one handle); cuts INSIDE a write are '
    'byte-length cuts (AX-FILE: a write appends its bytes in order)',
    'the stored hash (patched last) reads as zeros from a partial file: outside "samples and headers" and not covered',
    'cropper / re-blocker / exporter reading a partial SOURCE: only through the reader functions above (the re-blocker\'s own raw reads are not covered)',
]
TRUSTED = []


def select(name):
    k, lab = kind_of(name)
    return (k == 'ghost' and (lab.startswith('fault') or lab.startswith('pool'))) or k == 'raises' or (k == 'call' and 'pre' in lab) \
        or (k == 'post' and ('patches_precede' in lab or lab.startswith('footer') or lab.startswith('thorough') or lab.startswith('no_in_place') or lab.startswith('strip')))


def canary():
    return std_canary()
