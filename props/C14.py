"""C14 Bounds safety."""
from .common import is_bounds, std_canary

LEVEL = 'proof'
EXPLANATION = ('For every sample-reading method under contract: raises IndexError (WrongDimensionalityError on a 2D/3D mismatch) '
               'IF AND ONLY IF an argument lies outside the real extent (both directions are obligations, on every path incl. '
               'implicit numpy/struct exceptions); on normal return every element is V[real coordinate] and every byte fed to the '
               'decoder comes from inside the data section (call preconditions of the read choke point).')
ASSUMPTIONS = [
    'methods under contract: read_inline, read_crossline, read_zslice, read_subvolume (+access_padding), read_volume, read_subplane, get_trace (3-D/2-D, all window forms)',
    'not covered deductively yet: diagonals, *_number / *_coord lookups, gen_trace_header, accessors (C13)',
    'cubes with every dimension >= 2 (the properties\' quantifier)',
]
TRUSTED = []


def select(name):
    return is_bounds(name)


def canary():
    return std_canary()
