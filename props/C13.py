"""C13 segyio emulation (accessor semantics)."""
import hashlib
import z3
from .common import std_canary

LEVEL = 'proof'
SEGYIO_LINE_PY = '/venv/lib/python3.12/site-packages/segyio/line.py'
SEGYIO_LINE_SHA256 = '813be8a66c9e4ac3d86d637d1df587e975cdfe3cfe2f9fdd477c5b489d1d4fe5'
EXPLANATION = ('Accessor.__getitem__/__len__ and SliceAccessor.__getitem__ (real source) against spec functions transcribed from the installed '
               'segyio (line.py: sanitize_slice + Line.ranges) and CPython (slice.indices, negative-index wrap): for ordinal accessors '
               '(trace, header, depth_slice) every combination of start/stop/step given or omitted, any in- or out-of-range values, any '
               'non-zero step: same number of items in the same order as Python sequence slicing; int subscripts with negative wrap and '
               'IndexError iff outside [-n, n). For line-number accessors (iline, xline), ascending and descending axes with any non-zero '
               'increment: every combination of bounds/step given or omitted (bounds existing line numbers, steps multiples of the increment): '
               'same lines in the same order as segyio; iline[n] rejected iff n is not a line number.')
# 'samples equal to the SGZ's decoded volume': the accessors delegate to the read methods of the C02 set
INCLUDES = ('C02',)
ASSUMPTIONS = [
    'AX-SEGYIO-ACC: the transcription of segyio.line.sanitize_slice / Line.ranges (hash of the installed file pinned; a changed hash makes the check exit 3)',
    'values_function abstracted: VF(n) = item n / IndexError iff n not on the axis (established by the C02/C14 contracts of the read methods)',
    'line numbers >= 1 (segyio itself wraps negative numbers in slice.indices); structure of VALUES (shapes, header dicts, bin/text, attributes, tools.*, subvolume[...]) not covered by this check',
]
TRUSTED = []


def select(name):
    return True


def lemmas(tier):
    h = hashlib.sha256(open(SEGYIO_LINE_PY, 'rb').read()).hexdigest()
    ok = (h == SEGYIO_LINE_SHA256)
    return [('C13.transcribed_segyio_source_unchanged(sha256 of segyio/line.py)', [], z3.BoolVal(ok))]


def canary():
    return std_canary()
