"""C19 Configuration soundness."""
import z3

LEVEL = 'proof'
EXPLANATION = ('define_blockshape_3d/_2d (real source, re-read every run) verified against VALID3/VALID2: normal return => '
               'valid and as requested; a valid request (at most one free component) is never refused; every path, for '
               'int / float / numeric-string bits_per_voxel and arbitrary integer block dimensions. Layout obligations '
               'for every valid setting live in C01/C02/C09.')
ASSUMPTIONS = [
    'S3(a): float bits_per_voxel modelled as exact reals (sound on the dyadic rate set; near-miss floats enumerated under CPython in the bounded stage)',
    'blockshape components are Python ints (the CLI and API pass ints)',
    'the converters call define_blockshape before opening the output (checked in C03 call-order obligations)',
]
TRUSTED = []


def canary():
    x = z3.Int('x')
    return [('canary.false_post', [x >= 4], x * x == 32768)]
