"""C19 Configuration soundness."""
import z3

LEVEL = 'proof'
EXPLANATION = ('define_blockshape_3d/_2d (real source, re-read every run) verified against VALID3/VALID2: normal return => '
               'valid and as requested; a valid request (at most one free component) is never refused; every path, for '
               'int / float / numeric-string bits_per_voxel and arbitrary integer block dimensions. C19 promises the guarantees of '
               'C01-C03 for every accepted setting, so the contract sets of C01, C02 and C03 (producers, header, reader init, loaders and '
               'readers over the configuration case split incl. blockshapes with unequal inline / crossline / sample dimensions) are part '
               'of this check (INCLUDES); the 2-D layouts are in C09.')
INCLUDES = ('C01', 'C02', 'C03')
ASSUMPTIONS = [
    'S3(a): float bits_per_voxel modelled as exact reals (sound on the dyadic rate set; near-miss floats enumerated under CPython in the bounded stage)',
    'blockshape components are Python ints (the CLI and API pass ints)',
    'the converters call define_blockshape before opening the output (checked in C03 call-order obligations)',
]
TRUSTED = []


def canary():
    x = z3.Int('x')
    return [('canary.false_post', [x >= 4], x * x == 32768)]
