"""C05 Geometry preservation."""
import z3
from .common import std_canary

LEVEL = 'proof'
EXPLANATION = ('Writer side: make_header (real source) stores origin, increment and count of each axis, first sample time and the '
               'sample interval in microseconds in the header words the specification prescribes (3-D, irregular and 2-D variants, '
               'every valid setting). Reader side: _parse_coordinates / _parse_dimensions regenerate the axes from those words '
               '(origin + k*step, int32 wrap, version gate for the interval unit). Composition lemmas: signed-pack -> unsigned-read '
               '-> int64 arange -> int32 wrap returns the source axis for any start, any non-zero step (descending too) with all '
               'values in int32; exact sample axis for whole-microsecond intervals.')
ASSUMPTIONS = [
    'S3(a): sample-axis floats are exact reals; the binary64 rounding of 1000.0*(s1-s0) and of arange is examined only by the bounded stage (not built yet)',
    'AX-STRUCT, AX-NP-INDEX (integer arange closed form); counts below 2^29',
    'the reader fields come from _parse_* as called by __init__ (the rest of __init__ is not yet under contract); cropper / re-blocker / exporter axes: C10/C12/C06',
]
TRUSTED = []
P32 = 2 ** 32


def select(name):
    return True


def lemmas(tier):
    s, d, n, k = z3.Ints('s d n k')
    us = s % P32
    ud = d % P32
    v = (us + k * ud) % P32
    wrapped = z3.If(v >= 2 ** 31, v - P32, v)
    hyp = [s >= -2 ** 31, s < 2 ** 31, d != 0, d >= -2 ** 31, d < 2 ** 31, n >= 2, n < 2 ** 29, k >= 0, k < n,
           s + (n - 1) * d >= -2 ** 31, s + (n - 1) * d < 2 ** 31]
    out = [('C05.axis_roundtrip: wrap32(u32(start) + k*u32(step)) == start + k*step', hyp, wrapped == s + k * d),
           ('C05.int64_arange_no_overflow: u32(start) + n*u32(step) < 2^63', hyp, us + n * ud < 2 ** 63)]
    # arange(start, start+step*count, step) has exactly `count` elements for a positive (unsigned-read) step
    st, cnt = z3.Ints('st cnt')
    out.append(('C05.arange_length: ceil((step*count)/step) == count', [st >= 1, cnt >= 0], (st * cnt + st - 1) / st == cnt))
    return out


def canary():
    return std_canary()
