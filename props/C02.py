"""C02 Access-path coherence."""
from .common import is_value, std_canary

LEVEL = 'proof'
EXPLANATION = ('Every loader function and every sample-reading method of SgzReader is symbolically executed from the real '
               'source under its contract: result shape exact and result[idx] == V[coordinate] pointwise, V defined from '
               'the file specification alone (spec_off + per-cell decode). All cube shapes, all arguments; rate/blockshape '
               'by exhaustive case split (quick: representative subset, thorough: all 344 3-D + 57 2-D settings).')
ASSUMPTIONS = [
    'AX-ZFP-DEC: zfpy._decompress decodes cell u of a C-ordered cell grid from bytes [u*ub,(u+1)*ub) (probed in the bounded stage)',
    'AX-NP-INDEX: numpy basic slicing/assignment semantics as modelled in pyvc/npmodel.py',
    'AX-FILE/AX-BLOB: seek+read / download_blob return the requested file range (faults are the subject of C17)',
    'AX-POOL: ThreadPoolExecutor.submit runs the callable once, __exit__ waits; AX-LRU: lru_cache returns the body\'s value',
    'LEMMA-MIXED-RADIX (trusted): every k in [0,n0*n1) is k0*n1+k1 for exactly one (k0,k1) in [0,n0)x[0,n1)',
    'object state of the reader = what __init__ establishes from a conforming header (contracts/objects.mk_reader); cubes with every dimension >= 2',
    'not covered deductively yet: diagonals, coordinate/line-number lookups, accessors, xarray backend (bounded stage / C13)',
]
TRUSTED = []


def select(name):
    return is_value(name)


def canary():
    return std_canary()
