"""C03 Container conformance."""
import z3
from .common import std_canary

LEVEL = 'proof'
EXPLANATION = ('make_header (real source): every header word equals the expression of the inputs the specification prescribes, the '
               'disk-block count is exact (padded voxels x bits / 8 / 4096 with no truncation), array length = 4 x grid traces, '
               'array count and table taken from the header-word info, version word = encoding of the library version object. '
               'Version codec (real source): decode(encode(v)) = v, encoding injective and order preserving with dev < release, '
               'for all major < 2048, minor, patch < 1024 -- symbolic, not enumerated. Reader: _parse_dimensions/_parse_data_sizes '
               'read the same words; rate codec decodes what make_header encodes.')
ASSUMPTIONS = [
    'version STRING parsing (regular expression) is outside the VC theories: the constructor on a string is an assumed contract here; grammar enumeration = bounded stage (not built yet)',
    'footer writers, cropper, re-blocker, file length: not yet under contract (C10/C12 modules) -- this check covers header assembly, version codec and header parsing only',
    'size limit: data section below 2^32 disk blocks (16 TiB), grid below 2^29 traces (else struct.pack raises)',
]
TRUSTED = []


def select(name):
    return True


def lemmas(tier):
    # rate codec round trip on the eight rates: decode(encode(r)) == r
    out = []
    code, = z3.Ints('code')
    r = z3.Real('r')
    for num, den in ((1, 4), (1, 2), (1, 1), (2, 1), (4, 1), (8, 1), (16, 1), (32, 1)):
        enc = num if den == 1 else -den
        dec = z3.RealVal(enc) if enc > 0 else 1 / z3.RealVal(-enc)
        out.append((f'C03.rate_codec[{num}/{den}]', [], dec == z3.RealVal(num) / den))
    return out


def canary():
    return std_canary()
