"""C17 I/O failures are reported, never turned into samples."""
from .common import kind_of, std_canary

LEVEL = 'proof'
EXPLANATION = ('Backend contract deliberately weak: every range read (file: seek+read, blob: download_blob().readall()) may raise or '
               'return fewer bytes than requested (incl. none). Ghost flag fault := some read made on behalf of the call raised or was short. '
               'For the range-read choke point (_get_compressed_bytes, file and blob) and for every loader function and sample-reading method '
               'under contract, symbolic execution of the real source in this fault mode proves: NORMAL RETURN => not fault, and no exception '
               'raised in a thread-pool task was dropped (ghost.pool.*). Together with the value postconditions of C02 (proved for fault-free '
               'executions) this is "raises, or returns the true data". Any subset of failing reads is covered (the flag is a disjunction; the '
               'generic iteration of a fan-out loop stands for every iteration); order independence of the pool fan-outs = the L3 disjointness '
               'obligations of C02 (each task writes only its own range).')
ASSUMPTIONS = [
    'AX-POOL: executor.submit captures exceptions in the future; they surface only through result()/exception(); __exit__ waits for all tasks',
    'AX-GIL: equal-length bytearray / ndarray slice assignments from different threads to disjoint ranges do not interfere',
    'footer / header reads (gen_trace_header, read_variant_headers, get_unstructured_mask, __init__) are covered by the contracts of c_headers_read.py when present; otherwise not by this check',
]
TRUSTED = []


def select(name):
    k, lab = kind_of(name)
    return (k == 'ghost' and (lab.startswith('fault') or lab.startswith('pool'))) or k == 'raises' or (k == 'call' and 'pre' in lab)


def canary():
    return std_canary()
