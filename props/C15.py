"""C15 History independence: caches, preload and shared handles never change a result."""
from .common import kind_of, std_canary

LEVEL = 'proof'
EXPLANATION = ('Contract form of history independence: every read contract takes the reader in ANY state its invariant allows and its postcondition is a function of the '
               'file and the arguments only. State under contract: (a) SgzReader.__init__ establishes the state (ReaderInit) with preload on/off; all fields except the three '
               'caches are frozen (frame condition: a write to a frozen field is refused by the engine); (b) header-array cache: read_variant_headers leaves, for every '
               'requested field, the footer array (or its populated entries) whatever the cache held before -- fresh, loaded padded, loaded masked -- on regular and irregular '
               'files; gen_trace_header / get_unstructured_mask / get_trace (irregular) verified with the mask already loaded and not loaded, with and without the '
               'ordinal override; (c) preload: every loader / read contract is verified in file and preload mode against the same spec result (C02), preload issues no '
               'backend read (C07); (d) lru caches: modelled as transparent (AX-LRU) -- justified by the contracts of the cached functions: their results are spec functions of '
               'their arguments and frozen state, so a cache hit returns what a fresh call returns, for every cache size.')
# every read returns its spec value from ANY state satisfying the reader invariant (C02 set); the contracts registered for C15 add the cache / preload / history states
INCLUDES = ('C02',)
ASSUMPTIONS = [
    'AX-LRU: functools.lru_cache(f) behaves as f when f is a function of its arguments (which the contracts of the cached loader functions establish); in-place mutation of a '
    'cached array by a caller is not tracked by the engine (reviewed: callers slice / copy, none assigns into a returned chunk)',
    'several reader objects / the emulator handle on one file: each reader owns its state; the shared OS file offset is re-positioned by every range read (seek + read in '
    'read_range_file: C07/C17 contracts); concurrent use of one reader from several threads is outside the property',
    'sequences of operations: covered by induction over the invariant (each operation preserves it), not by enumerating sequences',
]
TRUSTED = []


def select(name):
    return True


def canary():
    return std_canary()
