"""C20 Source-data hash."""
from .common import kind_of, std_canary

LEVEL = 'proof'
EXPLANATION = ('Ghost hash log: every hash_object.update(...) of the producers (real source) is checked where it happens, for a generic '
               'iteration of the enclosing loops: the bytes fed are exactly one real inline (n_xlines x n_samples, no padding rows, columns or '
               'samples) of the SOURCE samples, the inlines of a plane set are all its real inlines, in order -- hence the concatenation is the '
               'row-major source cube in trace order, independent of rate and blockshape (the log mentions neither). The digest is the SHA-1 '
               'of that byte string (AX-SHA1).')
ASSUMPTIONS = [
    'AX-SHA1: hashlib.new("sha1") is SHA-1 and incremental update = hash of the concatenation; collision resistance ("differs whenever a sample differs") is assumed',
    'routes under contract: NumPy and regular SEG-Y (either reader); write_hash (20 digest bytes at offset 960) and the flow of the digest through run() are under contract; get_source_data_hash is a plain slice of the header bytes; re-blocker copy: bounded stage of C12',
]
TRUSTED = []


def select(name):
    k, lab = kind_of(name)
    return (k == 'event' and lab.startswith('hash')) or k in ('call', 'post', 'raises')


def canary():
    return std_canary()
