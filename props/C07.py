"""C07 I/O proportionality."""
from .common import is_readlog, std_canary

LEVEL = 'proof'
EXPLANATION = ('Ghost read log: every backend range read issued through the real code is logged by the engine; for each loader '
               'function and read method the log is proved to be EXACTLY the ranges the property allows (the blocks of the '
               'group of 4 lines, one unit per 4x4 column, one block per tile, the blocks/units of the box), pairwise disjoint, '
               'inside the data section; with preload no read at all; the choke point _get_compressed_bytes issues exactly one '
               'read of exactly the requested range for the file and the blob backend.')
ASSUMPTIONS = [
    'AX-FILE / AX-BLOB: read_range_file = one seek + one read; read_range_blob = one download_blob(offset,length).readall()',
    'warm caches: an lru_cache hit issues no read (AX-LRU); the obligations are stated for the miss (cold) path',
    'reader open cost and 4-byte header reads (gen_trace_header) are covered in C03/C04 contracts when built; not here',
]
TRUSTED = []


def select(name):
    return is_readlog(name)


def canary():
    return std_canary()
