"""C09 2D lines: trace order, headers and sample fidelity."""
from .common import kind_of, std_canary

LEVEL = 'proof'
EXPLANATION = ('2-D chain under contract (real source, all trace/sample counts, per valid (1,n,m) setting): define_blockshape_2d (valid settings only); make_header 2-D words '
               '(tracecount word, no 3-D geometry, block count of the padded section); io_thread_func_2d: buffer = edge-replicated trace group, header f of trace t stored at entry t; '
               'seismic_file_producer_2d: every array put = edge-replicated group/block whose 4x4 cells land at spec_off2 (layout agreement), hash = the real traces only; '
               'SgzReader.__init__ 2-D branch: state of a 2-D reader incl. the sample axis first + k*interval; loaders read_and_decompress_trace_range / chunk_range_2d and '
               'read_subplane / get_trace return exactly the requested window of the spec-decoded section; volume-style reads raise WrongDimensionalityError; gen_trace_header(i) '
               'returns entry i of each stored array.')
ASSUMPTIONS = [
    'AX-ZFP-ENC/DEC for 2-D arrays (cells of 4x4, C order), AX-SEGYIO-R trace/header accessors by trace ordinal; detect_geometry (2-D detection from headers) is read, not verified',
    'io_thread_func_2d is verified for a SYMBOLIC trace-group extent (independent iterations, if-converted arms) and unrolled for b1 = 4, 8 (thorough: 16, 32) as a cross-check; the producer uses it by contract for every extent',
    '2-D files carry a version newer than 0.2.1 (the trace-count word exists since then)',
]
TRUSTED = []


def select(name):
    return True


def canary():
    return std_canary()
