"""C11 Converting with an inline/crossline window equals converting the windowed cube."""
from .common import kind_of, std_canary

LEVEL = 'proof'
EXPLANATION = ('Window = ordinal box [min_il,max_il) x [min_xl,max_xl) of the source. Under contract (real source, all cube shapes and windows): '
               'SeismicFileConverter.__init__ accepts the window iff all four bounds are given, 0 included, and otherwise takes the whole grid; '
               'get_blank_header_info sizes every header array to the window trace count; make_header (window variant) writes the window counts, '
               'the line NUMBERS of the window origin and the source increments; io_thread_func fills each plane set with the edge-replicated WINDOW '
               'samples and stores header f of source trace (il0+row)*nX+xl0+x at entry row*nXw+x; seismic_file_producer puts the arrays whose cells '
               'land at the specified offsets of a file of the window shape (layout agreement) and hashes exactly the window rows. Hence every piece of '
               'the output is the function of the windowed traces that a conversion of the sub-cube alone computes.')
ASSUMPTIONS = [
    'AX-SEGYIO-R: the segyio handle returns the inline by NUMBER / header slice by trace ordinal as modelled in contracts/models_ext.py (regular, inline-sorted SEG-Y)',
    'reduce_iops: after the fix 7a327a8 the reduced-I/O reader is dropped whenever the file grid differs from the window, so a windowed conversion always uses segyio; '
    'the full-grid reduced-I/O reader is the MinimalInlineReader contract (C01)',
    'io_thread_func is verified for a SYMBOLIC inline block extent (outer loop as independent iterations with if-converted arms) and, as a cross-check, unrolled for b0 = 4, 8 (thorough: 16); seismic_file_producer uses it by contract for every extent',
    'glue: SeismicFileConverter.run and run_conversion_loop are under data-flow contracts (contracts/c_glue.py: which object reaches which function, in which order), as is the sgy2sgz command (click option parsing itself is click\'s)',
]
TRUSTED = ['SeismicFile.open (assumed handle)', 'check_input_file_exists (assumed no effect)']


def select(name):
    k, lab = kind_of(name)
    return k != 'ghost'


def canary():
    return std_canary()
