"""Assumed contracts of the segyio file handle as the converters use it (AX-SEGYIO-R), as engine models.

A source SEG-Y is abstracted as:  XSRC(i, x, z)  the float32 sample of the trace at inline ordinal i, crossline ordinal x;
HSRC(t, field) the int32 header value of trace t (inline-major trace order t = i*nX + x for a regular file);
axes ilines / xlines / samples as arithmetic progressions.  Only what the producers touch is modelled."""
import z3

from pyvc.values import (SObj, SInt, STok, SRange, SSlice, PyRaise, Unsupported, ops_binop, ops_cmp, mk_int, mk_bool, zint, zbool,
                         And, Or, Not, Ite, Min, Max, cur, F32, is_sym)
from pyvc.npmodel import SArray
from pyvc.models import SymSeq
from pyvc.symex import untag

XSRC = z3.Function('XSRC', z3.IntSort(), z3.IntSort(), z3.IntSort(), F32)
HSRC = z3.Function('HSRC', z3.IntSort(), z3.IntSort(), z3.IntSort())
IBM2IEEE = z3.Function('IBM2IEEE', F32, F32)      # segyio.tools.native(format=1): IBM float bits -> native float32 (AX-SEGYIO-NATIVE)


def src(i, x, z):
    return STok(XSRC(zint(i), zint(x), zint(z)))


def hsrc(t, field):
    """header value: SEG-Y trace-header fields are 2- or 4-byte integers, so the value fits int32"""
    v = HSRC(zint(t), zint(field))
    try:
        cur().assume_raw(z3.And(v >= -2 ** 31, v < 2 ** 31))
    except RuntimeError:
        pass
    return mk_int(v)


def mk_segy(c, nI, nX, nZ, two_d=False, nT=None):
    """regular SEG-Y handle with nI x nX traces of nZ samples (or a 2-D line of nT traces)"""
    f = SObj(None, clsname='$segy')
    il0 = c.sym_int('sil0', name='source.ilines[0]'); ild = c.sym_int('sild', name='source.iline_step')
    xl0 = c.sym_int('sxl0', name='source.xlines[0]'); xld = c.sym_int('sxld', name='source.xline_step')
    c.assume(ops_cmp('!=', ild, 0), ops_cmp('!=', xld, 0))
    il = SArray((nI,), lambda idx: ops_binop('+', il0, ops_binop('*', idx[0], ild)), 'int32'); il.prog = (il0, ild)
    xl = SArray((nX,), lambda idx: ops_binop('+', xl0, ops_binop('*', idx[0], xld)), 'int32'); xl.prog = (xl0, xld)
    samples = SArray((nZ,), lambda idx: idx[0], 'float64')
    f.fields.update(ilines=il, xlines=xl, samples=samples, tracecount=(nT if two_d else ops_binop('*', nI, nX)),
                    filename='<segy>', unstructured=two_d, structured=not two_d, two_d=two_d, dims=(nI, nX, nZ), nT=nT)
    for nm in ('iline', 'header', 'trace', 'bin'):
        acc = SObj(None, clsname='$segy.' + nm)
        acc.fields['file'] = f
        f.fields[nm] = acc
    return f


# ---- segyio field-code tables (AX-SEGYIO-ENUM): parsed from the installed segyio, pinned by hash
import ast as _ast, hashlib as _hl
TRACEFIELD_PY = '/venv/lib/python3.12/site-packages/segyio/tracefield.py'
TRACEFIELD_SHA = '93647d1955d04bdac8cc43813c8a982bdd22f57572e8b13722e9e61a1123391d'


def _load_tracefields():
    srcb = open(TRACEFIELD_PY, 'rb').read()
    ok = _hl.sha256(srcb).hexdigest() == TRACEFIELD_SHA
    members, keys = {}, {}
    for node in _ast.parse(srcb).body:
        if isinstance(node, _ast.ClassDef) and node.name == 'TraceField':
            for st in node.body:
                if isinstance(st, _ast.Assign) and isinstance(st.value, _ast.Constant) and isinstance(st.value.value, int):
                    members[st.targets[0].id] = st.value.value
        if isinstance(node, _ast.Assign) and getattr(node.targets[0], 'id', None) == 'keys':
            keys = _ast.literal_eval(node.value)
    return ok, members, keys


TF_PINNED, TF_MEMBERS, TF_KEYS = _load_tracefields()
TF_ENUMS = sorted(set(TF_MEMBERS.values()))                       # TraceField.enums(): sorted by code (91)
TF_TRACE_KEYS = [k for k in TF_ENUMS if k not in (233, 237)]      # segyio Field(kind='trace') keys: the 89 header words
TF_DOTTED = ('segyio.tracefield.TraceField', 'segyio.TraceField', 'segyio.segy.TraceField')


def mk_hdr(t, seg=None):
    h = SObj(None, clsname='$segyhdr')
    h.fields['t'] = t
    h.fields['file'] = seg
    h.fields['__iter__'] = lambda: list(TF_TRACE_KEYS)
    return h


def hdr_value(h, field):
    """value of one header word of a source trace; a contract may restrict which words are non-zero at all
    (seg.fields['nonzero_fields']): the others are the constant 0 in every trace"""
    seg = h.fields.get('file')
    nz = seg.fields.get('nonzero_fields') if seg is not None else None
    if nz is not None and field not in nz:
        return 0
    return hsrc(h.fields['t'], field)


EXTRA_REGISTRARS = []


def register(lib):
    M = lib.methods
    E = lib.ext
    for r in EXTRA_REGISTRARS:
        r(lib)

    def tf_attr(I, obj, attr):
        from pyvc.symex import ExtRef
        if isinstance(obj, ExtRef) and obj.dotted in TF_DOTTED and attr in TF_MEMBERS:
            return TF_MEMBERS[attr]          # AX-SEGYIO-ENUM: members are ints for ==, hash, int(), arithmetic
        if isinstance(obj, ExtRef) and obj.dotted in ('segyio.BinField', 'segyio.binfield.BinField') and attr == 'Format':
            return 3225
        if isinstance(obj, ExtRef) and obj.dotted == 'segyio.tracefield' and attr == 'keys':
            k = SObj(None, clsname='$tfkeys')
            return k
        return NotImplemented
    lib.attr_hooks.append(tf_attr)

    def tf_call(I, k):
        k = untag(k)
        if not isinstance(k, int):
            raise Unsupported('TraceField(symbolic)')
        if k not in TF_ENUMS:
            raise PyRaise('ValueError', f'{k} is not a valid TraceField')
        return k
    for d in TF_DOTTED:
        E[d] = tf_call
        E[d + '.enums'] = lambda I: list(TF_ENUMS)

    def tfkeys_get(I, ks, name):
        # keys[str(TraceField(hw))] == int(hw): the engine keeps TraceField(hw) as the int, so str() gives digits
        name = untag(name)
        if isinstance(name, str) and name.isdigit() and int(name) in TF_ENUMS:
            return int(name)
        if isinstance(name, str) and name in TF_KEYS:
            return TF_KEYS[name]
        raise PyRaise('KeyError', repr(name))
    M[('$tfkeys', '__getitem__')] = tfkeys_get
    M[('$tfkeys', 'values')] = lambda I, ks: list(TF_KEYS.values())
    M[('$tfkeys', 'keys')] = lambda I, ks: list(TF_KEYS.keys())

    def segy_field(I, buf, kind='trace', **kw):
        """segyio.field.Field(buf, kind='trace'): a mapping over the 89 header words backed by 240 bytes"""
        if kind != 'trace':
            raise Unsupported('Field kind ' + str(kind))
        h = SObj(None, clsname='$segyfield')
        h.fields['buf'] = buf
        h.fields['__iter__'] = lambda: list(TF_TRACE_KEYS)
        return h
    def tools_native(I, data, format=1, copy=True):
        data = untag(data)
        if not isinstance(data, SArray) or format != 1:
            raise Unsupported('segyio.tools.native')
        return SArray(data.shape, lambda idx, d=data: STok(IBM2IEEE(d.fn(idx).z)), 'float32')
    E['segyio.tools.native'] = tools_native
    for d in ('segyio.segy.Field', 'segyio.field.Field', 'segyio.Field'):
        E[d] = segy_field

    def iline_get(I, acc, number):
        """file.iline[n]: (nX, nZ) samples of the inline with NUMBER n; KeyError if n is not an inline number"""
        f = acc.fields['file']
        nI, nX, nZ = f.fields['dims']
        il0, ild = f.fields['ilines'].prog
        number = untag(number)
        rel = ops_binop('-', number, il0)
        ordinal = ops_binop('//', rel, ild)
        ok = And(ops_cmp('==', ops_binop('%', rel, ild), 0), ops_cmp('>=', ordinal, 0), ops_cmp('<', ordinal, nI))
        if not (ok is True or cur().decide(zbool(ok), raise_split=True)):
            raise PyRaise('KeyError')
        return SArray((nX, nZ), lambda idx, o=ordinal: src(o, idx[0], idx[1]), 'float32')
    M[('$segy.iline', '__getitem__')] = iline_get

    def trace_get(I, acc, t):
        f = acc.fields['file']
        nI, nX, nZ = f.fields['dims']
        n = f.fields['tracecount']
        t = lib.norm_index(untag(t), n)
        if f.fields['two_d']:
            return SArray((nZ,), lambda idx, t=t: src(0, t, idx[0]), 'float32')
        return SArray((nZ,), lambda idx, t=t: src(ops_binop('//', t, nX), ops_binop('%', t, nX), idx[0]), 'float32')
    M[('$segy.trace', '__getitem__')] = trace_get

    def bin_get(I, acc, key):
        f = acc.fields['file']
        if untag(key) == 3225:
            return f.fields.get('format', 5)
        raise Unsupported('segy.bin[%r]' % (key,))
    M[('$segy.bin', '__getitem__')] = bin_get

    def header_get(I, acc, key):
        f = acc.fields['file']
        n = f.fields['tracecount']
        key = untag(key)
        if isinstance(key, SSlice):
            from pyvc.values import slice_bounds
            lo, hi = slice_bounds(key, n)
            return SymSeq(ops_binop('-', hi, lo), lambda k, lo=lo: mk_hdr(ops_binop('+', lo, k), f))
        t = lib.norm_index(key, n)
        return mk_hdr(t, f)
    M[('$segy.header', '__getitem__')] = header_get

    def hdr_get(I, h, field):
        field = untag(field)
        field = getattr(field, 'value', field)
        return hdr_value(h, field)
    M[('$segyhdr', '__getitem__')] = hdr_get
    M[('$segyhdr', 'items')] = lambda I, h: [(k, hdr_value(h, k)) for k in TF_TRACE_KEYS]
    M[('$segyhdr', 'keys')] = lambda I, h: list(TF_TRACE_KEYS)
