"""Contracts on seismic_zfp/cropping.py (C10; container conformance of the cropped file: C03)."""
import z3
from fractions import Fraction

from pyvc.contract import fuc, Contract
from pyvc.values import (And, Or, Not, Implies, Iff, Ite, Min, Max, ops_binop, ops_cmp, mk_bool, mk_int, zint, zbool,
                         SInt, SObj, STok, is_sym, Unsupported, cur)
from pyvc.npmodel import SArray
from pyvc import bytesmodel as BM
from pyvc import models_io as IO
from . import spec as S
from . import objects as O
from .c_loader import (register, CFG_DEFAULT, CFG_ZSLICE, CFG_GENERAL, ALL3, add, sub, mul, fdiv, mod, eq, le, lt, ge, gt, F, BLK)
from .c_read import ReadContract, in_range
from .c_header import hdr_u32, hdr_s32

NONE_PATTERNS = [(False, False, False), (True, False, False), (False, True, False), (False, False, True), (True, True, True), (True, True, False)]


class CropContract(ReadContract):
    cls_name = 'SgzCropper'
    exact_result = True
    none = (False, False, False)

    def crop_inputs(self, c):
        g, rd = self.reader(c)
        # fields the cropper uses beyond the plain reader state
        rd.fields['headerbytes'] = BM.file_bytes(BM.K_FILE, 0, 2 * BLK)
        rd.fields['stored_header_keys'] = []
        rd.fields['file_version_newer_than_021'] = None
        # sample axis in whole milliseconds (first sample and interval integers): the header word that carries the start is an integer
        zi0 = c.sym_int('zi0', lo=-32768, hi=32767, name='first_sample_ms'); zid = c.sym_int('zid', lo=1, hi=65, name='sample_interval_ms')
        from pyvc.values import mk_float
        zs = SArray((g.nZ,), lambda idx: mk_float(z3.ToReal(zint(add(zi0, mul(idx[0], zid))))), 'float64')
        zs.prog = (zi0, zid)
        zs.int_fn = lambda k: add(zi0, mul(k, zid))
        rd.fields['zslices'] = zs
        d = dict(self=rd, _g=g)
        names = ('iline_index_range', 'xline_index_range', 'zslices_index_range')
        for k, nm in enumerate(names):
            if self.none[k]:
                d[nm] = None
            else:
                d[nm] = (c.sym_int(f'lo{k}', name=f'{nm}[0]'), c.sym_int(f'hi{k}', name=f'{nm}[1]'))
        return d

    def ranges(self, g, a):
        names = ('iline_index_range', 'xline_index_range', 'zslices_index_range')
        return [a[nm] if a[nm] is not None else (0, g.n[k]) for k, nm in enumerate(names)]

    def valid(self, g, a):
        names = ('iline_index_range', 'xline_index_range', 'zslices_index_range')
        if all(a[nm] is None for nm in names):
            return False
        conds = []
        for k, (lo, hi) in enumerate(self.ranges(g, a)):
            conds += [ge(lo, 0), lt(lo, hi), le(hi, g.n[k])]
        return And(*conds)

    def aligned(self, g, a):
        """requested box widened outward to compression-block boundaries, clipped to the cube"""
        out = []
        for k, (lo, hi) in enumerate(self.ranges(g, a)):
            out.append((mul(g.b[k], fdiv(lo, g.b[k])), Min(g.n[k], mul(g.b[k], S.ceil_div(hi, g.b[k])))))
        return out


def _rbr_w_i(q, env):
    return fdiv(q, mul(mul(env['n_xl_blocks'], env['n_z_blocks']), F(env['self'], 'block_bytes')))


def _rbr_w_x(q, env):
    return mod(fdiv(q, mul(env['n_z_blocks'], F(env['self'], 'block_bytes'))), env['n_xl_blocks'])


RBR = 'cropping.py::SgzCropper.read_block_range'
from pyvc import loops as L      # noqa: E402
RBR_LOOPS = {(RBR, 1): L.IndependentWrites(witness=_rbr_w_i), (RBR, 2): L.IndependentWrites(witness=_rbr_w_x)}


class CheckBounds(CropContract):
    """raises IndexError iff no range is given, a range is outside [0, n], or empty / inverted;
    otherwise returns the box widened outward to block boundaries and clipped to the cube"""
    modular_use = True

    def inputs(self, c):
        return self.crop_inputs(c)

    def raises(self, c, a):
        g = a['self'].geo
        return {'IndexError': Not(self.valid(g, a))}

    def result(self, c, a):
        return tuple(self.aligned(a['self'].geo, a))

    def post(self, c, a, result):
        if c.mode != 'verify':
            return
        g = a['self'].geo
        c.ensure(mk_bool(isinstance(result, tuple) and len(result) == 3), 'three_ranges')
        for k, ((lo, hi), (wlo, whi)) in enumerate(zip(result, self.aligned(g, a))):
            c.ensure(And(eq(lo, wlo), eq(hi, whi)), f'axis{k}.widened_outward_and_clipped')


for _pat in NONE_PATTERNS:
    _cls = type('CheckBounds_' + ''.join('N' if x else 'r' for x in _pat), (CheckBounds,), dict(none=_pat))
    register(_cls, 'cropping.py::SgzCropper.check_and_correct_bounds', ['C10', 'C14'], [CFG_DEFAULT[3], CFG_ZSLICE[0], CFG_GENERAL[5]], modes=('file',),
             tag='none:' + ''.join('1' if x else '0' for x in _pat))


class CropWrite(CropContract):
    loops = RBR_LOOPS
    exact_result = False
    n_arrays = 0

    def check_footer(self, c, a, fwrites, box):
        """footer: array j of the output = rows/cols of the box of source array j, int32, at the stride a reader of the
        file's version derives (512-byte padded after 0.2.1, unpadded before)"""
        if not self.n_arrays:
            return
        g = a['self'].geo
        rd = a['self']
        n_i, n_x = sub(box[0][1], box[0][0]), sub(box[1][1], box[1][0])
        alen = mul(4, mul(n_i, n_x))
        M, m, p, dev = rd.ver
        newer = S.version_lex_lt((0, 2, 1, False), (M, m, p, dev))
        stride = Ite(newer, mul(512, S.ceil_div(alen, 512)), alen)
        for j, wv in enumerate(fwrites):
            d = wv.data
            c.ensure(eq(d.length, stride), f'footer[{j}].length_is_the_stride_of_the_file_version')
            parts = d.origin if getattr(d, 'origin', None) and d.origin[0] == 'concat' else None
            body = parts[1] if parts else d
            arr = getattr(body, 'arr', None)
            c.ensure(mk_bool(arr is not None and arr.dtype == 'int32'), f'footer[{j}].is_int32_array_bytes')
            if arr is None:
                continue
            c.ensure(eq(arr.shape[0], mul(n_i, n_x)), f'footer[{j}].one_value_per_trace_of_the_box')
            ei = c.sym_int('fi', lo=0, name='box_row'); ex = c.sym_int('fx', lo=0, name='box_col')
            c.assume(lt(ei, n_i), lt(ex, n_x))
            srcarr = rd.fields['variant_headers'][rd.fields['stored_header_keys'][j]]
            want = srcarr.fn((add(mul(add(box[0][0], ei), g.nX), add(box[1][0], ex)),))
            c.ensure(eq(arr.fn((add(mul(ei, n_x), ex),)), want), f'footer[{j}].value_is_the_source_trace_value')

    """write_cropped_file_by_indexes, data part: header then the compressed units of the widened box, nothing else
    (no stored header arrays in this variant); refusals leave no output"""
    def inputs(self, c):
        d = self.crop_inputs(c)
        d['out_file'] = '<out>'
        if self.n_arrays:
            rd = d['self']
            g = rd.geo
            from pyvc.symex import TaggedInt
            keys = [189, 193][:self.n_arrays]
            rd.fields['stored_header_keys'] = keys
            vh = {}
            for k in reversed(keys):        # cache filled in another order than the table order (history: C15)
                f = z3.Function(f'hdr{k}', z3.IntSort(), z3.IntSort())
                vh[k] = SArray((mul(g.nI, g.nX),), (lambda ff: (lambda idx: O.bounded_i32(c, mk_int(ff(zint(idx[0]))))))(f), 'int32')
            rd.fields['variant_headers'] = vh
            rd.fields['segy_traceheader_template'] = {k: TaggedInt(c.sym_int(f'off{k}', lo=0), 'FileOffset') for k in keys}
            rd.fields['include_padding'] = False
        return d

    def pre(self, c, a):
        # container size limits (32-bit header words): grid below 2^29 traces, data section below 2^32 blocks
        g = a['self'].geo
        rd = a['self']
        box = self.aligned(g, a)
        i32 = []
        for axis, k in (('ilines', 0), ('xlines', 1)):
            v = F(rd, axis).fn((box[k][0],))          # the reader's line axes are int32 arrays: the value at the box start fits
            i32 += [ge(v, -2 ** 31), lt(v, 2 ** 31)]
        return i32 + [lt(mul(g.nI, g.nX), 2 ** 29), lt(g.nZ, 65536), lt(g.diskblocks, 2 ** 32)]   # (trace length: 16-bit SEG-Y sample count word)

    def raises(self, c, a):
        g = a['self'].geo
        return {'IndexError': Not(self.valid(g, a))}

    def post_raise(self, c, a, cls):
        c.ensure(mk_bool(len(c.ghost.get('opened', [])) == 0), 'refusal_leaves_no_output', kind='ghost')

    def post(self, c, a, result):
        g = a['self'].geo
        box = self.aligned(g, a)
        writes = c.ghost.get('writes', [])
        c.ensure(mk_bool(len(c.ghost.get('opened', [])) == 1), 'one_output_file', kind='ghost')
        c.ensure(mk_bool(len(writes) == 2 + self.n_arrays), 'writes_are_header_data_then_one_per_stored_array', kind='ghost')
        if len(writes) != 2 + self.n_arrays:
            return
        hdr, data = writes[0].data, writes[1].data
        self.check_footer(c, a, writes[2:], box)
        c.ensure(eq(hdr.length, 2 * BLK), 'header_8192_bytes')
        # C03: the data section is exactly the stated number of disk blocks = padded voxels x bits / 8 / 4096
        n_out = [sub(hi, lo) for (lo, hi) in box]
        P_out = [S.pad_spec(n_out[k], g.b[k]) for k in range(3)]
        fr = Fraction(g.rate) if not is_sym(g.rate) else None
        blocks = fdiv(mul(mul(mul(P_out[0], P_out[1]), P_out[2]), fr.numerator), 8 * BLK * fr.denominator)
        c.ensure(eq(data.length, mul(BLK, blocks)), 'data_section_length_is_padded_voxels_x_bits')
        w56 = hdr.field(56, 60)
        for off, val, nm in ((4, n_out[2], 'n_samples'), (8, n_out[1], 'n_xlines'), (12, n_out[0], 'n_ilines'),
                             (60, mul(4, mul(n_out[0], n_out[1])), 'array_length'), (68, mul(n_out[0], n_out[1]), 'tracecount')):
            w = hdr.field(off, off + 4)
            c.ensure(mk_bool(isinstance(w, BM.Packed)) and eq(w.value, val), f'header_word{off}.{nm}')
        # C05/C10: axes of the cropped file are the sub-ranges of the source axes (origins; steps are copied unchanged)
        rd = a['self']
        for off, axis, k in ((24, 'ilines', 0), (20, 'xlines', 1)):
            w = hdr.field(off, off + 4)
            c.ensure(mk_bool(isinstance(w, BM.Packed) and w.fmt == '<i') and eq(w.value, F(rd, axis).fn((box[k][0],))), f'header_word{off}.first_{axis[:-1]}_of_the_box')
        # C05: the sample axis of the cropped file starts at the time of the first kept sample (whole milliseconds: the word is an integer)
        w16 = hdr.field(16, 20)
        c.ensure(mk_bool(isinstance(w16, BM.Packed)) and eq(w16.value, F(rd, 'zslices').int_fn(box[2][0])), 'header_word16.first_sample_time_of_the_box')
        # C03 relation between the words themselves (same terms the code used), then each word against the box
        P_w = []
        for off, k in ((12, 0), (8, 1), (4, 2)):
            w = hdr.field(off, off + 4)
            P_w.append(S.pad_spec(w.value, g.b[k]) if isinstance(w, BM.Packed) else None)
        if all(x is not None for x in P_w):
            blocks_w = fdiv(mul(mul(mul(P_w[0], P_w[1]), P_w[2]), fr.numerator), 8 * BLK * fr.denominator)
            c.ensure(mk_bool(isinstance(w56, BM.Packed)) and eq(w56.value, blocks_w), 'header_word56_is_padded_voxels_of_the_stated_dimensions')
        # copied bytes.  The data written is the buffer built by read_chunk_range (4x4xN) or read_block_range (others):
        # (1) the copy is asked for exactly the widened box; (2) its layout is the output file's layout.
        calls = [x for x in c.ghost.get('calls', []) if x[0].endswith('::SgzLoader3d.read_chunk_range')]
        if g.layout == 'default':
            c.ensure(mk_bool(len(calls) == 1), 'copies_through_read_chunk_range')
            if len(calls) != 1:
                return
            ca = calls[0][1]
            Uo = [S.ceil_div(S.pad_spec(n_out[k], g.b[k]), 4) for k in range(3)]
            c.ensure(And(eq(ca['min_il'], box[0][0]), eq(ca['min_xl'], box[1][0]), eq(ca['min_z'], box[2][0])), 'copy_starts_at_the_widened_box')
            c.ensure(And(eq(ca['il_units'], Uo[0]), eq(ca['xl_units'], Uo[1]), eq(ca['z_units'], Uo[2])), 'copy_covers_the_padded_output_grid')
            c.ensure(mk_bool(data is calls[0][2] or getattr(data, 'content', None) is getattr(calls[0][2], 'content', 0)) or eq(data.length, calls[0][2].length),
                     'data_written_is_the_copied_buffer')
            # layout identity: cell (a,b,c) of the output grid sits where read_chunk_range put unit (a,b,c)
            X, Z = ca['xl_units'], ca['z_units']
            ua = c.sym_int('oa', lo=0, name='out_cell_i'); ub_ = c.sym_int('ob', lo=0, name='out_cell_x'); uc = c.sym_int('oc', lo=0, name='out_cell_z')
            c.assume(lt(ua, ca['il_units']), lt(ub_, X), lt(uc, Z))
            G_out = [ca['il_units'], X, fdiv(Z, g.a[2])]
            c.ensure(eq(mod(Z, g.a[2]), 0), 'z_units_fill_whole_blocks')
            c.ensure(eq(S.spec_off3(ua, ub_, uc, G_out, g.a, g.ub), mul(add(mul(add(mul(ua, X), ub_), Z), uc), g.ub)),
                     'output_layout_is_the_copy_layout')
            return
        # general layouts: read_block_range (verified inline through its L3 loops)
        nb = [c.ctx.named_local(nm) for nm in ('n_il_blocks', 'n_xl_blocks', 'n_z_blocks')]
        fb = [c.ctx.named_local(nm) for nm in ('first_il_block', 'first_xl_block', 'first_z_block')]
        G_out = [fdiv(S.pad_spec(n_out[k], g.b[k]), g.b[k]) for k in range(3)]
        nb = [nb[k] if nb[k] is not None else G_out[k] for k in range(3)]     # (a count that is not a compound term has no let-name)
        c.ensure(And(*[eq(nb[k], G_out[k]) for k in range(3)]), 'copy_covers_the_blocks_of_the_output_grid')
        bi = c.sym_int('obi', lo=0, name='out_block_i'); bx = c.sym_int('obx', lo=0, name='out_block_x'); bz = c.sym_int('obz', lo=0, name='out_block_z')
        w = c.sym_int('ow', lo=0, name='byte_in_block')
        c.assume(lt(bi, nb[0]), lt(bx, nb[1]), lt(bz, nb[2]), lt(w, BLK))
        pos = add(mul(add(mul(add(mul(bi, nb[1]), bx), nb[2]), bz), BLK), w)
        t = data.tok(pos)
        src_blk = add(mul(add(mul(add(fdiv(box[0][0], g.b[0]), bi), g.G[1]), add(fdiv(box[1][0], g.b[1]), bx)), g.G[2]), add(fdiv(box[2][0], g.b[2]), bz))
        src = add(add(g.data_start, mul(BLK, src_blk)), w)
        c.ensure(And(mk_bool(t.zk() == BM.K_FILE), mk_bool(t.zo() == zint(src))), 'copied_block_is_the_source_block')


class CropWriteFooter(CropWrite):
    n_arrays = 2


register(CropWriteFooter, 'cropping.py::SgzCropper.write_cropped_file_by_indexes', ['C10', 'C03', 'C04'], [CFG_DEFAULT[3], CFG_ZSLICE[0], CFG_GENERAL[5]], modes=('file',), tag='footer2')

for _pat in [(False, False, False), (True, False, False), (False, False, True)]:
    _cls = type('CropWrite_' + ''.join('N' if x else 'r' for x in _pat), (CropWrite,), dict(none=_pat))
    register(_cls, 'cropping.py::SgzCropper.write_cropped_file_by_indexes', ['C10', 'C03', 'C05'], CFG_DEFAULT + [CFG_ZSLICE[0], CFG_GENERAL[5]], modes=('file',),
             tag='none:' + ''.join('1' if x else '0' for x in _pat))


# ---------------------------------------------------------------------------------------------
# coordinate front end (C10): line numbers / sample times -> index ranges, then the index cropper

from pyvc.contract import Contract as _Contract      # noqa: E402


class _CropByIndexView(_Contract):
    """call-site view of write_cropped_file_by_indexes (CropWrite contracts): records the index ranges it is asked for"""
    modular_use = True
    exact_result = True
    variant = 'call-site view'
    only_in = ('SgzCropper.write_cropped_file_by_coords',)

    def verify(self, interp, prog, timeout_ms=None):
        from pyvc.smt import Explorer
        ex = Explorer(self.fuc_name()); ex.contract = self; ex.prog = prog
        ex.note_outcome('call-site view (the function has its own contract)')
        return ex, prog.function(self.key)

    def fresh_result(self, c, a):
        c.ghost.setdefault('crop_calls', []).append(a)
        return None


fuc('cropping.py::SgzCropper.write_cropped_file_by_indexes', props=[], modular=True)(_CropByIndexView)


class CropByCoords(CropContract):
    """write_cropped_file_by_coords: each given (start, stop) pair of line numbers is turned into the positions of those numbers on the file's
    axis (stop may be one increment past the end = the axis length), a missing pair stays None, and the index cropper is called once with them;
    a number that is not on the axis -> IndexError before anything is written.  Inline / crossline ranges given, sample range None."""
    may_raise = ()
    incs = (1, 1)

    def inputs(self, c):
        g, rd = self.reader(c)
        d = dict(self=rd, _g=g, out_file='<out>', zslices_coord_range=None)
        info = {}
        for (nm, ax, n), dconc in zip((('iline_coord_range', 'ilines', g.nI), ('xline_coord_range', 'xlines', g.nX)), self.incs):
            a0, d0 = rd.fields[ax].prog
            c.assume(eq(d0, dconc))          # concrete axis increments per variant (keeps the number -> position arithmetic linear)
            dd = dconc
            arr = SArray((n,), (lambda a0_, d_: (lambda idx: add(a0_, mul(idx[0], d_))))(a0, dd), 'int32')
            arr.prog = (a0, dd)
            rd.fields[ax] = arr
            lo = c.sym_int(nm + '_lo', name=f'{nm}[0]'); hi = c.sym_int(nm + '_hi', name=f'{nm}[1]')
            d[nm] = (lo, hi)
            info[nm] = (a0, dd, n, lo, hi)
        d['_info'] = info
        return d

    def pos(self, a0, dd, v):
        return fdiv(sub(v, a0), dd)

    def on(self, a0, dd, n, v, stop_ok):
        k = self.pos(a0, dd, v)
        return And(eq(mod(sub(v, a0), dd), 0), ge(k, 0), le(k, n) if stop_ok else lt(k, n))

    def raises(self, c, a):
        conds = []
        for nm, (a0, dd, n, lo, hi) in a['_info'].items():
            conds += [self.on(a0, dd, n, lo, True), self.on(a0, dd, n, hi, True)]
        return {'IndexError': Not(And(*conds))}

    def post_raise(self, c, a, cls):
        c.ensure(mk_bool(len(c.ghost.get('crop_calls', [])) == 0 and len(c.ghost.get('opened', [])) == 0), 'refusal_before_anything_is_written', kind='ghost')

    def post(self, c, a, result):
        calls = c.ghost.get('crop_calls', [])
        c.ensure(mk_bool(len(calls) == 1), 'index_cropper_called_once')
        if len(calls) != 1:
            return
        k = calls[0]
        c.ensure(mk_bool(k['out_file'] == '<out>' and k['self'] is a['self'] and k['zslices_index_range'] is None), 'same_output_file_and_no_sample_range')
        for nm, arg in (('iline_coord_range', 'iline_index_range'), ('xline_coord_range', 'xline_index_range')):
            a0, dd, n, lo, hi = a['_info'][nm]
            got = k[arg]
            c.ensure(mk_bool(isinstance(got, tuple) and len(got) == 2) and And(eq(got[0], self.pos(a0, dd, lo)), eq(got[1], self.pos(a0, dd, hi))), f'{arg}_is_the_positions_of_the_given_numbers')


for _incs in ((1, 1), (2, 3), (-2, 5)):
    register(type('CropByCoords', (CropByCoords,), dict(incs=_incs)), 'cropping.py::SgzCropper.write_cropped_file_by_coords', ['C10', 'C05'], [CFG_DEFAULT[3]], modes=('file',), tag=f'increments {_incs[0]}/{_incs[1]}')
