"""Contracts on seismic_zfp/conversion.py: converter construction (window acceptance, C11), header-array sizing (C11, C04)."""
import z3

from pyvc.contract import fuc, Contract
from pyvc.values import (And, Or, Not, Implies, ops_binop, ops_cmp, mk_bool, mk_int, zint, zbool, SInt, SObj, SRange, is_sym, cur)
from . import models_ext as MX
from .c_loader import add, sub, mul, eq, le, lt, ge, gt

INIT = 'conversion.py::SeismicFileConverter.__init__'
OPEN = 'seismicfile.py::SeismicFile.open'
EXISTS = 'conversion.py::SeismicFileConverter.check_input_file_exists'


class SeismicFileOpen(Contract):
    """ASSUMED (AX-SEGYIO-R): SeismicFile.open returns the handle of the source file (a regular 3-D SEG-Y in these contracts)"""
    modular_use = True
    exact_result = True
    variant = 'assumed'

    def verify(self, interp, prog, timeout_ms=None):
        from pyvc.smt import Explorer
        ex = Explorer(self.fuc_name()); ex.contract = self; ex.prog = prog
        ex.note_outcome('assumed contract of the file-opening wrapper (segyio / pyzgy / pyvds are external)')
        return ex, prog.function(self.key)

    def fresh_result(self, c, a):
        seg = c.ghost.get('source_handle')
        if seg is None:
            nI = c.sym_int('nI', lo=2, name='source.n_ilines'); nX = c.sym_int('nX', lo=2, name='source.n_xlines'); nZ = c.sym_int('nZ', lo=2, name='n_samples')
            seg = MX.mk_segy(c, nI, nX, nZ)
            c.ghost['source_handle'] = seg
        return seg


fuc(OPEN, props=[], modular=True)(SeismicFileOpen)


class InputExists(Contract):
    """ASSUMED: the input file exists (FileNotFoundError otherwise is not part of any property)"""
    modular_use = True
    exact_result = True
    variant = 'assumed'
    verify = SeismicFileOpen.verify

    def fresh_result(self, c, a):
        return None


fuc(EXISTS, props=[], modular=True)(InputExists)


class ConverterInit(Contract):
    """window accepted iff all four bounds are given (0 is a bound): geom = the ordinal window; otherwise the whole source"""
    given = (True, True, True, True)
    may_raise = ()

    def inputs(self, c):
        prog = c.ex.prog
        me = SObj(prog.klass('SegyConverter'), {})
        names = ('min_il', 'max_il', 'min_xl', 'max_xl')
        d = dict(self=me, in_filename='in.sgy')
        for nm, g in zip(names, self.given):
            d[nm] = c.sym_int(nm, lo=0, name=nm) if g else None
        return d

    def post(self, c, a, result):
        me = a['self']
        geom = me.fields.get('geom')
        c.ensure(mk_bool(isinstance(geom, SObj) and geom.cls is not None and geom.cls.name == 'Geometry3d'), 'geom_is_a_regular_3d_geometry')
        if not isinstance(geom, SObj):
            return
        il, xl = geom.fields['ilines'], geom.fields['xlines']
        if all(self.given):
            want = [(a['min_il'], a['max_il']), (a['min_xl'], a['max_xl'])]
            lab = 'geom_is_the_requested_window'
        else:
            seg = c.ghost.get('source_handle')
            c.ensure(mk_bool(seg is not None), 'source_was_opened_to_detect_geometry')
            if seg is None:
                return
            nI, nX, _ = seg.fields['dims']
            want = [(0, nI), (0, nX)]
            lab = 'geom_is_the_whole_source_grid'
        for r, (lo, hi), ax in zip((il, xl), want, ('ilines', 'xlines')):
            c.ensure(mk_bool(isinstance(r, SRange)) and And(eq(r.start, lo), eq(r.stop, hi), eq(r.step, 1)), f'{lab}.{ax}')
        c.ensure(mk_bool(me.fields.get('is_2d') is False), 'is_2d_false')


for _g in [(True, True, True, True), (False, False, False, False), (True, True, False, False), (False, True, True, True)]:
    _cls = type('ConverterInit_' + ''.join('g' if x else 'n' for x in _g), (ConverterInit,), dict(given=_g, variant='bounds ' + ''.join('given,' if x else 'None,' for x in _g)))
    fuc(INIT, props=['C11'])(_cls)


# ---------------------------------------------------------------------------------------------
# header-array sizing

HWI_INIT = 'headers.py::HeaderwordInfo.__init__'
BLANK = 'conversion.py::SeismicFileConverter.get_blank_header_info'


class HeaderwordInfoInitCallSite(Contract):
    """call-site view of HeaderwordInfo(...): records the constructor arguments (the constructor itself is under contract in
    c_headers_write)"""
    only_in = ('SeismicFileConverter.get_blank_header_info',)
    modular_use = True
    exact_result = True
    variant = 'call-site view'
    verify = SeismicFileOpen.verify

    def fresh_result(self, c, a):
        c.ghost.setdefault('hwi_calls', []).append(a)
        return None


fuc(HWI_INIT, props=[], modular=True)(HeaderwordInfoInitCallSite)


class BlankHeaderInfo(Contract):
    """one header-array entry per trace of the OUTPUT grid (the window), whatever the detection mode; unknown modes refused"""
    detection = 'heuristic'
    may_raise = ()

    def inputs(self, c):
        from .c_producers import window_geometry
        prog = c.ex.prog
        nI = c.sym_int('nI', lo=2, name='source.n_ilines'); nX = c.sym_int('nX', lo=2, name='source.n_xlines'); nZ = c.sym_int('nZ', lo=2, name='n_samples')
        seg = MX.mk_segy(c, nI, nX, nZ)
        geom, w = window_geometry(c, prog, nI, nX)
        me = SObj(prog.klass('SegyConverter'), dict(geom=geom, is_2d=False))
        return dict(self=me, seismic=seg, header_detection=self.detection, _w=w)

    def raises(self, c, a):
        return {'NotImplementedError': mk_bool(self.detection not in ('heuristic', 'thorough', 'exhaustive', 'strip'))}

    def post(self, c, a, result):
        calls = c.ghost.get('hwi_calls', [])
        c.ensure(mk_bool(len(calls) == 1), 'one_HeaderwordInfo_constructed')
        if len(calls) != 1:
            return
        k = calls[0]
        il0, xl0, nIw, nXw = a['_w']
        c.ensure(eq(k['n_traces'], mul(nIw, nXw)), 'n_traces_is_the_window_trace_count')
        c.ensure(mk_bool(k.get('header_detection') == self.detection), 'detection_mode_recorded')
        if self.detection == 'heuristic':
            c.ensure(mk_bool(k.get('seismicfile') is a['seismic'] and k.get('variant_header_list') is None), 'heuristic_classifies_from_the_source_file')
        elif self.detection in ('thorough', 'exhaustive'):
            vl = k.get('variant_header_list')
            c.ensure(mk_bool(isinstance(vl, list) and len(vl) == 89 and k.get('seismicfile') is None), 'all_89_fields_captured')
        else:
            c.ensure(mk_bool(k.get('variant_header_list') == [] and k.get('seismicfile') is None), 'strip_stores_no_field')


for _d in ('heuristic', 'thorough', 'exhaustive', 'strip', 'bogus'):
    fuc(BLANK, props=['C11', 'C04'])(type('BlankHeaderInfo_' + _d, (BlankHeaderInfo,), dict(detection=_d, variant=_d)))


# ---------------------------------------------------------------------------------------------
# irregular surveys: the inferred axis of one direction (C08)

class GetRange(Contract):
    """InferredGeometry3d.get_range(ids) for the set of line numbers PRESENT on one axis.  Under the quantifier of C08 every line of
    the grid still carries a trace, so ids = {a0 + k*d : 0 <= k < n} (n >= 2, d >= 1): the result is (a0, a0+(n-1)d, d) --
    the axis's own origin, end and increment"""
    may_raise = ()

    def inputs(self, c):
        from pyvc.models import SymIntSet
        a0 = c.sym_int('a0', name='first_line_number'); d = c.sym_int('d', lo=1, name='line_increment'); n = c.sym_int('n', lo=2, name='n_lines')
        return dict(ids=SymIntSet(a0, add(a0, mul(sub(n, 1), d)), n), _a=(a0, d, n))

    def call_args(self, a):
        return [a['ids']], {}, None

    def post(self, c, a, result):
        a0, d, n = a['_a']
        c.ensure(mk_bool(isinstance(result, tuple) and len(result) == 3), 'returns_min_max_step')
        c.ensure(eq(result[0], a0), 'min_is_the_first_line_number')
        c.ensure(eq(result[1], add(a0, mul(sub(n, 1), d))), 'max_is_the_last_line_number')
        c.ensure(eq(result[2], d), 'step_is_the_axis_own_increment')


fuc('utils.py::InferredGeometry3d.get_range', props=['C08', 'C05'])(GetRange)


# ---------------------------------------------------------------------------------------------
# geometry detection (C09: 2-D detection; C08: irregular sources are left to infer_geometry)

class DetectGeometry(Contract):
    """detect_geometry: unstructured source with inline/crossline numbers 0 in first and last trace -> 2-D line of tracecount traces;
    unstructured otherwise -> undecided here (None: geometry is inferred from all headers later); structured source with a single
    inline or crossline -> 2-D line along the other axis; otherwise the whole regular grid"""
    kind = 'regular'
    may_raise = ()

    def inputs(self, c):
        prog = c.ex.prog
        me = SObj(prog.klass('SegyConverter'), dict(geom=None))
        if self.kind in ('2d_headers', 'irregular'):
            nT = c.sym_int('nT', lo=2, name='source.tracecount')
            seg = MX.mk_segy(c, 1, nT, 4, two_d=True, nT=nT)
            seg.fields['nonzero_fields'] = set() if self.kind == '2d_headers' else {189, 193}
            if self.kind == 'irregular':
                c.assume(ops_cmp('!=', MX.hsrc(0, 189), 0))
            d = dict(self=me, seismic=seg, _nT=nT)
        else:
            nI = c.sym_int('nI', lo=1, name='source.n_ilines'); nX = c.sym_int('nX', lo=1, name='source.n_xlines')
            if self.kind == 'one_inline':
                c.assume(eq(nI, 1), ge(nX, 2))
            elif self.kind == 'one_crossline':
                c.assume(eq(nX, 1), ge(nI, 2))
            else:
                c.assume(ge(nI, 2), ge(nX, 2))
            seg = MX.mk_segy(c, nI, nX, 4)
            d = dict(self=me, seismic=seg, _n=(nI, nX))
        return d

    def post(self, c, a, result):
        geom = a['self'].fields.get('geom')
        cls = geom.cls.name if isinstance(geom, SObj) and geom.cls is not None else None
        if self.kind == 'irregular':
            c.ensure(mk_bool(geom is None), 'irregular_source_left_for_infer_geometry')
        elif self.kind == 'regular':
            nI, nX = a['_n']
            c.ensure(mk_bool(cls == 'Geometry3d') and And(eq(geom.fields['ilines'].start, 0), eq(geom.fields['ilines'].stop, nI), eq(geom.fields['xlines'].start, 0), eq(geom.fields['xlines'].stop, nX)), 'whole_regular_grid')
        else:
            c.ensure(mk_bool(cls == 'Geometry2d'), 'two_d_line')
            if cls == 'Geometry2d':
                tr = geom.fields.get('traces')
                from pyvc.models import SymSeq
                n = a['_nT'] if self.kind == '2d_headers' else (a['_n'][1] if self.kind == 'one_inline' else a['_n'][0])
                ln = tr.length if isinstance(tr, SymSeq) else (len(tr) if isinstance(tr, list) else None)
                c.ensure(mk_bool(ln is not None) and eq(ln, n), 'one_entry_per_trace_of_the_line')


for _k in ('regular', 'one_inline', 'one_crossline', '2d_headers', 'irregular'):
    fuc('conversion.py::SeismicFileConverter.detect_geometry', props=['C09', 'C08', 'C11'])(type('DetectGeometry_' + _k, (DetectGeometry,), dict(kind=_k, variant=_k)))
