"""Contracts on the producers of seismic_zfp/conversion_utils.py (C01 content + layout agreement, C20 hash log, C09, C11).

A producer's observable effects are events: arrays handed to the compression queue (queue.put) and byte strings fed to
the hash object.  Each put is checked where it happens, for a generic iteration of every enclosing loop:
   * shape and pointwise content = the edge-replicated source on the index box the event stands for;
   * LAYOUT AGREEMENT: with the stream order of zfp (AX-ZFP-ENC: cells of the array in C order, ub bytes each) and the
     sequential order of the loops, the bytes of cell (iu,xu,zu) land at the file offset the specification prescribes
     (spec_off) -- for every cube shape, per valid (rate, blockshape);
   * hash events: exactly the real samples, row by row in trace order, each row once.
"""
import z3
from fractions import Fraction

from pyvc.contract import fuc, Contract
from pyvc.values import (And, Or, Not, Implies, Iff, Ite, Min, Max, ops_binop, ops_cmp, mk_bool, mk_int, zint, zbool,
                         SInt, SObj, STok, is_sym, Unsupported, cur, F32)
from pyvc.npmodel import SArray
from pyvc import loops as L
from pyvc import models_io as IO
from . import spec as S
from . import objects as O
from .c_loader import (register, CFG_DEFAULT, CFG_ZSLICE, CFG_GENERAL, ALL3, ALL2, add, sub, mul, fdiv, mod, eq, le, lt, ge, gt, F, BLK)

XSRC = z3.Function('XSRC', z3.IntSort(), z3.IntSort(), z3.IntSort(), F32)     # the source cube (opaque float32 samples)


def src(i, x, z):
    return STok(XSRC(zint(i), zint(x), zint(z)))


def edgepad(n, i, x, z):
    return src(Min(i, sub(n[0], 1)), Min(x, sub(n[1], 1)), Min(z, sub(n[2], 1)))


class ProducerContract(Contract):
    cfg = None
    may_raise = ()
    exact_result = False

    def geometry(self, c):
        rate, b = self.cfg
        nI = c.sym_int('nI', lo=2, name='n_ilines'); nX = c.sym_int('nX', lo=2, name='n_xlines'); nZ = c.sym_int('nZ', lo=2, name='n_samples')
        n = (nI, nX, nZ)
        G = []
        for k in range(3):
            Gk = c.sym_int(f'G{k}', lo=1, name=f'blocks_axis{k}')
            c.assume(le(n[k], mul(b[k], Gk)), lt(sub(mul(b[k], Gk), b[k]), n[k]))
            G.append(Gk)
        P = [mul(b[k], G[k]) for k in range(3)]
        a = [bb // 4 for bb in b]
        ub = S.unit_bytes(rate, 3)
        return n, G, P, a, ub

    def put_hook(self, n, G, P, a, ub):
        rate, b = self.cfg
        whole_set = (b[0] == 4 and b[1] == 4)
        contract = self

        def on_put(c, ev):
            arr = ev['item']
            lv = ev['loopvars']
            c.require(mk_bool(isinstance(arr, SArray) and len(arr.shape) == 3), 'put.is_3d_array', kind='event')
            if not isinstance(arr, SArray):
                return
            ks = [SInt(z) for z, _ in lv]
            if whole_set:
                c.require(mk_bool(len(lv) == 1), 'put.one_per_plane_set', kind='event')
                ps = ks[0]
                shp = (4, P[1], P[2])
                base = (mul(4, ps), 0, 0)
                c.require(eq(lv[0][1], G[0]), 'put.one_event_per_plane_set_of_the_padded_cube', kind='event')
            else:
                c.require(mk_bool(len(lv) == 3), 'put.one_per_block', kind='event')
                if len(lv) != 3:
                    return
                ps, x, z = ks
                shp = tuple(b)
                base = (mul(b[0], ps), mul(b[1], x), mul(b[2], z))
                c.require(And(eq(lv[0][1], G[0]), eq(lv[1][1], G[1]), eq(lv[2][1], G[2])), 'put.one_event_per_block_of_the_padded_cube', kind='event')
            c.require(And(*[eq(p, q) for p, q in zip(arr.shape, shp)]), 'put.shape', kind='event')
            e = O.skolem_index(c, shp, base='pe')
            want = edgepad(n, add(base[0], e[0]), add(base[1], e[1]), add(base[2], e[2]))
            c.require(arr.fn(e) == want, 'put.content_is_edge_replicated_source', kind='event')
            # layout agreement: where do the ub bytes of the cell containing element e land?
            cell = [fdiv(e[k], 4) for k in range(3)]
            cells_per = [fdiv(shp[k], 4) for k in range(3)]
            in_event = mul(ub, add(mul(add(mul(cell[0], cells_per[1]), cell[1]), cells_per[2]), cell[2]))      # AX-ZFP-ENC stream order
            if whole_set:
                ev_bytes = mul(mul(mul(4, P[1]), P[2]), Fraction(rate).numerator)
                start = fdiv(mul(ps, ev_bytes), 8 * Fraction(rate).denominator)
            else:
                rank = add(mul(add(mul(ps, G[1]), x), G[2]), z)                                                # sequential loop order
                start = mul(BLK, rank)
            iu, xu, zu = [add(fdiv(base[k], 4), cell[k]) for k in range(3)]
            c.require(eq(add(start, in_event), S.spec_off3(iu, xu, zu, G, a, ub)), 'put.layout_agreement_with_the_file_specification', kind='event')
        return on_put

    def hash_hook(self, n, b0):
        def on_update(c, ev):
            d = ev['data']
            lv = ev['loopvars']
            c.require(mk_bool(isinstance(d, SArray) and len(d.shape) == 2 and len(lv) == 2), 'hash.one_row_per_event', kind='event')
            if not (isinstance(d, SArray) and len(lv) == 2):
                return
            ps, i = SInt(lv[0][0]), SInt(lv[1][0])
            row = add(mul(b0, ps), i)
            c.require(And(eq(d.shape[0], n[1]), eq(d.shape[1], n[2])), 'hash.row_is_real_extent_only', kind='event')
            c.require(And(ge(row, 0), lt(row, n[0])), 'hash.row_is_a_real_inline', kind='event')
            # every real inline exactly once, in order: the inner loop of plane set ps covers rows ps*b0 .. min((ps+1)*b0, nI)-1
            c.require(eq(lv[1][1], Min(b0, sub(n[0], mul(b0, ps)))), 'hash.all_real_inlines_of_the_plane_set', kind='event')
            e = O.skolem_index(c, (n[1], n[2]), base='he')
            c.require(d.fn(e) == src(row, e[0], e[1]), 'hash.row_content_is_the_source_samples', kind='event')
        return on_update


class NumpyProducer(ProducerContract):
    loops = {1: L.EventLoop(), 2: L.EventLoop(), 3: L.EventLoop(), 4: L.EventLoop()}

    def inputs(self, c):
        rate, b = self.cfg
        n, G, P, a, ub = self.geometry(c)
        arr = SArray(n, lambda idx: src(idx[0], idx[1], idx[2]), 'float32')
        q = SObj(None, clsname='$queue')
        q.fields['on_put'] = self.put_hook(n, G, P, a, ub)
        h = SObj(None, clsname='$hash')
        h.fields.update(log=[], alg='sha1', on_update=self.hash_hook(n, b[0]))
        return dict(queue=q, in_array=arr, blockshape=tuple(b), hash_object=h, _n=n, _G=G)

    def post(self, c, a, result):
        # every plane set put something (the per-event obligations were emitted at the events)
        c.ensure(mk_bool(len(c.ghost.get('puts', [])) >= 1), 'puts_happened')
        c.ensure(mk_bool(len(a['hash_object'].fields['log']) >= 1), 'hash_updates_happened')


register(NumpyProducer, 'conversion_utils.py::numpy_producer', ['C01', 'C20', 'C19', 'C16'], ALL3, modes=('file',))


# ---------------------------------------------------------------------------------------------
# SEG-Y route: io_thread_func fills one plane set (data + edge replication + header capture)

from . import models_ext as MX      # noqa: E402
from pyvc.values import SRange      # noqa: E402
from pyvc.models import SymSeq      # noqa: E402


def window_geometry(c, prog, nI_src, nX_src):
    """Geometry3d window [il0, il0+nIw) x [xl0, xl0+nXw) inside the source grid (ordinals)"""
    il0 = c.sym_int('wil0', lo=0, name='window.first_inline_ordinal'); xl0 = c.sym_int('wxl0', lo=0, name='window.first_crossline_ordinal')
    nIw = c.sym_int('nIw', lo=1, name='window.n_ilines'); nXw = c.sym_int('nXw', lo=1, name='window.n_xlines')
    c.assume(le(add(il0, nIw), nI_src), le(add(xl0, nXw), nX_src))
    geom = SObj(prog.klass('Geometry3d'), dict(ilines=SRange(il0, add(il0, nIw), 1), xlines=SRange(xl0, add(xl0, nXw), 1)))
    return geom, (il0, xl0, nIw, nXw)


def _hdr_witness(idx, env):
    # the k-th header of the plane lands at row*nXw + k
    nXw = ops_binop('-', env['geom'].fields['xlines'].stop, env['geom'].fields['xlines'].start)
    if len(idx) == 3:
        return idx[0]
    if not isinstance(env.get('i'), int):
        # outer loop not unrolled (symbolic inline block extent): entry j belongs to window row j // nXw, i.e. to the outer iteration
        # j // nXw - ps*b0 and the inner iteration j % nXw
        return mod(idx[0], nXw)
    row = add(mul(env['plane_set_id'], env['blockshape'][0]), env['i'])
    return sub(idx[0], mul(row, nXw))


def _io_outer_witness(idx, env):
    if len(idx) == 3:
        return idx[0]
    nXw = ops_binop('-', env['geom'].fields['xlines'].stop, env['geom'].fields['xlines'].start)
    return sub(fdiv(idx[0], nXw), mul(env['plane_set_id'], env['blockshape'][0]))


class IoThreadFunc(ProducerContract):
    """buffer[i,x,z] = source sample of window inline min(ps*b0+i, nIw-1), crossline min(x, nXw-1), sample min(z, nZ-1);
    header array f: entry row*nXw + x = header value f of source trace (il0+row)*nX_src + xl0 + x, for the real rows read"""
    modular_use = True
    exact_result = False
    b0 = 4
    minimal = False
    loops = {('conversion_utils.py::io_thread_func', 2 if False else 999): None}
    FIELDS = (189, 73)

    def inputs(self, c):
        prog = c.ex.prog
        b0 = self.b0
        nI = c.sym_int('nI', lo=2, name='source.n_ilines'); nX = c.sym_int('nX', lo=2, name='source.n_xlines'); nZ = c.sym_int('nZ', lo=2, name='n_samples')
        seg = MX.mk_segy(c, nI, nX, nZ)
        geom, (il0, xl0, nIw, nXw) = window_geometry(c, prog, nI, nX)
        b1 = c.sym_int('b1', lo=4, name='blockshape[1]'); b2 = c.sym_int('b2', lo=4, name='blockshape[2]')
        P1 = c.sym_int('P1', name='padded_xl'); P2 = c.sym_int('P2', name='padded_z')
        c.assume(ge(P1, nXw), ge(P2, nZ))
        ps = c.sym_int('ps', lo=0, name='plane_set_id')
        ptr = c.sym_int('ptr', lo=1, hi=b0, name='planes_to_read')
        c.assume(eq(ptr, Min(b0, sub(nIw, mul(b0, ps)))))
        buf = SArray((b0, P1, P2), lambda idx: STok(z3.Const('F32_ZERO', F32)), 'float32')
        hd = {}
        for f in self.FIELDS:
            g = z3.Function(f'old_hdr{f}', z3.IntSort(), z3.IntSort())
            hd[f] = SArray((mul(nIw, nXw),), (lambda gg: (lambda idx: mk_int(gg(zint(idx[0])))))(g), 'int32')
        reader = None
        if self.minimal:
            reader = mk_minimal_reader(c, prog, seg, 5)
            c.assume(eq(il0, 0), eq(xl0, 0), eq(nIw, nI), eq(nXw, nX))
        return dict(blockshape=(b0, b1, b2), store_headers=True, headers_dict=hd, geom=geom, plane_set_id=ps, planes_to_read=ptr,
                    seismic_buffer=buf, seismicfile=seg, minimal_il_reader=reader, trace_length=nZ,
                    _w=(il0, xl0, nIw, nXw), _src=(nI, nX, nZ), _P=(P1, P2), _old={f: hd[f].fn for f in self.FIELDS})

    def pre(self, c, a):
        return []

    def post(self, c, a, result):
        il0, xl0, nIw, nXw = a['_w']
        nI, nX, nZ = a['_src']
        P1, P2 = a['_P']
        b0 = self.b0
        ps = a['plane_set_id']
        buf = a['seismic_buffer']
        e = O.skolem_index(c, (b0, P1, P2), base='be')
        row = Min(add(mul(b0, ps), e[0]), sub(nIw, 1))
        want = MX.src(add(il0, row), add(xl0, Min(e[1], sub(nXw, 1))), Min(e[2], sub(nZ, 1)))
        c.ensure(buf.fn(e) == want, 'buffer_is_the_edge_replicated_window')
        # header capture: row by row of the plane set (i is a concrete position in the set), any crossline x of the window
        x = c.sym_int('hx', lo=0, name='header_crossline_in_window')
        c.assume(lt(x, nXw))
        ptr = a['planes_to_read']
        for f in self.FIELDS:
            arr = a['headers_dict'][f]
            for i in range(b0):
                r = add(mul(b0, ps), i)
                got = arr.fn((add(mul(r, nXw), x),))
                srct = add(mul(add(il0, r), nX), add(xl0, x))
                c.ensure(Implies(lt(i, ptr), eq(got, MX.hsrc(srct, f))), f'header{f}.row{i}.entry_is_the_source_header_of_that_trace')
            j = c.sym_int(f'hj{f}', lo=0, name='header_array_index')
            c.assume(lt(j, mul(nIw, nXw)), Or(lt(j, mul(mul(b0, ps), nXw)), ge(j, mul(add(mul(b0, ps), ptr), nXw))))
            c.ensure(eq(arr.fn((j,)), a['_old'][f]((j,))), f'header{f}.entries_of_other_rows_untouched')


IO_KEY = 'conversion_utils.py::io_thread_func'
IO_LOOPS = {(IO_KEY, 1): L.IndependentWrites(witness=_io_outer_witness, guarded_stores=True)}
IO_LOOPS.update({(IO_KEY, k): L.IndependentWrites(witness=_hdr_witness, guarded_stores=True) for k in range(2, 40)})
for _b0 in (4, 8):
    for _min in (False, True):
        _cls = type(f'IoThreadFunc_b{_b0}' + ('_min' if _min else ''), (IoThreadFunc,), dict(b0=_b0, minimal=_min, variant=f'b0={_b0}' + (',reduced-I/O reader' if _min else '')))
        _cls.loops = IO_LOOPS
        fuc(IO_KEY, props=['C01', 'C04', 'C11', 'C20'])(_cls)

from .c_loader import THOROUGH      # noqa: E402
IO_B0 = (4, 8, 16) if THOROUGH else (4, 8)
if THOROUGH:
    _cls = type('IoThreadFunc_b16', (IoThreadFunc,), dict(b0=16, minimal=False, variant='b0=16'))
    _cls.loops = IO_LOOPS
    fuc(IO_KEY, props=['C01', 'C04', 'C11', 'C20'])(_cls)


class IoThreadFuncModular(IoThreadFunc):
    """the io_thread_func contract as seen at its call site in seismic_file_producer (segyio reader)"""
    variant = 'call-site view'
    exact_result = True

    def post(self, c, a, result):
        pass

    def verify(self, interp, prog, timeout_ms=None):
        from pyvc.smt import Explorer
        ex = Explorer(self.fuc_name()); ex.contract = self; ex.prog = prog
        ex.note_outcome('call-site view of the contract verified per b0 above')
        return ex, prog.function(self.key)

    def pre(self, c, a):
        b0 = a['blockshape'][0]
        geom = a['geom']
        nIw = sub(geom.fields['ilines'].stop, geom.fields['ilines'].start)
        buf = a['seismic_buffer']
        rdr = a['minimal_il_reader']
        seg = a['seismicfile']
        whole = True
        if rdr is not None:
            # the reduced-I/O variant is verified for the whole-file geometry only
            nI_s, nX_s, _ = seg.fields['dims']
            whole = And(eq(geom.fields['ilines'].start, 0), eq(geom.fields['xlines'].start, 0), eq(nIw, nI_s),
                        eq(sub(geom.fields['xlines'].stop, geom.fields['xlines'].start), nX_s),
                        mk_bool(isinstance(rdr, SObj) and rdr.fields.get('segyfile') is seg))
        return [mk_bool(isinstance(b0, int) and b0 >= 4),        # the body is verified for a symbolic inline block extent (IoThreadFuncSym)
                whole,
                eq(a['planes_to_read'], Min(b0, sub(nIw, mul(b0, a['plane_set_id'])))), ge(a['planes_to_read'], 1),
                mk_bool(isinstance(buf, SArray) and len(buf.shape) == 3) and eq(buf.shape[0], b0),
                mk_bool(getattr(buf, 'fresh_zeros', False))]

    def fresh_result(self, c, a):
        return None

    def effects(self, c, a, result):
        seg = a['seismicfile']
        geom = a['geom']
        il0, xl0 = geom.fields['ilines'].start, geom.fields['xlines'].start
        nIw = sub(geom.fields['ilines'].stop, il0)
        nXw = sub(geom.fields['xlines'].stop, xl0)
        nZ = a['trace_length']
        b0 = a['blockshape'][0]
        ps = a['plane_set_id']
        buf = a['seismic_buffer']
        L.effect_write(buf)
        buf.fn = lambda idx: MX.src(add(il0, Min(add(mul(b0, ps), idx[0]), sub(nIw, 1))), add(xl0, Min(idx[1], sub(nXw, 1))), Min(idx[2], sub(nZ, 1)))
        buf.fresh_zeros = False
        c.ghost.setdefault('header_rows', []).append(dict(ps=ps, first=mul(b0, ps), count=a['planes_to_read'], store=a['store_headers']))


fuc(IO_KEY, props=[], modular=True)(IoThreadFuncModular)


class SeismicFileProducer(ProducerContract):
    """seismic_file_producer on a regular SEG-Y with an ordinal window, segyio reader"""
    loops = {1: L.EventLoop(), 2: L.EventLoop(), 3: L.EventLoop(), 4: L.EventLoop()}
    reduce_iops = False

    def inputs(self, c):
        prog = c.ex.prog
        rate, b = self.cfg
        nI = c.sym_int('nI', lo=2, name='source.n_ilines'); nX = c.sym_int('nX', lo=2, name='source.n_xlines'); nZ = c.sym_int('nZ', lo=2, name='n_samples')
        seg = MX.mk_segy(c, nI, nX, nZ)
        geom, (il0, xl0, nIw, nXw) = window_geometry(c, prog, nI, nX)
        c.assume(ge(nIw, 2), ge(nXw, 2))
        n = (nIw, nXw, nZ)
        G = []
        for k in range(3):
            Gk = c.sym_int(f'G{k}', lo=1, name=f'blocks_axis{k}')
            c.assume(le(n[k], mul(b[k], Gk)), lt(sub(mul(b[k], Gk), b[k]), n[k]))
            G.append(Gk)
        P = [mul(b[k], G[k]) for k in range(3)]
        a_ = [bb // 4 for bb in b]
        ub = S.unit_bytes(rate, 3)
        q = SObj(None, clsname='$queue')
        win = (il0, xl0)
        q.fields['on_put'] = self.put_hook_window(n, G, P, a_, ub, win)
        h = SObj(None, clsname='$hash')
        h.fields.update(log=[], alg='sha1', on_update=self.hash_hook_window(n, b[0], win))
        return dict(queue=q, seismicfile=seg, blockshape=tuple(b), store_headers=True, headers_dict={}, geom=geom, hash_object=h,
                    reduce_iops=self.reduce_iops, verbose=False, _n=n, _G=G, _win=win)

    def put_hook_window(self, n, G, P, a_, ub, win):
        base_hook = self.put_hook(n, G, P, a_, ub)
        il0, xl0 = win
        # same obligations as the NumPy producer, with the source addressed through the window origin
        import contracts.c_producers as CP

        def hook(c, ev):
            old = CP.edgepad
            CP.edgepad = lambda nn, i, x, z: MX.src(add(il0, Min(i, sub(nn[0], 1))), add(xl0, Min(x, sub(nn[1], 1))), Min(z, sub(nn[2], 1)))
            try:
                base_hook(c, ev)
            finally:
                CP.edgepad = old
        return hook

    def hash_hook_window(self, n, b0, win):
        il0, xl0 = win
        base = self.hash_hook(n, b0)
        import contracts.c_producers as CP

        def hook(c, ev):
            old = CP.src
            CP.src = lambda i, x, z: MX.src(add(il0, i), add(xl0, x), z)
            try:
                base(c, ev)
            finally:
                CP.src = old
        return hook

    def post(self, c, a, result):
        c.ensure(mk_bool(len(c.ghost.get('puts', [])) >= 1), 'puts_happened')
        c.ensure(mk_bool(len(a['hash_object'].fields['log']) >= 1), 'hash_updates_happened')
        c.ensure(mk_bool(len(c.ghost.get('header_rows', [])) >= 1), 'plane_sets_filled_through_io_thread_func')


register(SeismicFileProducer, 'conversion_utils.py::seismic_file_producer', ['C01', 'C11', 'C20', 'C16'], ALL3, modes=('file',))


class SelfTestAssumed(Contract):
    """ASSUMED: MinimalInlineReader.self_test() returns some bool (it compares the reader with segyio on inline 0)"""
    modular_use = True
    exact_result = True
    variant = 'assumed'

    def verify(self, interp, prog, timeout_ms=None):
        from pyvc.smt import Explorer
        ex = Explorer(self.fuc_name()); ex.contract = self; ex.prog = prog
        ex.note_outcome('assumed: result is an arbitrary bool; the producer must be right for both outcomes')
        return ex, prog.function(self.key)

    def fresh_result(self, c, a):
        return c.sym_bool('self_test_passed')


fuc('conversion_utils.py::MinimalInlineReader.self_test', props=[], modular=True)(SelfTestAssumed)


class SeismicFileProducerRI(SeismicFileProducer):
    """reduce_iops=True: the reduced-I/O reader is used only when it passed its self-test AND the geometry is the whole file;
    in every other case the producer falls back to segyio -- same obligations on puts and hash either way"""
    reduce_iops = True


register(SeismicFileProducerRI, 'conversion_utils.py::seismic_file_producer', ['C01', 'C11', 'C20'], CFG_DEFAULT[:2] + CFG_GENERAL[:2] + CFG_GENERAL[-2:], modes=('file',), tag='reduce_iops')



# ---------------------------------------------------------------------------------------------
# reduced-I/O reader: one range read per inline straight from the SEG-Y bytes (AX-SEGY-LAYOUT)

from pyvc import bytesmodel as BM      # noqa: E402
from . import ghost as GH      # noqa: E402
K_SEGY = 5
RL_KEY = 'conversion_utils.py::MinimalInlineReader.read_line'
NATIVE = {5: lambda t: t, 1: lambda t: STok(MX.IBM2IEEE(t.z))}


def segy_sample_offset(nX, nZ, i, x, z):
    """AX-SEGY-LAYOUT (no extended textual headers, fixed trace length, 4-byte samples): sample z of trace i*nX+x"""
    T = add(240, mul(4, nZ))
    return add(add(3600, mul(add(mul(i, nX), x), T)), add(240, mul(4, z)))


def mk_minimal_reader(c, prog, seg, fmt):
    nI, nX, nZ = seg.fields['dims']
    seg.fields['format'] = fmt
    f = IO.new_file(K_SEGY, 'rb', '<segy>')
    return SObj(prog.klass('MinimalInlineReader'), dict(segyfile=seg, file=f, n_il=nI, n_xl=nX, n_samp=nZ))


class ReadLine(Contract):
    """read_line(i): ONE range read of exactly the bytes of inline i; array[x, z] = the sample stored at the SEG-Y offset of
    (trace i*nX+x, sample z) converted from the file's format; headers[h] = the 240 header bytes of trace i*nX+h"""
    fmt = 5
    may_raise = ()
    modular_use = True
    exact_result = True

    def inputs(self, c):
        prog = c.ex.prog
        nI = c.sym_int('nI', lo=2, name='source.n_ilines'); nX = c.sym_int('nX', lo=2, name='source.n_xlines'); nZ = c.sym_int('nZ', lo=2, name='n_samples')
        seg = MX.mk_segy(c, nI, nX, nZ)
        rd = mk_minimal_reader(c, prog, seg, self.fmt)
        i = c.sym_int('i', lo=0, name='inline_ordinal')
        c.assume(lt(i, nI))
        return dict(self=rd, i=i, _dims=(nI, nX, nZ))

    def raises(self, c, a):
        fmt = a['self'].fields['segyfile'].fields['format']
        return {'RuntimeError': mk_bool(fmt not in (1, 5))}

    def post(self, c, a, result):
        nI, nX, nZ = a['_dims']
        i = a['i']
        T = add(240, mul(4, nZ))
        evs = GH.reads(c)
        c.ensure(mk_bool(len(evs) == 1), 'reads.one_range_read_per_inline', kind='ghost')
        if evs:
            c.ensure(And(eq(evs[0].off, add(3600, mul(mul(i, nX), T))), eq(evs[0].n, mul(nX, T))), 'reads.exactly_the_bytes_of_inline_i', kind='ghost')
        c.ensure(mk_bool(isinstance(result, tuple) and len(result) == 2), 'returns_headers_and_array')
        if not (isinstance(result, tuple) and len(result) == 2):
            return
        headers, arr = result
        c.ensure(mk_bool(isinstance(arr, SArray) and len(arr.shape) == 2) and And(eq(arr.shape[0], nX), eq(arr.shape[1], nZ)), 'array_shape_is_one_inline')
        e = O.skolem_index(c, (nX, nZ), base='re')
        want = NATIVE[self.fmt](STok(BM.F32BE(z3.IntVal(K_SEGY), zint(segy_sample_offset(nX, nZ, i, e[0], e[1])))))
        c.ensure(arr.fn(e) == want, 'array_elem_is_the_sample_at_its_segy_offset')
        c.ensure(mk_bool(isinstance(headers, (list, SymSeq))) and eq(len(headers) if isinstance(headers, list) else headers.length, nX), 'one_header_per_trace_of_the_inline')
        if isinstance(headers, SymSeq):
            h = c.sym_int('rh', lo=0, name='header_position_in_inline')
            c.assume(lt(h, nX))
            hd = headers.item(h)
            ok = isinstance(hd, SObj) and hd.clsname == '$segyfield' and isinstance(hd.fields.get('buf'), BM.BytesBase)
            c.ensure(mk_bool(ok), 'header_is_a_trace_Field')
            if ok:
                b = hd.fields['buf']
                q = c.sym_int('rq', lo=0, hi=239, name='header_byte')
                t = b.tok(q)
                c.ensure(eq(b.length, 240) and mk_bool(z3.And(t.zk() == K_SEGY, t.zo() == zint(add(add(3600, mul(add(mul(i, nX), h), T)), q)))),
                         'header_bytes_are_the_240_header_bytes_of_that_trace')

    # call-site view (AX-SEGY-LAYOUT ties the byte offsets to the abstract source XSRC / HSRC used by the producers)
    def result(self, c, a):
        rd = a['self']
        seg = rd.fields['segyfile']
        nI, nX, nZ = seg.fields['dims']
        i = a['i']
        arr = SArray((nX, nZ), lambda idx: MX.src(i, idx[0], idx[1]), 'float32')
        hs = SymSeq(nX, lambda k: MX.mk_hdr(add(mul(i, nX), k), seg))
        return (hs, arr)

    def fresh_result(self, c, a):
        T = add(240, mul(4, a['self'].fields['n_samp']))
        IO.log_read(c, K_SEGY, add(3600, mul(mul(a['i'], a['self'].fields['n_xl']), T)), mul(a['self'].fields['n_xl'], T))
        return self.result(c, a)

    def pre(self, c, a):
        rd = a['self']
        out = [ge(a['i'], 0), lt(a['i'], rd.fields['n_il'])]
        if self.fmt in (1, 5):        # (the call-site view is the IEEE/IBM one; other format codes: RuntimeError variant)
            out.append(mk_bool(rd.fields['segyfile'].fields.get('format') in (1, 5)))
        return out


for _f in (5, 1, 2):
    fuc(RL_KEY, props=['C01', 'C04', 'C07x', 'C20', 'C11'], modular=(_f == 5))(type(f'ReadLine_f{_f}', (ReadLine,), dict(fmt=_f, variant=f'format={_f}')))


# ---------------------------------------------------------------------------------------------
# 2-D lines (C09): trace groups of blockshape[1] traces

IO2_KEY = 'conversion_utils.py::io_thread_func_2d'
IO_B1 = (4, 8, 16, 32) if THOROUGH else (4, 8)        # unrolled cross-check variants; the symbolic-extent variant covers every b1


def src2(t, z):
    return MX.src(0, t, z)


class IoThreadFunc2d(ProducerContract):
    # (loop table shared with the symbolic variant: set below)
    """buffer[i, z] = sample min(z, nZ-1) of source trace min(g*b1+i, nT-1); header array f: entry t = header f of source trace t
    for the real traces of the group, other entries untouched"""
    b1 = 4
    FIELDS = (1, 73)
    loops = {}

    def inputs(self, c):
        b1 = self.b1
        nT = c.sym_int('nT', lo=2, name='n_traces'); nZ = c.sym_int('nZ', lo=2, name='n_samples')
        seg = MX.mk_segy(c, 1, nT, nZ, two_d=True, nT=nT)
        b2 = c.sym_int('b2', lo=4, name='blockshape[2]')
        P2 = c.sym_int('P2', name='padded_z')
        c.assume(ge(P2, nZ))
        g = c.sym_int('g', lo=0, name='trace_group_id')
        ttr = c.sym_int('ttr', lo=1, hi=b1, name='traces_to_read')
        c.assume(eq(ttr, Min(b1, sub(nT, mul(b1, g)))))
        buf = SArray((b1, P2), lambda idx: STok(z3.Const('F32_ZERO', F32)), 'float32')
        hd = {}
        for f in self.FIELDS:
            gf = z3.Function(f'old_hdr{f}', z3.IntSort(), z3.IntSort())
            hd[f] = SArray((nT,), (lambda gg: (lambda idx: mk_int(gg(zint(idx[0])))))(gf), 'int32')
        return dict(blockshape=(1, b1, b2), store_headers=True, headers_dict=hd, trace_group_id=g, traces_to_read=ttr,
                    seismic_buffer=buf, seismicfile=seg, trace_length=nZ, _n=(nT, nZ), _P2=P2, _old={f: hd[f].fn for f in self.FIELDS})

    def post(self, c, a, result):
        nT, nZ = a['_n']
        b1 = self.b1
        g = a['trace_group_id']
        buf = a['seismic_buffer']
        e = O.skolem_index(c, (b1, a['_P2']), base='be')
        want = src2(Min(add(mul(b1, g), e[0]), sub(nT, 1)), Min(e[1], sub(nZ, 1)))
        c.ensure(buf.fn(e) == want, 'buffer_is_the_edge_replicated_trace_group')
        ttr = a['traces_to_read']
        for f in self.FIELDS:
            arr = a['headers_dict'][f]
            for i in range(b1):
                t = add(mul(b1, g), i)
                c.ensure(Implies(lt(i, ttr), eq(arr.fn((t,)), MX.hsrc(t, f))), f'header{f}.row{i}.entry_is_the_source_header_of_that_trace')
            j = c.sym_int(f'hj{f}', lo=0, name='header_array_index')
            c.assume(lt(j, nT), Or(lt(j, mul(b1, g)), ge(j, add(mul(b1, g), ttr))))
            c.ensure(eq(arr.fn((j,)), a['_old'][f]((j,))), f'header{f}.entries_of_other_traces_untouched')


for _b1 in IO_B1:
    fuc(IO2_KEY, props=['C09', 'C04', 'C20'])(type(f'IoThreadFunc2d_b{_b1}', (IoThreadFunc2d,), dict(b1=_b1, variant=f'b1={_b1}')))


class IoThreadFunc2dModular(IoThreadFunc2d):
    variant = 'call-site view'
    exact_result = True
    verify = IoThreadFuncModular.verify

    def post(self, c, a, result):
        pass

    def pre(self, c, a):
        b1 = a['blockshape'][1]
        seg = a['seismicfile']
        nT = seg.fields['nT']
        buf = a['seismic_buffer']
        return [mk_bool(isinstance(b1, int) and b1 >= 4),        # verified for a symbolic trace-group extent (IoThreadFunc2dSym)
                eq(a['traces_to_read'], Min(b1, sub(nT, mul(b1, a['trace_group_id'])))), ge(a['traces_to_read'], 1),
                mk_bool(isinstance(buf, SArray) and len(buf.shape) == 2) and eq(buf.shape[0], b1),
                mk_bool(getattr(buf, 'fresh_zeros', False))]

    def fresh_result(self, c, a):
        return None

    def effects(self, c, a, result):
        seg = a['seismicfile']
        nT = seg.fields['nT']
        nZ = a['trace_length']
        b1 = a['blockshape'][1]
        g = a['trace_group_id']
        buf = a['seismic_buffer']
        L.effect_write(buf)
        buf.fn = lambda idx: src2(Min(add(mul(b1, g), idx[0]), sub(nT, 1)), Min(idx[1], sub(nZ, 1)))
        buf.fresh_zeros = False
        c.ghost.setdefault('header_rows', []).append(dict(g=g))


fuc(IO2_KEY, props=[], modular=True)(IoThreadFunc2dModular)


class SeismicFileProducer2d(ProducerContract):
    """2-D producer: puts = edge-replicated trace groups / blocks at the specified offsets (spec_off2); hash = the real traces only"""
    loops = {1: L.EventLoop(), 2: L.EventLoop()}

    def inputs(self, c):
        prog = c.ex.prog
        rate, b = self.cfg
        nT = c.sym_int('nT', lo=2, name='n_traces'); nZ = c.sym_int('nZ', lo=2, name='n_samples')
        seg = MX.mk_segy(c, 1, nT, nZ, two_d=True, nT=nT)
        geom = SObj(prog.klass('Geometry2d'), dict(traces=SymSeq(nT, lambda k: k)))
        n = (nT, nZ)
        G = [1]
        for k in (1, 2):
            Gk = c.sym_int(f'G{k}', lo=1, name=f'blocks_axis{k}')
            c.assume(le(n[k - 1], mul(b[k], Gk)), lt(sub(mul(b[k], Gk), b[k]), n[k - 1]))
            G.append(Gk)
        P = [1, mul(b[1], G[1]), mul(b[2], G[2])]
        a_ = [1, b[1] // 4, b[2] // 4]
        ub = S.unit_bytes(rate, 2)
        q = SObj(None, clsname='$queue')
        q.fields['on_put'] = self.put_hook_2d(n, G, P, a_, ub)
        h = SObj(None, clsname='$hash')
        h.fields.update(log=[], alg='sha1', on_update=self.hash_hook_2d(n, b[1]))
        return dict(queue=q, seismicfile=seg, blockshape=tuple(b), store_headers=True, headers_dict={}, geom=geom, hash_object=h, verbose=False)

    def put_hook_2d(self, n, G, P, a, ub):
        rate, b = self.cfg
        whole = (b[1] == 4)

        def on_put(c, ev):
            arr = ev['item']
            lv = ev['loopvars']
            c.require(mk_bool(isinstance(arr, SArray) and len(arr.shape) == 2), 'put.is_2d_array', kind='event')
            if not (isinstance(arr, SArray) and len(arr.shape) == 2):
                return
            ks = [SInt(z) for z, _ in lv]
            if whole:
                c.require(mk_bool(len(lv) == 1), 'put.one_per_trace_group', kind='event')
                if len(lv) != 1:
                    return
                g = ks[0]
                shp = (4, P[2])
                base = (mul(4, g), 0)
                c.require(eq(lv[0][1], G[1]), 'put.one_event_per_trace_group_of_the_padded_section', kind='event')
            else:
                c.require(mk_bool(len(lv) == 2), 'put.one_per_block', kind='event')
                if len(lv) != 2:
                    return
                g, z = ks
                shp = (b[1], b[2])
                base = (mul(b[1], g), mul(b[2], z))
                c.require(And(eq(lv[0][1], G[1]), eq(lv[1][1], G[2])), 'put.one_event_per_block_of_the_padded_section', kind='event')
            c.require(And(*[eq(p, q) for p, q in zip(arr.shape, shp)]), 'put.shape', kind='event')
            e = O.skolem_index(c, shp, base='pe')
            want = src2(Min(add(base[0], e[0]), sub(n[0], 1)), Min(add(base[1], e[1]), sub(n[1], 1)))
            c.require(arr.fn(e) == want, 'put.content_is_edge_replicated_source', kind='event')
            cell = [fdiv(e[k], 4) for k in range(2)]
            cells_per = [fdiv(shp[k], 4) for k in range(2)]
            in_event = mul(ub, add(mul(cell[0], cells_per[1]), cell[1]))
            if whole:
                ev_bytes = mul(mul(4, P[2]), Fraction(rate).numerator)
                start = fdiv(mul(g, ev_bytes), 8 * Fraction(rate).denominator)
            else:
                start = mul(BLK, add(mul(g, G[2]), z))
            xu, zu = [add(fdiv(base[k], 4), cell[k]) for k in range(2)]
            c.require(eq(add(start, in_event), S.spec_off2(xu, zu, G, a, ub)), 'put.layout_agreement_with_the_file_specification', kind='event')
        return on_put

    def hash_hook_2d(self, n, b1):
        def on_update(c, ev):
            d = ev['data']
            lv = ev['loopvars']
            c.require(mk_bool(isinstance(d, SArray) and len(d.shape) == 2 and len(lv) == 1), 'hash.one_event_per_trace_group', kind='event')
            if not (isinstance(d, SArray) and len(d.shape) == 2 and len(lv) == 1):
                return
            g = SInt(lv[0][0])
            rows = Min(b1, sub(n[0], mul(b1, g)))
            c.require(And(eq(d.shape[0], rows), eq(d.shape[1], n[1])), 'hash.real_traces_and_samples_only', kind='event')
            e = O.skolem_index(c, (rows, n[1]), base='he')
            c.require(d.fn(e) == src2(add(mul(b1, g), e[0]), e[1]), 'hash.content_is_the_source_samples_in_trace_order', kind='event')
        return on_update

    def post(self, c, a, result):
        c.ensure(mk_bool(len(c.ghost.get('puts', [])) >= 1), 'puts_happened')
        c.ensure(mk_bool(len(a['hash_object'].fields['log']) >= 1), 'hash_updates_happened')
        c.ensure(mk_bool(len(c.ghost.get('header_rows', [])) >= 1), 'trace_groups_filled_through_io_thread_func_2d')


register(SeismicFileProducer2d, 'conversion_utils.py::seismic_file_producer_2d', ['C09', 'C20', 'C16'], ALL2, modes=('file',))


# ---------------------------------------------------------------------------------------------
# irregular surveys (C08): traces placed by (inline number, crossline number) lookup, holes and padding left zero

UIO_KEY = 'conversion_utils.py::unstructured_io_thread_func'
PRESENT = z3.Function('PRESENT', z3.IntSort(), z3.IntSort(), z3.BoolSort())     # a source trace carries (inline no, crossline no)
TID = z3.Function('TID', z3.IntSort(), z3.IntSort(), z3.IntSort())               # its ordinal in the source file
F32Z = STok(z3.Const('F32_ZERO', F32))


def mk_inferred_geom(c, prog, nI, nX, tracecount):
    """InferredGeometry3d as InferredGeometry3d.__init__ builds it (GetRange contract): axes = progressions of the line numbers present"""
    min_il = c.sym_int('min_il', name='geom.min_il'); il_step = c.sym_int('il_step', lo=1, name='geom.il_step')
    min_xl = c.sym_int('min_xl', name='geom.min_xl'); xl_step = c.sym_int('xl_step', lo=1, name='geom.xl_step')
    max_il = add(min_il, mul(sub(nI, 1), il_step)); max_xl = add(min_xl, mul(sub(nX, 1), xl_step))
    tr = SObj(None, clsname='$tracesref')
    tr.fields.update(grid=(min_il, il_step, nI, min_xl, xl_step, nX), tracecount=tracecount)
    ilr, xlr = SRange(min_il, add(max_il, 1), il_step), SRange(min_xl, add(max_xl, 1), xl_step)
    # LEMMA-RANGE-LEN: range(a, a + (n-1)*s + 1, s) has n elements for n >= 1, s >= 1   (((n-1)*s + 1 + s - 1) // s = n)
    ilr.known_len, xlr.known_len = nI, nX
    cur().ex.__dict__.setdefault('axioms', set()).add('LEMMA-RANGE-LEN')
    geom = SObj(prog.klass('InferredGeometry3d'), dict(
        ilines=ilr, xlines=xlr,
        min_il=min_il, max_il=max_il, il_step=il_step, min_xl=min_xl, max_xl=max_xl, xl_step=xl_step, traces_ref=tr))
    return geom


def present_at(tr, ilno, xlno):
    """(ilno, xlno) in traces_ref: only line numbers inside the bounding box of the survey can carry a trace
    (min / max of the line numbers present: InferredGeometry3d.__init__ / GetRange contract)"""
    min_il, il_step, nI, min_xl, xl_step, nX = tr.fields['grid']
    max_il = add(min_il, mul(sub(nI, 1), il_step)); max_xl = add(min_xl, mul(sub(nX, 1), xl_step))
    in_box = And(ge(ilno, min_il), le(ilno, max_il), ge(xlno, min_xl), le(xlno, max_xl))
    return And(in_box, mk_bool(PRESENT(zint(ilno), zint(xlno))))


def tid_of(tr, ilno, xlno):
    t = mk_int(TID(zint(ilno), zint(xlno)))
    cur().assume(Implies(present_at(tr, ilno, xlno), And(ge(t, 0), lt(t, tr.fields['tracecount']))))
    return t


def register_tracesref(lib):
    M = lib.methods
    from pyvc.symex import untag

    def contains(I, tr, key):
        key = untag(key)
        return present_at(tr, key[0], key[1])
    M[('$tracesref', '__contains__')] = contains

    def getitem(I, tr, key):
        key = untag(key)
        ok = present_at(tr, key[0], key[1])
        if not (ok is True or cur().decide(zbool(ok))):
            raise PyRaise('KeyError')
        return tid_of(tr, key[0], key[1])
    M[('$tracesref', '__getitem__')] = getitem


MX.EXTRA_REGISTRARS.append(register_tracesref)
from pyvc.values import PyRaise      # noqa: E402


def _uwit(idx, env):
    """inner loop (over the crosslines of the grid): buffer position -> its crossline index; header entry j -> j % nX (or, with the outer
    loop unrolled, j - row*nX)"""
    if len(idx) == 3:
        return idx[1]
    nX = env['geom'].fields['xlines'].length()
    if not isinstance(env.get('i'), int):
        return mod(idx[0], nX)
    row = add(mul(env['plane_set_id'], env['blockshape'][0]), env['i'])
    return sub(idx[0], mul(row, nX))


def _uwit_outer(idx, env):
    if len(idx) == 3:
        return idx[0]
    nX = env['geom'].fields['xlines'].length()
    return sub(fdiv(idx[0], nX), mul(env['plane_set_id'], env['blockshape'][0]))


class UnstructuredIoThreadFunc(ProducerContract):
    """buffer[i, x, z] = sample z of the source trace carrying (inline no of row ps*b0+i, crossline no x) when such a trace exists and
    z < nZ, else 0.0 (holes, rows beyond the grid, sample padding); header f of that trace stored at entry row*nX + x, other entries untouched"""
    b0 = 4
    FIELDS = (189, 73)

    def inputs(self, c):
        prog = c.ex.prog
        b0 = self.b0
        nI = c.sym_int('nI', lo=2, name='grid.n_ilines'); nX = c.sym_int('nX', lo=2, name='grid.n_xlines'); nZ = c.sym_int('nZ', lo=2, name='n_samples')
        tc = c.sym_int('tracecount', lo=1, name='source.tracecount')
        c.assume(lt(tc, mul(nI, nX)))
        seg = MX.mk_segy(c, 1, tc, nZ, two_d=True, nT=tc)
        geom = mk_inferred_geom(c, prog, nI, nX, tc)
        b1 = c.sym_int('b1', lo=4, name='blockshape[1]'); b2 = c.sym_int('b2', lo=4, name='blockshape[2]')
        P1 = c.sym_int('P1', name='padded_xl'); P2 = c.sym_int('P2', name='padded_z')
        c.assume(ge(P1, nX), ge(P2, nZ))
        ps = c.sym_int('ps', lo=0, name='plane_set_id')
        c.assume(lt(mul(b0, ps), nI))
        buf = SArray((b0, P1, P2), lambda idx: F32Z, 'float32')
        hd = {}
        for f in self.FIELDS:
            gf = z3.Function(f'old_hdr{f}', z3.IntSort(), z3.IntSort())
            hd[f] = SArray((mul(nI, nX),), (lambda gg: (lambda idx: mk_int(gg(zint(idx[0])))))(gf), 'int32')
        return dict(blockshape=(b0, b1, b2), store_headers=True, headers_dict=hd, geom=geom, plane_set_id=ps, segy_buffer=buf, segyfile=seg,
                    trace_length=nZ, _n=(nI, nX, nZ), _P=(P1, P2), _old={f: hd[f].fn for f in self.FIELDS})

    def post(self, c, a, result):
        nI, nX, nZ = a['_n']
        P1, P2 = a['_P']
        b0 = self.b0
        ps = a['plane_set_id']
        geom = a['geom']
        tr = geom.fields['traces_ref']
        G = geom.fields
        buf = a['segy_buffer']
        e = O.skolem_index(c, (b0, P1, P2), base='be')
        row = add(mul(b0, ps), e[0])
        ilno = add(G['min_il'], mul(row, G['il_step'])); xlno = add(G['min_xl'], mul(e[1], G['xl_step']))
        has = And(lt(e[1], nX), present_at(tr, ilno, xlno))
        got = buf.fn(e)
        c.ensure(Implies(And(has, lt(e[2], nZ)), got == MX.src(0, tid_of(tr, ilno, xlno), e[2])), 'buffer.populated_position_holds_its_source_trace')
        c.ensure(Implies(Not(And(has, lt(e[2], nZ))), got == F32Z), 'buffer.holes_and_padding_are_zero')
        x = c.sym_int('hx', lo=0, name='grid_crossline_index')
        c.assume(lt(x, nX))
        for f in self.FIELDS:
            arr = a['headers_dict'][f]
            for i in range(b0):
                r = add(mul(b0, ps), i)
                iln = add(G['min_il'], mul(r, G['il_step'])); xln = add(G['min_xl'], mul(x, G['xl_step']))
                j = add(mul(r, nX), x)
                here = present_at(tr, iln, xln)
                c.ensure(Implies(And(here, lt(r, nI)), eq(arr.fn((j,)), MX.hsrc(tid_of(tr, iln, xln), f))), f'header{f}.row{i}.populated_entry_is_the_header_of_its_trace')
                c.ensure(Implies(And(Not(here), lt(r, nI)), eq(arr.fn((j,)), a['_old'][f]((j,)))), f'header{f}.row{i}.hole_entry_untouched')


UIO_LOOPS = {(UIO_KEY, 1): L.IndependentWrites(witness=_uwit_outer, guarded_stores=True)}
UIO_LOOPS.update({(UIO_KEY, k): L.IndependentWrites(witness=_uwit, guarded_stores=True) for k in range(2, 60)})
for _b0 in (4, 8):
    _cls = type(f'UnstructuredIoThreadFunc_b{_b0}', (UnstructuredIoThreadFunc,), dict(b0=_b0, variant=f'b0={_b0}'))
    _cls.loops = UIO_LOOPS
    fuc(UIO_KEY, props=['C08', 'C04'])(_cls)


class UnstructuredIoModular(UnstructuredIoThreadFunc):
    variant = 'call-site view'
    exact_result = True
    verify = IoThreadFuncModular.verify

    def post(self, c, a, result):
        pass

    def pre(self, c, a):
        b0 = a['blockshape'][0]
        buf = a['segy_buffer']
        return [mk_bool(isinstance(b0, int) and b0 >= 4), mk_bool(isinstance(buf, SArray) and len(buf.shape) == 3) and eq(buf.shape[0], b0),
                mk_bool(getattr(buf, 'fresh_zeros', False)), ge(a['plane_set_id'], 0)]

    def fresh_result(self, c, a):
        return None

    def effects(self, c, a, result):
        from pyvc.npmodel import ite_val
        geom = a['geom']
        G = geom.fields
        tr = G['traces_ref']
        nX = G['xlines'].length()
        nZ = a['trace_length']
        b0 = a['blockshape'][0]
        ps = a['plane_set_id']
        buf = a['segy_buffer']

        def fn(idx):
            row = add(mul(b0, ps), idx[0])
            ilno = add(G['min_il'], mul(row, G['il_step'])); xlno = add(G['min_xl'], mul(idx[1], G['xl_step']))
            has = And(lt(idx[1], nX), lt(idx[2], nZ), present_at(tr, ilno, xlno))
            return ite_val(has, MX.src(0, tid_of(tr, ilno, xlno), idx[2]), F32Z)
        L.effect_write(buf)
        buf.fn = fn
        buf.fresh_zeros = False
        c.ghost.setdefault('header_rows', []).append(dict(ps=ps))


fuc(UIO_KEY, props=[], modular=True)(UnstructuredIoModular)


class SeismicFileProducerIrregular(SeismicFileProducer):
    """irregular survey: every array put = the zero-filled, zero-extended grid on its box (source trace where one exists, 0.0 at holes and
    in all padding), cells at the specified offsets; header arrays re-allocated to one int32 entry per grid position"""
    reduce_iops = False
    loops = {2: L.EventLoop(), 3: L.EventLoop(), 4: L.EventLoop(), 5: L.EventLoop()}      # (loop 1 is the header re-allocation over the dict)

    def inputs(self, c):
        prog = c.ex.prog
        rate, b = self.cfg
        nI = c.sym_int('nI', lo=2, name='grid.n_ilines'); nX = c.sym_int('nX', lo=2, name='grid.n_xlines'); nZ = c.sym_int('nZ', lo=2, name='n_samples')
        tc = c.sym_int('tracecount', lo=1, name='source.tracecount')
        c.assume(lt(tc, mul(nI, nX)))
        seg = MX.mk_segy(c, 1, tc, nZ, two_d=True, nT=tc)
        geom = mk_inferred_geom(c, prog, nI, nX, tc)
        n = (nI, nX, nZ)
        G = []
        for k in range(3):
            Gk = c.sym_int(f'G{k}', lo=1, name=f'blocks_axis{k}')
            c.assume(le(n[k], mul(b[k], Gk)), lt(sub(mul(b[k], Gk), b[k]), n[k]))
            G.append(Gk)
        P = [mul(b[k], G[k]) for k in range(3)]
        a_ = [bb // 4 for bb in b]
        ub = S.unit_bytes(rate, 3)
        q = SObj(None, clsname='$queue')
        gf = geom.fields
        tr = gf['traces_ref']
        import contracts.c_producers as CP
        base_hook = self.put_hook(n, G, P, a_, ub)

        def zero_filled(nn, i, x, z):
            from pyvc.npmodel import ite_val
            ilno = add(gf['min_il'], mul(i, gf['il_step'])); xlno = add(gf['min_xl'], mul(x, gf['xl_step']))
            has = And(lt(x, nX), lt(z, nZ), present_at(tr, ilno, xlno))
            return ite_val(has, MX.src(0, tid_of(tr, ilno, xlno), z), F32Z)

        def hook(cc, ev):
            old = CP.edgepad
            CP.edgepad = zero_filled
            try:
                base_hook(cc, ev)
            finally:
                CP.edgepad = old
        q.fields['on_put'] = hook
        h = SObj(None, clsname='$hash')
        h.fields.update(log=[], alg='sha1', on_update=lambda cc, ev: None)
        hd = {189: SArray((0,), lambda idx: 0, 'int32'), 73: SArray((0,), lambda idx: 0, 'int32')}
        return dict(queue=q, seismicfile=seg, blockshape=tuple(b), store_headers=True, headers_dict=hd, geom=geom, hash_object=h,
                    reduce_iops=False, verbose=False, _n=n)

    def post(self, c, a, result):
        SeismicFileProducer.post(self, c, a, result)
        nI, nX, nZ = a['_n']
        for k, arr in a['headers_dict'].items():
            ok = isinstance(arr, SArray) and arr.dtype == 'int32' and len(arr.shape) == 1
            c.ensure(mk_bool(ok) and eq(arr.shape[0], mul(nI, nX)), f'headers_dict[{k}].one_int32_entry_per_grid_position')


register(SeismicFileProducerIrregular, 'conversion_utils.py::seismic_file_producer', ['C08'], CFG_DEFAULT[:3] + CFG_GENERAL[:3] + CFG_GENERAL[-2:] + CFG_ZSLICE[:1], modes=('file',), tag='irregular')


# ---------------------------------------------------------------------------------------------
# io_thread_func for EVERY inline block extent: the outer loop as an independent-iterations loop (guarded stores by if-conversion)

def _io_sym_witness(idx, env):
    """who writes position idx?  buffer (3-D): the iteration of its first index.  header array (1-D): entry j belongs to window row j // nXw,
    i.e. outer iteration j // nXw - ps*b0, inner iteration j % nXw"""
    if len(idx) == 3:
        return idx[0]
    geom = env['geom']
    nXw = sub(geom.fields['xlines'].stop, geom.fields['xlines'].start)
    row = fdiv(idx[0], nXw)
    return (sub(row, mul(env['plane_set_id'], env['blockshape'][0])), mod(idx[0], nXw))


class IoThreadFuncSym(IoThreadFunc):
    """same contract as IoThreadFunc, for a SYMBOLIC inline block extent b0 >= 4 (no unrolling)"""
    variant = 'any b0'
    minimal = False

    def inputs(self, c):
        b0 = c.sym_int('b0', lo=4, name='blockshape[0]')
        self._b0 = b0
        old = type(self).b0
        try:
            type(self).b0 = b0
            d = IoThreadFunc.inputs(self, c)
        finally:
            type(self).b0 = old
        d['_b0'] = b0
        return d

    def post(self, c, a, result):
        il0, xl0, nIw, nXw = a['_w']
        nI, nX, nZ = a['_src']
        P1, P2 = a['_P']
        b0 = a['_b0']
        ps = a['plane_set_id']
        buf = a['seismic_buffer']
        e = O.skolem_index(c, (b0, P1, P2), base='be')
        row = Min(add(mul(b0, ps), e[0]), sub(nIw, 1))
        want = MX.src(add(il0, row), add(xl0, Min(e[1], sub(nXw, 1))), Min(e[2], sub(nZ, 1)))
        c.ensure(buf.fn(e) == want, 'buffer_is_the_edge_replicated_window')
        x = c.sym_int('hx', lo=0, name='header_crossline_in_window')
        c.assume(lt(x, nXw))
        ptr = a['planes_to_read']
        i = c.sym_int('hi', lo=0, name='plane_in_set')
        c.assume(lt(i, ptr))
        for f in self.FIELDS:
            arr = a['headers_dict'][f]
            r = add(mul(b0, ps), i)
            got = arr.fn((add(mul(r, nXw), x),))
            srct = add(mul(add(il0, r), nX), add(xl0, x))
            c.ensure(eq(got, MX.hsrc(srct, f)), f'header{f}.entry_is_the_source_header_of_that_trace')
            j = c.sym_int(f'hj{f}', lo=0, name='header_array_index')
            c.assume(lt(j, mul(nIw, nXw)), Or(lt(j, mul(mul(b0, ps), nXw)), ge(j, mul(add(mul(b0, ps), ptr), nXw))))
            c.ensure(eq(arr.fn((j,)), a['_old'][f]((j,))), f'header{f}.entries_of_other_rows_untouched')


IoThreadFuncSym.loops = IO_LOOPS
fuc(IO_KEY, props=['C01', 'C04', 'C11', 'C20'])(IoThreadFuncSym)
fuc(IO_KEY, props=['C01', 'C04', 'C20'])(type('IoThreadFuncSymMin', (IoThreadFuncSym,), dict(minimal=True, variant='any b0,reduced-I/O reader')))


def _io2_witness(idx, env):
    if len(idx) == 2:
        return idx[0]
    return sub(idx[0], mul(env['trace_group_id'], env['blockshape'][1]))


IO2_LOOPS = {(IO2_KEY, 1): L.IndependentWrites(witness=_io2_witness, guarded_stores=True)}


class IoThreadFunc2dSym(IoThreadFunc2d):
    """io_thread_func_2d for a SYMBOLIC trace-group extent b1 >= 4 (outer loop as independent iterations with guarded stores)"""
    variant = 'any b1'
    loops = IO2_LOOPS

    def inputs(self, c):
        b1 = c.sym_int('b1', lo=4, name='blockshape[1]')
        old = type(self).b1
        try:
            type(self).b1 = b1
            d = IoThreadFunc2d.inputs(self, c)
        finally:
            type(self).b1 = old
        d['_b1'] = b1
        return d

    def post(self, c, a, result):
        nT, nZ = a['_n']
        b1 = a['_b1']
        g = a['trace_group_id']
        buf = a['seismic_buffer']
        e = O.skolem_index(c, (b1, a['_P2']), base='be')
        want = src2(Min(add(mul(b1, g), e[0]), sub(nT, 1)), Min(e[1], sub(nZ, 1)))
        c.ensure(buf.fn(e) == want, 'buffer_is_the_edge_replicated_trace_group')
        ttr = a['traces_to_read']
        i = c.sym_int('hi', lo=0, name='trace_in_group')
        c.assume(lt(i, ttr))
        for f in self.FIELDS:
            arr = a['headers_dict'][f]
            t = add(mul(b1, g), i)
            c.ensure(eq(arr.fn((t,)), MX.hsrc(t, f)), f'header{f}.entry_is_the_source_header_of_that_trace')
            j = c.sym_int(f'hj{f}', lo=0, name='header_array_index')
            c.assume(lt(j, nT), Or(lt(j, mul(b1, g)), ge(j, add(mul(b1, g), ttr))))
            c.ensure(eq(arr.fn((j,)), a['_old'][f]((j,))), f'header{f}.entries_of_other_traces_untouched')


fuc(IO2_KEY, props=['C09', 'C04', 'C20'])(IoThreadFunc2dSym)



class UnstructuredIoThreadFuncSym(UnstructuredIoThreadFunc):
    """unstructured_io_thread_func for a SYMBOLIC inline block extent (both loops as independent iterations, presence test if-converted)"""
    variant = 'any b0'
    loops = UIO_LOOPS

    def inputs(self, c):
        b0 = c.sym_int('b0', lo=4, name='blockshape[0]')
        old = type(self).b0
        try:
            type(self).b0 = b0
            d = UnstructuredIoThreadFunc.inputs(self, c)
        finally:
            type(self).b0 = old
        d['_b0'] = b0
        return d

    def post(self, c, a, result):
        nI, nX, nZ = a['_n']
        P1, P2 = a['_P']
        b0 = a['_b0']
        ps = a['plane_set_id']
        geom = a['geom']
        tr = geom.fields['traces_ref']
        G = geom.fields
        buf = a['segy_buffer']
        e = O.skolem_index(c, (b0, P1, P2), base='be')
        row = add(mul(b0, ps), e[0])
        ilno = add(G['min_il'], mul(row, G['il_step'])); xlno = add(G['min_xl'], mul(e[1], G['xl_step']))
        has = And(lt(e[1], nX), present_at(tr, ilno, xlno))
        got = buf.fn(e)
        c.ensure(Implies(And(has, lt(e[2], nZ)), got == MX.src(0, tid_of(tr, ilno, xlno), e[2])), 'buffer.populated_position_holds_its_source_trace')
        c.ensure(Implies(Not(And(has, lt(e[2], nZ))), got == F32Z), 'buffer.holes_and_padding_are_zero')
        x = c.sym_int('hx', lo=0, name='grid_crossline_index')
        i = c.sym_int('hi', lo=0, name='plane_in_set')
        c.assume(lt(x, nX), lt(i, b0))
        r = add(mul(b0, ps), i)
        c.assume(lt(r, nI))
        for f in self.FIELDS:
            arr = a['headers_dict'][f]
            iln = add(G['min_il'], mul(r, G['il_step'])); xln = add(G['min_xl'], mul(x, G['xl_step']))
            j = add(mul(r, nX), x)
            here = present_at(tr, iln, xln)
            c.ensure(Implies(here, eq(arr.fn((j,)), MX.hsrc(tid_of(tr, iln, xln), f))), f'header{f}.populated_entry_is_the_header_of_its_trace')
            c.ensure(Implies(Not(here), eq(arr.fn((j,)), a['_old'][f]((j,)))), f'header{f}.hole_entry_untouched')


fuc(UIO_KEY, props=['C08', 'C04'])(UnstructuredIoThreadFuncSym)
