"""Obligations over the ghost logs (reads / writes / fault) kept by pyvc.models_io  (C07, C17, C18)."""
import z3

from pyvc.values import (And, Or, Not, Implies, ops_binop, ops_cmp, mk_int, mk_bool, zint, zbool, SInt, is_sym, cur)
from pyvc import loops


def reads(c):
    return list(c.ghost.get('reads', []))


def _rename(ev, c):
    """copy of a family read event with its loop indices renamed to fresh ones (for pairwise obligations)"""
    pairs = []
    conds = []
    for (kz, n) in ev.loopvars:
        k2 = c.fresh_int('k2')
        pairs.append((kz, k2))
        conds.append(And(ops_cmp('>=', SInt(k2), 0), ops_cmp('<', SInt(k2), n)))
    off2 = loops.subst(ev.off, pairs) if is_sym(ev.off) else ev.off
    n2 = loops.subst(ev.n, pairs) if is_sym(ev.n) else ev.n
    differs = Or(*[mk_bool(a != b) for (a, b) in pairs]) if pairs else True
    return off2, n2, And(*conds) if conds else True, differs


def require_reads_within(c, lo, hi, label, kind_file=None):
    """every byte of every range read issued lies in [lo, hi)   (file offsets)"""
    evs = reads(c)
    for j, ev in enumerate(evs):
        end = ops_binop('+', ev.off, ev.n)
        c.ensure(And(ops_cmp('>=', ev.off, lo), ops_cmp('<=', end, hi), ops_cmp('>=', ev.n, 0)), f'{label}[{j}]', kind='ghost')
    return len(evs)


def require_reads_disjoint(c, label, cell=None):
    """no byte is fetched twice within the call: ranges of distinct events / distinct iterations are disjoint.
    cell=(base, stride): prove it through cells -- every range lies inside the cell  [base + col*stride, +stride)
    with col = (off - base) // stride, and distinct iterations have distinct cells (mixed-radix injectivity)."""
    evs = reads(c)
    if cell is not None and len(evs) == 1 and evs[0].loopvars:
        base, stride = cell
        a = evs[0]
        rel = ops_binop('-', a.off, base)
        col = ops_binop('//', rel, stride)
        rem = ops_binop('%', rel, stride)
        c.ensure(And(ops_cmp('>=', rem, 0), ops_cmp('<=', ops_binop('+', rem, a.n), stride), ops_cmp('>=', a.n, 0)),
                 f'{label}.range_inside_its_cell', kind='ghost')
        pairs = []
        conds = []
        for (kz, n) in a.loopvars:
            k2 = c.fresh_int('k2')
            pairs.append((kz, k2))
            conds.append(And(ops_cmp('>=', SInt(k2), 0), ops_cmp('<', SInt(k2), n)))
        col2 = loops.subst(col, pairs) if is_sym(col) else col
        differs = Or(*[mk_bool(x != y) for (x, y) in pairs])
        c.ensure(Implies(And(And(*conds), differs), ops_cmp('!=', col, col2)), f'{label}.distinct_iterations_distinct_cells', kind='ghost')
        return
    for i, a in enumerate(evs):
        a_end = ops_binop('+', a.off, a.n)
        if a.loopvars:
            off2, n2, inr, differs = _rename(a, c)
            end2 = ops_binop('+', off2, n2)
            c.ensure(Implies(And(inr, differs), Or(ops_cmp('<=', a_end, off2), ops_cmp('<=', end2, a.off))),
                     f'{label}.family[{i}]', kind='ghost')
        for j in range(i + 1, len(evs)):
            b = evs[j]
            # events of different statements: rename b's indices so the two are independent
            off2, n2, inr, _ = _rename(b, c)
            end2 = ops_binop('+', off2, n2)
            c.ensure(Implies(inr, Or(ops_cmp('<=', a_end, off2), ops_cmp('<=', end2, a.off),
                                     ops_cmp('==', a.n, 0), ops_cmp('==', n2, 0))),
                     f'{label}.pair[{i},{j}]', kind='ghost')


def require_read_count(c, count, label):
    c.ensure(mk_bool(len(reads(c)) == count), f'{label}.event_count_is_{count}', kind='ghost')


def total_bytes(c):
    """sum of lengths over events (families: n * trip counts) -- only for events with loop-independent length"""
    tot = 0
    for ev in reads(c):
        t = ev.n
        for (kz, n) in ev.loopvars:
            if is_sym(ev.n) and loops.mentions(zint(ev.n), [kz]):
                return None
            t = ops_binop('*', t, n)
        tot = ops_binop('+', tot, t)
    return tot
