"""The abstract SGZ container (DESIGN section 3): spec functions shared by all contracts.

Everything here is written from docs/file-specification.md + README, not from the code.
Values are pyvc symbolic values; the functions are total and never fork unless stated.
"""
import z3
from fractions import Fraction

from pyvc import values as V
from pyvc.values import (SInt, SFloat, SBool, STok, And, Or, Not, Implies, Iff, Ite, Min, Max, ops_binop, ops_cmp,
                         mk_int, mk_bool, mk_float, zint, zbool, zreal, cur, is_sym)

BLK = 4096
RATES = [0.25, 0.5, 1, 2, 4, 8, 16, 32]
POW2_DIMS = [2 ** j for j in range(2, 14)]        # 4 .. 8192  (4*4*8192*0.25 = 32768)


def ceil_div(a, b):
    return ops_binop('//', ops_binop('+', a, ops_binop('-', b, 1)), b)


def pad_spec(n, m):
    return ops_binop('*', m, ceil_div(n, m))


def in_set(x, values):
    if V.is_floatlike(x) or any(isinstance(v, float) for v in values):
        return Or(*[mk_bool(zreal(x) == zreal(v)) for v in values])
    return Or(*[ops_cmp('==', x, v) for v in values])


def is_rate(r):
    return in_set(r, RATES)


def is_blockdim(b):
    return in_set(b, POW2_DIMS)


def bits_product(r, b):
    """r*b0*b1*b2 as a real term"""
    return zreal(r) * zreal(b[0]) * zreal(b[1]) * zreal(b[2])


def VALID3(r, b):
    return And(is_rate(r), is_blockdim(b[0]), is_blockdim(b[1]), is_blockdim(b[2]),
               mk_bool(bits_product(r, b) == 32768))


def VALID2(r, b):
    """2-D: b0 = 1, zfp needs at least 9 bits per 4x4 block -> 16*r >= 9"""
    return And(is_rate(r), ops_cmp('==', b[0], 1), is_blockdim(b[1]), is_blockdim(b[2]),
               mk_bool(bits_product(r, b) == 32768), mk_bool(16 * zreal(r) >= 9))


def valid3_pairs():
    out = []
    for r in RATES:
        for b0 in POW2_DIMS:
            for b1 in POW2_DIMS:
                for b2 in POW2_DIMS:
                    if Fraction(r) * b0 * b1 * b2 == 32768:
                        out.append((r, (b0, b1, b2)))
    return out


def valid2_pairs():
    out = []
    for r in RATES:
        if 16 * r < 9:
            continue
        for b1 in POW2_DIMS + [16384, 32768]:
            for b2 in POW2_DIMS + [16384, 32768]:
                if Fraction(r) * b1 * b2 == 32768:
                    out.append((r, (1, b1, b2)))
    return out


def unit_bytes(r, ndim=3):
    v = (4 ** ndim) * Fraction(r) / 8
    assert v.denominator == 1
    return int(v)


# ------------------------------------------------------------------ layout (spec_off)

def spec_off3(iu, xu, zu, G, a, ub):
    """File offset (relative to data_start) of the compressed cell with cell coordinates (iu,xu,zu).
    G = blocks per axis (G0,G1,G2); a = cells per block per axis; ub = bytes per cell.
    Blocks in C order of block coordinates; cells inside a block in C order."""
    bi, bx, bz = ops_binop('//', iu, a[0]), ops_binop('//', xu, a[1]), ops_binop('//', zu, a[2])
    ci, cx, cz = ops_binop('%', iu, a[0]), ops_binop('%', xu, a[1]), ops_binop('%', zu, a[2])
    blk = ops_binop('+', ops_binop('*', ops_binop('+', ops_binop('*', bi, G[1]), bx), G[2]), bz)
    cell = ops_binop('+', ops_binop('*', ops_binop('+', ops_binop('*', ci, a[1]), cx), a[2]), cz)
    return ops_binop('+', ops_binop('*', BLK, blk), ops_binop('*', ub, cell))


def spec_off2(xu, zu, G, a, ub):
    bx, bz = ops_binop('//', xu, a[1]), ops_binop('//', zu, a[2])
    cx, cz = ops_binop('%', xu, a[1]), ops_binop('%', zu, a[2])
    blk = ops_binop('+', ops_binop('*', bx, G[2]), bz)
    cell = ops_binop('+', ops_binop('*', cx, a[2]), cz)
    return ops_binop('+', ops_binop('*', BLK, blk), ops_binop('*', ub, cell))


# ------------------------------------------------------------------ diagonals

def corr_diag_len(cd, n_il, n_xl):
    """#{(i,x): i - x = cd, 0<=i<n_il, 0<=x<n_xl}"""
    return Max(0, ops_binop('-', Min(n_il, ops_binop('+', n_xl, cd)), Max(0, cd)))


def anti_diag_len(ad, n_il, n_xl):
    """#{(i,x): i + x = ad, 0<=i<n_il, 0<=x<n_xl}"""
    lo = Max(0, ops_binop('-', ad, ops_binop('-', n_xl, 1)))
    hi = Min(ops_binop('-', n_il, 1), ad)
    return Max(0, ops_binop('+', ops_binop('-', hi, lo), 1))


# ------------------------------------------------------------------ version encoding

def enc_version(major, minor, patch, dev):
    """2^21*major + 2^11*minor + 2*patch + (0 if dev else 1)"""
    return ops_binop('+', ops_binop('+', ops_binop('+', ops_binop('*', 2097152, major), ops_binop('*', 2048, minor)),
                                    ops_binop('*', 2, patch)), Ite(dev, 0, 1))


def version_lex_lt(v, w):
    """(M,m,p,dev) < (M',m',p',dev') lexicographically with dev < release at equal numbers"""
    (M, m, p, d), (M2, m2, p2, d2) = v, w
    return Or(ops_cmp('<', M, M2),
              And(ops_cmp('==', M, M2), ops_cmp('<', m, m2)),
              And(ops_cmp('==', M, M2), ops_cmp('==', m, m2), ops_cmp('<', p, p2)),
              And(ops_cmp('==', M, M2), ops_cmp('==', m, m2), ops_cmp('==', p, p2), And(d, Not(d2))))
