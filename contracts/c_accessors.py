"""Contracts on seismic_zfp/accessors.py (C13): the accessors against the semantics of the segyio objects they emulate.

Spec functions are transcribed from the installed segyio (line.py: sanitize_slice, Line.ranges) and CPython
(slice.indices, negative-index wrap); a hash of the transcribed file is pinned in props/C13.py.
values_function is abstract here: VF(n) = item n, raising IndexError iff n is not a line number / ordinal of the axis
(what the read-method contracts of C02/C14 establish)."""
import z3

from pyvc.contract import fuc, Contract
from pyvc.values import (And, Or, Not, Implies, Iff, Ite, Min, Max, ops_binop, ops_cmp, mk_bool, mk_int, zint, zbool,
                         SInt, SObj, STok, SSlice, PyRaise, is_sym, Unsupported, cur, F32)
from pyvc.npmodel import SArray
from pyvc.models import SymSeq
from . import spec as S
from .c_loader import add, sub, mul, fdiv, mod, eq, le, lt, ge, gt

ITEM = z3.Function('ITEM', z3.IntSort(), F32)


def mk_accessor(c, prog, cls_name, by_number, descending=False, lenient=False):
    n = c.sym_int('n', lo=2, name='axis_length')
    if by_number:
        k0 = c.sym_int('k0', lo=1, name='first_line_number')
        inc = c.sym_int('inc', name='line_increment')
        c.assume(gt(inc, 0) if not descending else lt(inc, 0))
        last = add(k0, mul(sub(n, 1), inc))
        c.assume(ge(last, 1))
        keys = SArray((n,), lambda idx: add(k0, mul(idx[0], inc)), 'int32')
        keys.prog = (k0, inc)

        def member(v):
            return And(eq(mod(sub(v, k0), inc), 0), ge(fdiv(sub(v, k0), inc), 0), lt(fdiv(sub(v, k0), inc), n))
    else:
        k0, inc, last = 0, 1, sub(n, 1)
        keys = None

        def member(v):
            return And(ge(v, 0), lt(v, n))

    def vf(v, *a, **k):
        ok = member(v)
        if lenient:
            # read methods that index a numpy / Python sequence with the ordinal (get_trace on irregular files, gen_trace_header on 2-D files)
            # accept -n <= v < n themselves (GetTraceIrregular / GenTraceHeader2d contracts): the accessor must not rely on them to refuse
            ok = And(ge(v, sub(0, n)), lt(v, n))
        if not cur().decide(zbool(ok), raise_split=True):
            raise PyRaise('IndexError')
        if lenient:
            v = Ite(lt(v, 0), add(v, n), v)
        return STok(ITEM(zint(v)))
    o = SObj(prog.klass(cls_name), dict(len_object=n, keys_object=keys if keys is not None else S_range(n), values_function=vf))
    o.axis = (k0, inc, n, last, member)
    return o


def S_range(n):
    from pyvc.values import SRange
    return SRange(0, n, 1)


def seq_len(r):
    if isinstance(r, list):
        return len(r)
    if isinstance(r, SymSeq):
        return r.length
    return None


def seq_item(r, j):
    if isinstance(r, list):
        raise Unsupported('concrete list with symbolic index')
    return r.item(j)


class OrdinalSlice(Contract):
    """trace / header / depth_slice [a:b:c]: the items range(*slice(a,b,c).indices(len)) in that order"""
    pattern = (True, True, True)       # which of start/stop/step are given
    cls_name = 'TraceAccessor'
    may_raise = ()

    def inputs(self, c):
        o = mk_accessor(c, c.ex.prog, self.cls_name, by_number=False)
        names = ('start', 'stop', 'step')
        vals = [c.sym_int(nm, name='subscript.' + nm) if given else None for nm, given in zip(names, self.pattern)]
        return dict(self=o, subscript=SSlice(*vals), _v=vals)

    def pre(self, c, a):
        st = a['_v'][2]
        return [ops_cmp('!=', st, 0)] if st is not None else []

    def spec(self, c, a):
        """(count, item(j)) from CPython's slice.indices -- written independently of pyvc.models.slice_indices"""
        k0, inc, n, last, member = a['self'].axis
        start, stop, step = a['_v']
        stp = 1 if step is None else step
        pos = gt(stp, 0)

        def clamp(v, dflt_pos, dflt_neg):
            if v is None:
                return Ite(pos, dflt_pos, dflt_neg)
            w = Ite(lt(v, 0), add(v, n), v)
            return Ite(pos, Max(0, Min(w, n)), Max(-1, Min(w, sub(n, 1))))
        s0 = clamp(start, 0, sub(n, 1))
        s1 = clamp(stop, n, -1)
        cnt = Ite(pos, Max(0, fdiv(add(sub(s1, s0), sub(stp, 1)), stp)), Max(0, fdiv(add(sub(s0, s1), sub(sub(0, stp), 1)), sub(0, stp))))
        return cnt, (lambda j: add(s0, mul(j, stp)))

    def post(self, c, a, result):
        cnt, item = self.spec(c, a)
        ln = seq_len(result)
        c.ensure(mk_bool(ln is not None) and eq(ln, cnt), 'length_as_python_slicing')
        if isinstance(result, SymSeq):
            j = c.sym_int('j', lo=0, name='position_in_result')
            c.assume(lt(j, cnt))
            got = result.item(j)
            c.ensure(mk_bool(isinstance(got, STok)) and mk_bool(got.z == ITEM(zint(item(j)))), 'items_in_python_slice_order')


for _pat in [(a, b, s) for a in (False, True) for b in (False, True) for s in (False, True)]:
    _cls = type('OrdSlice_' + ''.join('g' if x else 'N' for x in _pat), (OrdinalSlice,), dict(pattern=_pat, variant='slice:' + ''.join('1' if x else '0' for x in _pat)))
    fuc('accessors.py::Accessor.__getitem__', props=['C13'])(_cls)


@fuc('accessors.py::Accessor.__getitem__', props=['C13', 'C14'])
class OrdinalIndex(Contract):
    """trace[i], header[i], depth_slice[i]: Python sequence semantics incl. negative wrap; IndexError iff i not in [-n, n)"""
    variant = 'int'
    lenient = False

    def inputs(self, c):
        o = mk_accessor(c, c.ex.prog, 'TraceAccessor', by_number=False, lenient=self.lenient)
        return dict(self=o, subscript=c.sym_int('i', name='subscript'))

    def raises(self, c, a):
        n = a['self'].axis[2]
        return {'IndexError': Not(And(ge(a['subscript'], sub(0, n)), lt(a['subscript'], n)))}

    def post(self, c, a, result):
        n = a['self'].axis[2]
        i = a['subscript']
        want = Ite(lt(i, 0), add(i, n), i)
        c.ensure(mk_bool(isinstance(result, STok)) and mk_bool(result.z == ITEM(zint(want))), 'item_with_negative_wrap')


class LineSlice(Contract):
    """iline[a:b:c] / xline[a:b:c] by line NUMBER: segyio's Line.ranges --
         defaults from sanitize_slice (increasing unless the step is negative; start = lowest/highest number, stop one
         past the other end), then the numbers of range(*slice.indices(max+1)) that are line numbers of the file.
       Quantifier of C13: given bounds are existing line numbers (stop may also be one step past the end), given steps are
       multiples of the line increment in axis order."""
    pattern = (True, True, True)
    descending = False
    may_raise = ()

    def inputs(self, c):
        o = mk_accessor(c, c.ex.prog, 'InlineAccessor', by_number=True, descending=self.descending)
        k0, inc, n, last, member = o.axis
        vals = []
        for nm, given in zip(('start', 'stop', 'step'), self.pattern):
            vals.append(c.sym_int(nm, name='subscript.' + nm) if given else None)
        return dict(self=o, subscript=SSlice(*vals), _v=vals)

    def pre(self, c, a):
        k0, inc, n, last, member = a['self'].axis
        start, stop, step = a['_v']
        out = []
        if step is not None:
            m = c.sym_int('m', lo=1, name='step_multiple')
            out.append(eq(step, mul(m, inc)))
        if start is not None:
            out.append(member(start))
        if stop is not None:
            out.append(member(stop))
        return out

    def spec(self, c, a):
        k0, inc, n, last, member = a['self'].axis
        start, stop, step = a['_v']
        lowest, highest = Min(k0, last), Max(k0, last)
        increasing = True if step is None else gt(step, 0)
        s0 = start if start is not None else Ite(increasing, lowest, highest)
        s1 = stop if stop is not None else Ite(increasing, add(highest, 1), sub(lowest, 1))
        # range(*slice(s0,s1,step).indices(highest+1)): all bounds are in [lowest-1, highest+1] with lowest >= 1, so no
        # clamping or negative wrap applies (s1 = lowest-1 >= 0).  Filtering by membership keeps every |inc|-th number.
        ainc = Ite(gt(inc, 0), inc, sub(0, inc))
        stp = step if step is not None else ainc
        astp = Ite(gt(stp, 0), stp, sub(0, stp))
        dist = Ite(gt(stp, 0), sub(s1, s0), sub(s0, s1))
        cnt = Max(0, fdiv(add(dist, sub(astp, 1)), astp))
        return cnt, (lambda j: add(s0, mul(j, stp)))

    def post(self, c, a, result):
        cnt, item = self.spec(c, a)
        ln = seq_len(result)
        c.ensure(mk_bool(ln is not None) and eq(ln, cnt), 'as_many_lines_as_segyio')
        if isinstance(result, SymSeq):
            j = c.sym_int('j', lo=0, name='position_in_result')
            c.assume(lt(j, cnt))
            got = result.item(j)
            c.ensure(mk_bool(isinstance(got, STok)) and mk_bool(got.z == ITEM(zint(item(j)))), 'same_lines_in_segyio_order')


for _desc in (False, True):
    for _pat in [(a, b, s) for a in (False, True) for b in (False, True) for s in (False, True)]:
        _cls = type('LineSlice_' + ('d' if _desc else 'a') + ''.join('g' if x else 'N' for x in _pat), (LineSlice,),
                    dict(pattern=_pat, descending=_desc, variant=('desc' if _desc else 'asc') + ':' + ''.join('1' if x else '0' for x in _pat)))
        fuc('accessors.py::SliceAccessor.__getitem__', props=['C13'])(_cls)


@fuc('accessors.py::SliceAccessor.__getitem__', props=['C13', 'C14'])
class LineIndex(Contract):
    """iline[n]: the line with that NUMBER; rejected iff n is not a line number of the file"""
    variant = 'int'

    def inputs(self, c):
        o = mk_accessor(c, c.ex.prog, 'InlineAccessor', by_number=True)
        return dict(self=o, subscript=c.sym_int('num', name='subscript'))

    def raises(self, c, a):
        member = a['self'].axis[4]
        return {'IndexError': Not(member(a['subscript']))}

    def post(self, c, a, result):
        c.ensure(mk_bool(isinstance(result, STok)) and mk_bool(result.z == ITEM(zint(a['subscript']))), 'the_line_with_that_number')


@fuc('accessors.py::Accessor.__len__', props=['C13'])
class AccLen(Contract):
    def inputs(self, c):
        return dict(self=mk_accessor(c, c.ex.prog, 'TraceAccessor', by_number=False))

    def post(self, c, a, result):
        c.ensure(eq(result, a['self'].axis[2]), 'len_is_axis_length')


# ---------------------------------------------------------------------------------------------
# accessor construction: which axis, which length, which read method (ties the abstract values_function to the read contracts)

class ReaderInitView(Contract):
    """call-site view of SgzReader.__init__ (ReaderInit contract): the object holds the file's axes and counts"""
    modular_use = True
    exact_result = True
    variant = 'call-site view'
    only_in = ('Accessor.__init__',)

    def verify(self, interp, prog, timeout_ms=None):
        from pyvc.smt import Explorer
        ex = Explorer(self.fuc_name()); ex.contract = self; ex.prog = prog
        ex.note_outcome('call-site view (the function has its own contract)')
        return ex, prog.function(self.key)

    def fresh_result(self, c, a):
        from . import objects as O
        me = a['self']
        nI = c.sym_int('nI', lo=2, name='n_ilines'); nX = c.sym_int('nX', lo=2, name='n_xlines'); nZ = c.sym_int('nZ', lo=2, name='n_samples')
        me.fields.update(n_ilines=nI, n_xlines=nX, n_samples=nZ, tracecount=mul(nI, nX), ilines=O.axis_array(c, 'ilines', nI), xlines=O.axis_array(c, 'xlines', nX),
                         zslices=O.axis_float(c, 'zslices', nZ))
        c.ghost['reader_init_file'] = a.get('file')
        return None


class AccessorInit(Contract):
    """<X>Accessor(file): a reader on that file whose len / keys / values_function are the count, axis and read method of its kind"""
    cls = 'InlineAccessor'
    spec = ('n_ilines', 'ilines', 'read_inline_number')
    may_raise = ()

    def inputs(self, c):
        me = SObj(c.ex.prog.klass(self.cls), {})
        return dict(self=me, file='<sgz>')

    def post(self, c, a, result):
        from pyvc.symex import BoundMethod
        me = a['self']
        n_field, keys_field, method = self.spec
        c.ensure(mk_bool(c.ghost.get('reader_init_file') == '<sgz>'), 'reader_constructed_on_the_given_file')
        c.ensure(eq(me.fields.get('len_object'), me.fields[n_field]), f'len_is_{n_field}')
        ko = me.fields.get('keys_object')
        if keys_field is None:
            from pyvc.values import SRange
            c.ensure(mk_bool(isinstance(ko, SRange)) and And(eq(ko.start, 0), eq(ko.stop, me.fields['tracecount']), eq(ko.step, 1)), 'keys_are_the_trace_ordinals')
        else:
            c.ensure(mk_bool(ko is me.fields[keys_field]), f'keys_are_{keys_field}')
        vf = me.fields.get('values_function')
        c.ensure(mk_bool(isinstance(vf, BoundMethod) and vf.obj is me and vf.finfo.qualname.endswith('.' + method)), f'values_come_from_{method}')


_ACC = {'InlineAccessor': ('n_ilines', 'ilines', 'read_inline_number'), 'CrosslineAccessor': ('n_xlines', 'xlines', 'read_crossline_number'),
        'ZsliceAccessor': ('n_samples', 'zslices', 'read_zslice'), 'HeaderAccessor': ('tracecount', None, 'gen_trace_header'),
        'TraceAccessor': ('tracecount', None, 'get_trace')}
ReaderInitView.only_in = tuple(f'{k}.__init__' for k in _ACC)
fuc('read.py::SgzReader.__init__', props=[], modular=True)(ReaderInitView)
for _k, _v in _ACC.items():
    fuc(f'accessors.py::{_k}.__init__', props=['C13', 'C02'])(type('AccessorInit_' + _k, (AccessorInit,), dict(cls=_k, spec=_v, variant=_k)))


fuc('accessors.py::Accessor.__getitem__', props=['C13', 'C14'])(type('OrdinalIndexLenient', (OrdinalIndex,), dict(lenient=True, variant='int, values function with sequence semantics (irregular traces / 2-D headers)')))
