"""Contracts on seismic_zfp/utils.py."""
import z3

from pyvc.contract import fuc, Contract
from pyvc.values import (And, Or, Not, Implies, Iff, Ite, Min, Max, ops_binop, ops_cmp, mk_bool, mk_int, mk_float,
                         zint, zbool, zreal, SInt, SFloat, is_floatlike)
from pyvc.models import SymStr
from . import spec as S


@fuc('utils.py::pad', props=['C01', 'C03', 'C09', 'C10', 'C12'], modular=True)
class Pad(Contract):
    """pre derived from every call site (dimension counts >= 0, block dims >= 1)"""
    def inputs(self, c):
        return dict(orig=c.sym_int('orig', name='orig'), multiple=c.sym_int('multiple', name='multiple'))

    def pre(self, c, a):
        return [ops_cmp('>=', a['orig'], 0), ops_cmp('>=', a['multiple'], 1)]

    def result(self, c, a):
        return S.pad_spec(a['orig'], a['multiple'])

    def post(self, c, a, result):
        c.ensure(ops_cmp('==', result, S.pad_spec(a['orig'], a['multiple'])), 'exact')


# --------------------------------------------------------------------------------------------
# C19: define_blockshape_3d / _2d

class _DefineBlockshape(Contract):
    kind = 'int'         # type of bits_per_voxel: int | float | str
    dims = 3

    def inputs(self, c):
        if self.kind == 'int':
            bpv = c.sym_int('bits', name='bits_per_voxel')
        elif self.kind == 'float':
            bpv = c.sym_float('bits', name='bits_per_voxel')
        else:
            f = c.sym_float('bits', name='bits_per_voxel(str)')
            bpv = SymStr('numeric', f)
        b = tuple(c.sym_int(f'b{k}', name=f'blockshape[{k}]') for k in range(3))
        return dict(bits_per_voxel=bpv, blockshape=b)

    @staticmethod
    def requested_rate(bpv):
        """the bit rate a user means by bits_per_voxel: negative n means 1/n (README), -1 means 'free'"""
        v = bpv.payload if isinstance(bpv, SymStr) else bpv
        return v

    def free_count(self, a):
        v = self.requested_rate(a['bits_per_voxel'])
        cnt = 0
        for x in list(a['blockshape']) + [v]:
            cnt = ops_binop('+', cnt, Ite(mk_bool(zreal(x) == -1), 1, 0))
        return cnt

    def valid(self, r, b):
        return S.VALID3(r, b) if self.dims == 3 else S.VALID2(r, b)

    def agrees(self, a, r, b):
        """result agrees with every input component that was not -1 (negative bits = reciprocal)"""
        v = self.requested_rate(a['bits_per_voxel'])
        vz = zreal(v)
        want = z3.If(vz < -1, -1 / vz, vz)
        conds = [Implies(mk_bool(vz != -1), mk_bool(zreal(r) == want))]
        for k in range(3):
            conds.append(Implies(ops_cmp('!=', a['blockshape'][k], -1), ops_cmp('==', b[k], a['blockshape'][k])))
        return And(*conds)

    def completion_exists(self, a):
        """exists a VALID (r,b) agreeing with the inputs, with at most one component free"""
        # with at most one free component the completion is unique; characterise it directly
        v = self.requested_rate(a['bits_per_voxel'])
        vz = zreal(v)
        want = z3.If(vz < -1, -1 / vz, vz)
        b = a['blockshape']
        cases = []
        # nothing free
        cases.append(And(mk_bool(vz != -1), *[ops_cmp('!=', b[k], -1) for k in range(3)],
                         self.valid(mk_float(want), b)))
        # rate free
        prod = zreal(b[0]) * zreal(b[1]) * zreal(b[2])
        for r in S.RATES:
            cases.append(And(mk_bool(vz == -1), *[ops_cmp('!=', b[k], -1) for k in range(3)], self.valid(r, b)))
        # one dim free
        for k in range(3):
            if self.dims == 2 and k == 0:
                continue        # a 2-D setting must state b0 = 1 itself
            for d in S.POW2_DIMS:
                bb = list(b)
                bb[k] = d
                others = [ops_cmp('!=', b[j], -1) for j in range(3) if j != k]
                cases.append(And(mk_bool(vz != -1), ops_cmp('==', b[k], -1), *others, self.valid(mk_float(want), tuple(bb))))
        return Or(*cases)

    def post(self, c, a, result):
        # (i) soundness: a setting that is accepted is a valid one and is the one asked for
        c.ensure(mk_bool(isinstance(result, tuple) and len(result) == 2 and isinstance(result[1], tuple)
                         and len(result[1]) == 3), 'shape_of_result')
        r, b = result
        c.ensure(self.valid(r, b), 'sound.valid')
        c.ensure(self.agrees(a, r, b), 'sound.agrees')
        c.ensure(ops_cmp('<=', self.free_count(a), 1), 'sound.at_most_one_free')

    def post_raise(self, c, a, cls):
        # (ii) completeness: a valid setting (with at most one free component) is never refused
        c.ensure(Not(And(ops_cmp('<=', self.free_count(a), 1), self.completion_exists(a))), 'complete.accepts_valid')

    may_raise = ('ValueError', 'AssertionError', 'ZeroDivisionError', 'TypeError', 'OverflowError')


@fuc('utils.py::define_blockshape_3d', props=['C19'])
class DefineBlockshape3dInt(_DefineBlockshape):
    variant = 'bits:int'
    kind = 'int'


@fuc('utils.py::define_blockshape_3d', props=['C19'])
class DefineBlockshape3dFloat(_DefineBlockshape):
    variant = 'bits:float'
    kind = 'float'


@fuc('utils.py::define_blockshape_3d', props=['C19'])
class DefineBlockshape3dStr(_DefineBlockshape):
    variant = 'bits:str'
    kind = 'str'


@fuc('utils.py::define_blockshape_2d', props=['C19', 'C09'])
class DefineBlockshape2dInt(_DefineBlockshape):
    variant = 'bits:int'
    kind = 'int'
    dims = 2


@fuc('utils.py::define_blockshape_2d', props=['C19', 'C09'])
class DefineBlockshape2dFloat(_DefineBlockshape):
    variant = 'bits:float'
    kind = 'float'
    dims = 2


# --------------------------------------------------------------------------------------------
# diagonal lengths (C02/C14)

@fuc('utils.py::get_correlated_diagonal_length', props=['C02', 'C14'], modular=True)
class CorrDiagLen(Contract):
    def inputs(self, c):
        return dict(cd=c.sym_int('cd', name='cd'), n_il=c.sym_int('n_il', name='n_il'), n_xl=c.sym_int('n_xl', name='n_xl'))

    def pre(self, c, a):
        return [ops_cmp('>=', a['n_il'], 1), ops_cmp('>=', a['n_xl'], 1),
                ops_cmp('>', a['cd'], ops_binop('-', 0, a['n_xl'])), ops_cmp('<', a['cd'], a['n_il'])]

    def result(self, c, a):
        return S.corr_diag_len(a['cd'], a['n_il'], a['n_xl'])

    def post(self, c, a, result):
        c.ensure(ops_cmp('==', result, S.corr_diag_len(a['cd'], a['n_il'], a['n_xl'])), 'exact')


@fuc('utils.py::get_anticorrelated_diagonal_length', props=['C02', 'C14'], modular=True)
class AntiDiagLen(Contract):
    def inputs(self, c):
        return dict(ad=c.sym_int('ad', name='ad'), n_il=c.sym_int('n_il', name='n_il'), n_xl=c.sym_int('n_xl', name='n_xl'))

    def pre(self, c, a):
        return [ops_cmp('>=', a['n_il'], 1), ops_cmp('>=', a['n_xl'], 1), ops_cmp('>=', a['ad'], 0),
                ops_cmp('<', a['ad'], ops_binop('-', ops_binop('+', a['n_il'], a['n_xl']), 1))]

    def result(self, c, a):
        return S.anti_diag_len(a['ad'], a['n_il'], a['n_xl'])

    def post(self, c, a, result):
        c.ensure(ops_cmp('==', result, S.anti_diag_len(a['ad'], a['n_il'], a['n_xl'])), 'exact')


class ChunkCacheSize(Contract):
    """only fact needed anywhere: the cache size is >= 1 (any size is correct for an lru cache)"""
    def inputs(self, c):
        return dict(n_il_chunks=c.sym_int('ni', lo=0, name='n_il_chunks'), n_xl_chunks=c.sym_int('nx', lo=0, name='n_xl_chunks'))

    def result(self, c, a):
        return c.sym_int('cache_size', lo=2)

    def post(self, c, a, result):
        c.ensure(ops_cmp('>=', result, 2), 'at_least_2')


# ---------------------------------------------------------------------------------------------
# coordinate lookups (C02 / C05 / C14): line number / sample time -> ordinal on a regular axis

from pyvc.npmodel import SArray as _SArray      # noqa: E402
from . import objects as _O      # noqa: E402


class CoordToIndex(Contract):
    """coord_to_index(coord, axis) on a regular integer axis a0 + k*d (d != 0, n >= 2): returns the k with axis[k] == coord;
    IndexError iff coord is not a value of the axis -- except that with include_stop the value one step past the end gives n"""
    include_stop = False
    may_raise = ()

    def inputs(self, c):
        n = c.sym_int('n', lo=2, name='axis_length')
        ax = _O.axis_array(c, 'axis', n)
        return dict(coord=c.sym_int('coord', name='coord'), coords=ax, include_stop=self.include_stop, _n=n, _ax=ax.prog)

    def on_axis(self, a):
        a0, d = a['_ax']
        rel = ops_binop('-', a['coord'], a0)
        k = ops_binop('//', rel, d)
        return And(ops_cmp('==', ops_binop('%', rel, d), 0), ops_cmp('>=', k, 0), ops_cmp('<', k, a['_n'])), k

    def raises(self, c, a):
        on, k = self.on_axis(a)
        a0, d = a['_ax']
        past = ops_cmp('==', a['coord'], ops_binop('+', a0, ops_binop('*', a['_n'], d)))
        if self.include_stop:
            return {'IndexError': And(Not(on), Not(past))}
        return {'IndexError': Not(on)}

    def post(self, c, a, result):
        a0, d = a['_ax']
        on, k = self.on_axis(a)
        c.ensure(Implies(on, And(ops_cmp('>=', result, 0), ops_cmp('<', result, a['_n']), ops_cmp('==', ops_binop('+', a0, ops_binop('*', result, d)), a['coord']))), 'index_of_the_coordinate')
        if self.include_stop:
            c.ensure(Implies(Not(on), ops_cmp('==', result, a['_n'])), 'one_step_past_the_end_gives_the_length')


for _is in (False, True):
    fuc('utils.py::coord_to_index', props=['C02', 'C05', 'C14', 'C10'])(type('CoordToIndex' + ('Stop' if _is else ''), (CoordToIndex,), dict(include_stop=_is, variant=f'include_stop={_is}')))


class CoordToIndexFloat(Contract):
    """coord_to_index on the sample axis z0 + k*dz (exact reals, S3a; dz > 0): the k with z0 + k*dz == coord, IndexError iff there is none
    (with include_stop: one interval past the end gives n)"""
    include_stop = False
    may_raise = ()

    def inputs(self, c):
        n = c.sym_int('n', lo=2, name='n_samples')
        ax = _O.axis_float(c, 'zslices', n)
        return dict(coord=c.sym_float('coord', name='coord'), coords=ax, include_stop=self.include_stop, _n=n, _ax=ax.prog)

    def member(self, c, a):
        z0, dz = a['_ax']
        k = c.sym_int('kspec', name='spec_index')
        # k := the integer with z0 + k*dz == coord, if any (Skolem constant: uniqueness follows from dz > 0)
        return k, mk_bool(zreal(z0) + z3.ToReal(zint(k)) * zreal(dz) == zreal(a['coord']))

    def raises(self, c, a):
        z0, dz = a['_ax']
        j = z3.Int('jq')
        on = z3.Exists([j], z3.And(j >= 0, j < zint(a['_n']), zreal(z0) + z3.ToReal(j) * zreal(dz) == zreal(a['coord'])))
        past = mk_bool(zreal(a['coord']) == zreal(z0) + z3.ToReal(zint(a['_n'])) * zreal(dz))
        if self.include_stop:
            return {'IndexError': And(Not(mk_bool(on)), Not(past))}
        return {'IndexError': Not(mk_bool(on))}

    def post(self, c, a, result):
        z0, dz = a['_ax']
        hit = mk_bool(zreal(z0) + z3.ToReal(zint(result)) * zreal(dz) == zreal(a['coord']))
        inr = And(ops_cmp('>=', result, 0), ops_cmp('<', result, a['_n']))
        if self.include_stop:
            c.ensure(Or(And(inr, hit), And(ops_cmp('==', result, a['_n']), hit)), 'index_of_the_sample_time_or_length_one_past_the_end')
        else:
            c.ensure(And(inr, hit), 'index_of_the_sample_time')


from pyvc.values import zreal as zreal      # noqa: E402
for _is in (False, True):
    fuc('utils.py::coord_to_index', props=['C02', 'C05', 'C14'])(type('CoordToIndexFloat' + ('Stop' if _is else ''), (CoordToIndexFloat,), dict(include_stop=_is, variant=f'float axis,include_stop={_is}')))
