"""Contracts on the SEG-Y export of seismic_zfp/conversion.py::SgzConverter (C06): what is handed to segyio and what is written."""
import z3

from pyvc.contract import fuc, Contract
from pyvc.values import (And, Or, Not, Implies, Iff, Ite, ops_binop, ops_cmp, mk_bool, mk_int, zint, zbool, zreal, SInt, SObj, STok, is_sym, Unsupported, cur)
from pyvc.npmodel import SArray
from pyvc.models import SymSeq
from pyvc.symex import TaggedInt
from pyvc import bytesmodel as BM
from pyvc import models_io as IO
from . import spec as S
from . import objects as O
from . import models_ext as MX
from .c_loader import register, CFG_DEFAULT, CFG_ZSLICE, ALL2, add, sub, mul, fdiv, mod, eq, le, lt, ge, gt, F, BLK
from .c_read import ReadContract
from .c_header import hdr_u32

CV = 'conversion.py::SgzConverter.'
def U16BE(kind, off):
    # the engine's big-endian 16-bit file word (pyvc.models.decode_word): U16 with kind + 100
    return BM.U16(kind + 100, off)


def register_export_models(lib):
    E, M = lib.ext, lib.methods

    def segy_spec(I):
        return SObj(None, clsname='$segyspec')
    E['segyio.spec'] = segy_spec

    def segy_create(I, filename, spec):
        o = SObj(None, clsname='$segyout')
        o.fields.update(filename=filename, spec=spec)
        cur().ghost.setdefault('created', []).append(o)
        return o
    E['segyio.create'] = segy_create
    M[('$segyout', '__enter__')] = lambda I, o: o
    M[('$segyout', '__exit__')] = lambda I, o, exc: o.fields.__setitem__('closed', True)
    E['warnings.filterwarnings'] = lambda I, *a, **k: None


MX.EXTRA_REGISTRARS.append(register_export_models)


class _View(Contract):
    modular_use = True
    exact_result = True
    variant = 'call-site view'

    def verify(self, interp, prog, timeout_ms=None):
        from pyvc.smt import Explorer
        ex = Explorer(self.fuc_name()); ex.contract = self; ex.prog = prog
        ex.note_outcome('call-site view (the function has its own contract)')
        return ex, prog.function(self.key)


class GenTraceHeaderView(_View):
    """gen_trace_header(i) per GenTraceHeader: a fresh dict; field 109 as the template / footer says (HDRVAL abstract)"""
    only_in = ('SgzConverter.regenerate_trace_header', 'SgzConverter.write_segy')
    def fresh_result(self, c, a):
        i = a['index']
        d = {1: mk_int(z3.Function('HDRVAL', z3.IntSort(), z3.IntSort(), z3.IntSort())(zint(i), z3.IntVal(1))),
             109: mk_int(z3.Function('HDRVAL', z3.IntSort(), z3.IntSort(), z3.IntSort())(zint(i), z3.IntVal(109)))}
        return d


fuc('read.py::SgzReader.gen_trace_header', props=[], modular=True)(GenTraceHeaderView)


class ReadVariantHeadersView(_View):
    """read_variant_headers(): loads the footer arrays (cost / caching only; values flow through gen_trace_header)"""
    only_in = ('SgzConverter.write_segy',)
    def fresh_result(self, c, a):
        c.ghost['variant_headers_loaded'] = True
        return None


fuc('read.py::SgzReader.read_variant_headers', props=[], modular=True)(ReadVariantHeadersView)


class RegenerateTraceHeader(ReadContract):
    """regenerate_trace_header(i) = gen_trace_header(i) with DelayRecordingTime (byte 109) := int(first sample time)"""
    cls_name = 'SgzConverter'

    def inputs(self, c):
        g, rd = self.reader(c)
        z0 = rd.fields['zslices'].prog[0]
        c.assume(mk_bool(z3.ToReal(z3.ToInt(zreal(z0))) == zreal(z0)))      # the sample axis starts at a whole millisecond (a 16-bit header field defines it)
        return dict(self=rd, _g=g, i=c.sym_int('i', lo=0, name='trace'))

    def post(self, c, a, result):
        HV = z3.Function('HDRVAL', z3.IntSort(), z3.IntSort(), z3.IntSort())
        c.ensure(mk_bool(isinstance(result, dict) and set(int(k) for k in result) == {1, 109}), 'same_fields_as_gen_trace_header')
        c.ensure(eq(result[1], mk_int(HV(zint(a['i']), z3.IntVal(1)))), 'other_fields_unchanged')
        z0 = a['self'].fields['zslices'].prog[0]
        # int() truncates toward zero; the properties' sample axes start at whole milliseconds
        c.ensure(mk_bool(z3.ToReal(zint(result[109])) == zreal(z0)) if True else True, 'delay_recording_time_is_the_first_sample_time')


register(RegenerateTraceHeader, CV + 'regenerate_trace_header', ['C06'], [CFG_DEFAULT[3]], modes=('file',))


class ConvertToSegy(ReadContract):
    """convert_to_segy: the segyio spec carries the reader's axes (3-D: samples, inlines, crosslines, inline sorting; 2-D/irregular handled by
    the tracecount branch); sample format = the source's when it is IBM (1) or IEEE (5), else IBM with the stored binary header patched;
    write_segy is called with that spec"""
    cls_name = 'SgzConverter'
    fmt = 5

    def inputs(self, c):
        g, rd = self.reader(c)
        rd.fields['headerbytes'] = BM.file_bytes(BM.K_FILE, 0, 2 * BLK)
        code = mk_int(U16BE(z3.IntVal(BM.K_FILE), z3.IntVal(BLK + 3224)))       # SEG-Y binary header bytes 3225-3226: data sample format code
        if self.fmt in (1, 5):
            c.assume(eq(code, self.fmt))
        else:
            c.assume(Not(Or(eq(code, 1), eq(code, 5))), ge(code, 0), lt(code, 65536))
        return dict(self=rd, _g=g, out_file='out.sgy', _code=code)

    def post(self, c, a, result):
        calls = [k for k in c.ghost.get('calls', []) if k[0].endswith('SgzConverter.write_segy')]
        c.ensure(mk_bool(len(calls) == 1), 'write_segy_called_once')
        if len(calls) != 1:
            return
        spec = calls[0][1]['spec']
        rd = a['self']
        sf = spec.fields
        c.ensure(mk_bool(sf.get('samples') is rd.fields['zslices']), 'spec.samples_is_the_sample_axis')
        c.ensure(mk_bool(sf.get('ilines') is rd.fields['ilines'] and sf.get('xlines') is rd.fields['xlines']), 'spec.line_axes_are_the_reader_axes')
        c.ensure(mk_bool(sf.get('sorting') == 2 and sf.get('offsets') == [0]), 'spec.inline_sorted_single_offset')
        c.ensure(eq(sf.get('format'), self.fmt if self.fmt in (1, 5) else 1), 'spec.format_is_the_source_format_or_ibm')
        hb = rd.fields['headerbytes']
        q = c.sym_int('hq', lo=0, hi=2 * BLK - 1, name='header_byte')
        c.assume(Or(lt(q, BLK + 3224), ge(q, BLK + 3226)))
        t = hb.tok(q)
        c.ensure(eq(hb.length, 2 * BLK) and mk_bool(z3.And(t.zk() == BM.K_FILE, t.zo() == zint(q))), 'stored_file_headers_untouched_outside_the_format_word')
        if self.fmt in (1, 5):
            t2 = hb.tok(BLK + 3224)
            c.ensure(mk_bool(z3.And(t2.zk() == BM.K_FILE, t2.zo() == BLK + 3224)), 'format_word_untouched_when_valid')


class WriteSegyView(_View):
    only_in = ('SgzConverter.convert_to_segy',)
    def fresh_result(self, c, a):
        return None


fuc(CV + 'write_segy', props=[], modular=True)(WriteSegyView)
for _f in (5, 1, 0):
    register(type(f'ConvertToSegy_f{_f}', (ConvertToSegy,), dict(fmt=_f)), CV + 'convert_to_segy', ['C06'], [CFG_DEFAULT[3]], modes=('file',), tag=f'format={_f}')


class WriteSegy(ReadContract):
    """write_segy: every trace of the file, in ordinal order, as get_trace(i) returns it (all samples); every header as
    regenerate_trace_header(i); then the stored 3600 SEG-Y file-header bytes over the start of the output"""
    cls_name = 'SgzConverter'

    def inputs(self, c):
        g, rd = self.reader(c)
        rd.fields['headerbytes'] = BM.file_bytes(BM.K_FILE, 0, 2 * BLK)
        spec = SObj(None, clsname='$segyspec')
        return dict(self=rd, _g=g, spec=spec, out_file='out.sgy')

    def post(self, c, a, result):
        g = a['self'].geo
        rd = a['self']
        outs = c.ghost.get('created', [])
        c.ensure(mk_bool(len(outs) == 1 and outs[0].fields.get('spec') is a['spec'] and outs[0].fields.get('filename') == 'out.sgy'), 'one_segy_created_from_the_spec')
        if len(outs) != 1:
            return
        o = outs[0]
        tr, hd = o.fields.get('trace'), o.fields.get('header')
        n = rd.fields['tracecount']
        c.ensure(mk_bool(isinstance(tr, SymSeq)) and eq(tr.length, n), 'traces.one_per_trace_of_the_file')
        c.ensure(mk_bool(isinstance(hd, SymSeq)) and eq(hd.length, n), 'headers.one_per_trace_of_the_file')
        i = c.sym_int('ti', lo=0, name='trace')
        c.assume(lt(i, n))
        if isinstance(tr, SymSeq):
            t = tr.item(i)
            c.ensure(mk_bool(isinstance(t, SArray) and len(t.shape) == 1) and eq(t.shape[0], g.nZ), 'traces.all_samples')
            e = c.sym_int('ts', lo=0, name='sample')
            c.assume(lt(e, g.nZ))
            c.ensure(t.fn((e,)) == O.Vpad(g, fdiv(i, g.nX), mod(i, g.nX), e), 'traces.in_trace_order_with_the_decoded_samples')
        if isinstance(hd, SymSeq):
            h = hd.item(i)
            HV = z3.Function('HDRVAL', z3.IntSort(), z3.IntSort(), z3.IntSort())
            c.ensure(mk_bool(isinstance(h, dict)) and eq(h.get(1), mk_int(HV(zint(i), z3.IntVal(1)))), 'headers.in_trace_order_from_regenerate_trace_header')
        c.ensure(mk_bool(c.ghost.get('variant_headers_loaded') is True), 'header_arrays_loaded_once_up_front')
        ws = c.ghost.get('writes', [])
        c.ensure(mk_bool(len(ws) == 1), 'one_in_place_write')
        if len(ws) == 1:
            w = ws[0]
            c.ensure(eq(w.pos, 0) and eq(w.data.length, 3600), 'file_header.3600_bytes_at_the_start')
            q = c.sym_int('fq', lo=0, hi=3599, name='file_header_byte')
            t = w.data.tok(q)
            c.ensure(mk_bool(z3.And(t.zk() == BM.K_FILE, t.zo() == zint(add(BLK, q)))), 'file_header.is_the_stored_segy_file_header')
            c.ensure(mk_bool(w.handle.fields.get('name') == 'out.sgy' and '+' in w.handle.fields.get('mode', '')), 'file_header.written_in_place_into_the_output')


register(WriteSegy, CV + 'write_segy', ['C06'], [CFG_DEFAULT[3], CFG_ZSLICE[0]], modes=('file',))
