"""Contracts on the sample-reading methods of seismic_zfp/read.py  (C02 value, C14 bounds, C07 read log).

Each public read method gets, for every valid configuration of its layout and for ALL cube shapes and arguments:
   raises IndexError (WrongDimensionalityError on a 2D/3D mismatch)  IFF  the argument is outside the real extent
   otherwise: exact shape and   result[idx] == V[real coordinate]    (pointwise, skolem index)
   ghost read log == exactly the blocks / units the request needs
Loader calls are used by contract (c_loader.py); `self` is the object state __init__ establishes (objects.mk_reader).
"""
import z3

from pyvc.contract import fuc, Contract
from pyvc.values import (And, Or, Not, Implies, Iff, Ite, Min, Max, ops_binop, ops_cmp, mk_bool, mk_int, zint, zbool,
                         SInt, SObj, STok, is_sym, Unsupported, cur)
from pyvc.npmodel import SArray
from pyvc.values import SSlice
from pyvc import loops as L
from pyvc import bytesmodel as BM
from pyvc import models_io as IO
from . import spec as S
from . import objects as O
from . import ghost as GH
from .c_loader import (LoaderContract, register, CFG_DEFAULT, CFG_ZSLICE, CFG_GENERAL, ALL3, ALL2, CFG_2D_DEFAULT,
                       CFG_2D_GENERAL, add, sub, mul, fdiv, mod, eq, le, lt, ge, gt, F, check_array, BLK, no_swallowed)

CFG_NOT_DEFAULT_NOT_Z = [c for c in CFG_GENERAL if c[1][2] != 4]


def in_range(x, lo, hi):
    return And(ge(x, lo), lt(x, hi))


def layout_of(cfg):
    b = cfg[1]
    if b[0] == 4 and b[1] == 4:
        return 'default'
    if b[2] == 4:
        return 'zslice'
    return 'general'


class ReadContract(LoaderContract):
    two_d = False
    cls_name = 'SgzReader'
    structured = True
    min_dim = 2          # the properties quantify over cubes with every dimension >= 2
    may_raise = ()

    def reader(self, c):
        if self.fault_mode:
            c.ghost['io_mode'] = 'faulty'
        lay = 'default' if self.two_d and self.cfg[1][1] == 4 else layout_of(self.cfg) if not self.two_d else 'general'
        g = O.mk_geo(c, layout=lay, two_d=self.two_d, cfg=self.cfg, min_dim=self.min_dim)
        rd = O.mk_reader(c, c.ex.prog, g, cls_name=self.cls_name, preload=self.preload, local=self.local, structured=self.structured)
        return g, rd

    def expect_reads(self, c, g, specs, label='reads', cell=None):
        """the read log is exactly the given list of families: (trip counts, offset(*indices), length)"""
        self.check_no_fault(c)
        if self.preload:
            GH.require_read_count(c, 0, 'preload_noreads')
            return
        evs = GH.reads(c)
        c.ensure(mk_bool(len(evs) == len(specs)), f'{label}.number_of_read_families_is_{len(specs)}', kind='ghost')
        for j, (ev, (counts, off_fn, n)) in enumerate(zip(evs, specs)):
            c.ensure(mk_bool(len(ev.loopvars) == len(counts)), f'{label}[{j}].nesting', kind='ghost')
            if len(ev.loopvars) != len(counts):
                continue
            ks = [SInt(kz) for (kz, _) in ev.loopvars]
            c.ensure(And(eq(ev.off, off_fn(*ks)), eq(ev.n, n)), f'{label}[{j}].exactly_the_needed_range', kind='ghost')
            c.ensure(And(*[eq(ev.loopvars[i][1], counts[i]) for i in range(len(counts))]), f'{label}[{j}].one_read_per_needed_item', kind='ghost')
        if cell is None and g.layout == 'default' and not g.two_d:
            cell = (g.data_start, mul(g.ub, g.U[2]))          # bytes of one 4x4 unit column
        GH.require_reads_disjoint(c, f'{label}.no_byte_twice', cell=cell)
        GH.require_reads_within(c, self.data_off(g, 0), self.data_off(g, g.diskblocks), f'{label}.in_data_section')

    # read-log shapes shared by several methods
    def box_units_default(self, g, lo, hi):
        """default layout sub-volume [lo,hi): one read per 4x4 unit column of the box, covering the units of its z range"""
        units = [sub(fdiv(add(hi[k], 3), 4), fdiv(lo[k], 4)) for k in range(3)]
        return [([units[0], units[1]],
                 lambda ki, kx: add(g.data_start, O.spec_off(g, add(fdiv(lo[0], 4), ki), add(fdiv(lo[1], 4), kx), fdiv(lo[2], 4))),
                 mul(g.ub, units[2]))]

    def box_blocks_general(self, g, lo, hi):
        """general layout sub-volume [lo,hi): exactly one read of each 4 KiB block the box intersects"""
        blocks = [sub(fdiv(add(hi[k], g.b[k] - 1), g.b[k]), fdiv(lo[k], g.b[k])) for k in range(3)]

        def off(k0, k1, k2):
            bi, bx, bz = add(fdiv(lo[0], g.b[0]), k0), add(fdiv(lo[1], g.b[1]), k1), add(fdiv(lo[2], g.b[2]), k2)
            return self.data_off(g, add(mul(add(mul(bi, g.G[1]), bx), g.G[2]), bz))
        return [(blocks, off, BLK)]

    def box_reads(self, g, lo, hi):
        return self.box_units_default(g, lo, hi) if g.layout == 'default' else self.box_blocks_general(g, lo, hi)


WDE = 'WrongDimensionalityError'


# ---------------------------------------------------------------------------------------------
# sub-volume (the general method everything else falls back to)

class ReadSubvolume(ReadContract):
    access_padding = False
    multithreading = True
    modular_use = True
    NAMES = ('min_il', 'max_il', 'min_xl', 'max_xl', 'min_z', 'max_z')

    def inputs(self, c):
        g, rd = self.reader(c)
        d = dict(self=rd, _g=g, access_padding=self.access_padding, multithreading=self.multithreading)
        for nm in self.NAMES:
            d[nm] = c.sym_int(nm, name=nm)
        return d

    def upper(self, g, a):
        ap = a.get('access_padding', False)
        return g.P if ap else g.n

    def in_extent(self, g, a):
        up = self.upper(g, a)
        conds = []
        for k, (lo, hi) in enumerate((('min_il', 'max_il'), ('min_xl', 'max_xl'), ('min_z', 'max_z'))):
            conds += [ge(a[lo], 0), lt(a[lo], a[hi]), le(a[hi], up[k])]
        return And(*conds)

    def raises(self, c, a):
        g = a['self'].geo
        if g.two_d:
            return {WDE: True}
        return {'IndexError': Not(self.in_extent(g, a))}

    def lohi(self, a):
        return [a['min_il'], a['min_xl'], a['min_z']], [a['max_il'], a['max_xl'], a['max_z']]

    def result(self, c, a):
        g = a['self'].geo
        lo, hi = self.lohi(a)
        return SArray(tuple(sub(hi[k], lo[k]) for k in range(3)),
                      lambda idx: O.Vpad(g, add(lo[0], idx[0]), add(lo[1], idx[1]), add(lo[2], idx[2])), 'float32')

    def effects(self, c, a, result):
        g = a['self'].geo
        if F(F(a['self'], 'loader'), 'compressed_volume') is not None:
            return
        lo, hi = self.lohi(a)
        for counts, off_fn, n in self.box_reads(g, lo, hi):
            ks = []
            for cnt in counts:
                k = c.fresh_int('sv_k')
                c.assume_raw(z3.And(k >= 0, k < zint(cnt)))
                c.nonneg_ids.add(k.get_id())
                ks.append(k)
            IO.log_read(c, BM.K_FILE, off_fn(*[SInt(k) for k in ks]), n, extra_loopvars=[(k, cnt) for k, cnt in zip(ks, counts)])

    def post(self, c, a, result):
        if c.mode != 'verify':
            return
        g = a['self'].geo
        lo, hi = self.lohi(a)
        shp = tuple(sub(hi[k], lo[k]) for k in range(3))
        check_array(c, result, shp)
        e = O.skolem_index(c, shp)
        c.ensure(result.fn(e) == O.Vpad(g, add(lo[0], e[0]), add(lo[1], e[1]), add(lo[2], e[2])), 'elem')
        no_swallowed(c)
        self.expect_reads(c, g, self.box_reads(g, lo, hi))


class ReadSubvolumePad(ReadSubvolume):
    access_padding = True
    multithreading = False


register(ReadSubvolume, 'read.py::SgzReader.read_subvolume', ['C02', 'C07', 'C14'], ALL3, modes=('file', 'preload'))
register(ReadSubvolumePad, 'read.py::SgzReader.read_subvolume', ['C02', 'C07', 'C14'], ALL3, modes=('file',), tag='padded')


class ReadSubvolume2d(ReadSubvolume):
    two_d = True


register(ReadSubvolume2d, 'read.py::SgzReader.read_subvolume', ['C09', 'C14'], ALL2[:2], modes=('file',), tag='2d')


class ReadVolume(ReadContract):
    def inputs(self, c):
        g, rd = self.reader(c)
        return dict(self=rd, _g=g)

    def raises(self, c, a):
        return {WDE: True} if a['self'].geo.two_d else {}

    def post(self, c, a, result):
        g = a['self'].geo
        check_array(c, result, g.n)
        e = O.skolem_index(c, g.n)
        c.ensure(result.fn(e) == O.Vpad(g, e[0], e[1], e[2]), 'elem')
        self.expect_reads(c, g, self.box_reads(g, [0, 0, 0], list(g.n)))


register(ReadVolume, 'read.py::SgzReader.read_volume', ['C02', 'C07', 'C01'], ALL3, modes=('file',))


# ---------------------------------------------------------------------------------------------
# inline / crossline / z-slice by ordinal

class ReadInline(ReadContract):
    def inputs(self, c):
        g, rd = self.reader(c)
        return dict(self=rd, _g=g, il_id=c.sym_int('il_id', name='il_id'))

    def raises(self, c, a):
        g = a['self'].geo
        if g.two_d:
            return {WDE: True}
        return {'IndexError': Not(in_range(a['il_id'], 0, g.nI))}

    def post(self, c, a, result):
        g = a['self'].geo
        shp = (g.nX, g.nZ)
        check_array(c, result, shp)
        e = O.skolem_index(c, shp)
        c.ensure(result.fn(e) == O.Vpad(g, a['il_id'], e[0], e[1]), 'elem')
        if g.layout == 'default':
            per = mul(g.G[1], g.G[2])
            self.expect_reads(c, g, [([], lambda: self.data_off(g, mul(fdiv(a['il_id'], 4), per)), mul(BLK, per))])
        else:
            self.expect_reads(c, g, self.box_blocks_general(g, [a['il_id'], 0, 0], [add(a['il_id'], 1), g.nX, g.nZ]))


register(ReadInline, 'read.py::SgzReader.read_inline', ['C02', 'C07', 'C14'], ALL3, modes=('file', 'preload'))


class ReadCrossline(ReadContract):
    def inputs(self, c):
        g, rd = self.reader(c)
        return dict(self=rd, _g=g, xl_id=c.sym_int('xl_id', name='xl_id'))

    def raises(self, c, a):
        g = a['self'].geo
        if g.two_d:
            return {WDE: True}
        return {'IndexError': Not(in_range(a['xl_id'], 0, g.nX))}

    def post(self, c, a, result):
        g = a['self'].geo
        shp = (g.nI, g.nZ)
        check_array(c, result, shp)
        e = O.skolem_index(c, shp)
        c.ensure(result.fn(e) == O.Vpad(g, e[0], a['xl_id'], e[1]), 'elem')
        if g.layout == 'default':
            xg = fdiv(a['xl_id'], 4)
            self.expect_reads(c, g, [([g.G[0]], lambda k: self.data_off(g, mul(add(mul(k, g.G[1]), xg), g.G[2])), mul(BLK, g.G[2]))])
        else:
            self.expect_reads(c, g, self.box_blocks_general(g, [0, a['xl_id'], 0], [g.nI, add(a['xl_id'], 1), g.nZ]))


register(ReadCrossline, 'read.py::SgzReader.read_crossline', ['C02', 'C07', 'C14'], ALL3, modes=('file', 'preload'))


class ReadZslice(ReadContract):
    def inputs(self, c):
        g, rd = self.reader(c)
        return dict(self=rd, _g=g, zslice_id=c.sym_int('zslice_id', name='zslice_id'))

    def raises(self, c, a):
        g = a['self'].geo
        if g.two_d:
            return {WDE: True}
        return {'IndexError': Not(in_range(a['zslice_id'], 0, g.nZ))}

    def post(self, c, a, result):
        g = a['self'].geo
        shp = (g.nI, g.nX)
        check_array(c, result, shp)
        e = O.skolem_index(c, shp)
        z = a['zslice_id']
        c.ensure(result.fn(e) == O.Vpad(g, e[0], e[1], z), 'elem')
        if g.layout == 'default':
            # one compression unit per 4x4 trace column
            self.expect_reads(c, g, [([g.G[0], g.G[1]], lambda ki, kx: add(g.data_start, O.spec_off(g, ki, kx, fdiv(z, 4))), g.ub)])
        elif g.layout == 'zslice':
            # one block per tile
            self.expect_reads(c, g, [([g.G[0], g.G[1]], lambda ki, kx: self.data_off(g, add(mul(add(mul(ki, g.G[1]), kx), g.G[2]), fdiv(z, 4))), BLK)])
        else:
            self.expect_reads(c, g, self.box_blocks_general(g, [0, 0, z], [g.nI, g.nX, add(z, 1)]))


register(ReadZslice, 'read.py::SgzReader.read_zslice', ['C02', 'C07', 'C14'], ALL3, modes=('file', 'preload'))


class Read2dRefusals(ReadContract):
    """volume-style reads on a 2-D file are refused with the dimensionality error"""
    two_d = True
    method = 'read_inline'

    def inputs(self, c):
        g, rd = self.reader(c)
        d = dict(self=rd, _g=g)
        for nm in self.argnames:
            d[nm] = c.sym_int(nm, name=nm)
        return d

    def raises(self, c, a):
        return {WDE: True}


for _m, _args in (('read_inline', ('il_id',)), ('read_crossline', ('xl_id',)), ('read_zslice', ('zslice_id',)),
                  ('read_correlated_diagonal', ('cd_id',)), ('read_anticorrelated_diagonal', ('ad_id',))):
    _cls = type('Refuse2d_' + _m, (Read2dRefusals,), dict(argnames=_args))
    register(_cls, f'read.py::SgzReader.{_m}', ['C09', 'C14'], ALL2[:2], modes=('file',), tag='2d')


# ---------------------------------------------------------------------------------------------
# 2-D window

class ReadSubplane(ReadContract):
    two_d = True
    access_padding = False
    modular_use = True
    NAMES = ('min_trace', 'max_trace', 'min_z', 'max_z')

    def inputs(self, c):
        g, rd = self.reader(c)
        d = dict(self=rd, _g=g, access_padding=self.access_padding)
        for nm in self.NAMES:
            d[nm] = c.sym_int(nm, name=nm)
        return d

    def raises(self, c, a):
        g = a['self'].geo
        if not g.two_d:
            return {WDE: True}
        up = (g.P[1], g.P[2]) if a.get('access_padding', False) else (g.nT, g.nZ)
        ok = And(ge(a['min_trace'], 0), lt(a['min_trace'], a['max_trace']), le(a['max_trace'], up[0]),
                 ge(a['min_z'], 0), lt(a['min_z'], a['max_z']), le(a['max_z'], up[1]))
        return {'IndexError': Not(ok)}

    def window_reads(self, g, a):
        lo = [a['min_trace'], a['min_z']]
        hi = [a['max_trace'], a['max_z']]
        blocks = [sub(fdiv(add(hi[k], g.b[k + 1] - 1), g.b[k + 1]), fdiv(lo[k], g.b[k + 1])) for k in range(2)]

        def off(kx, kz):
            return self.data_off(g, add(mul(add(fdiv(lo[0], g.b[1]), kx), g.G[2]), add(fdiv(lo[1], g.b[2]), kz)))
        return [(blocks, off, BLK)]

    def result(self, c, a):
        g = a['self'].geo
        return SArray((sub(a['max_trace'], a['min_trace']), sub(a['max_z'], a['min_z'])),
                      lambda idx: O.Vpad(g, 0, add(a['min_trace'], idx[0]), add(a['min_z'], idx[1])), 'float32')

    def effects(self, c, a, result):
        g = a['self'].geo
        if F(F(a['self'], 'loader'), 'compressed_volume') is not None:
            return
        for counts, off_fn, n in self.window_reads(g, a):
            ks = []
            for cnt in counts:
                k = c.fresh_int('sp_k')
                c.assume_raw(z3.And(k >= 0, k < zint(cnt)))
                c.nonneg_ids.add(k.get_id())
                ks.append(k)
            IO.log_read(c, BM.K_FILE, off_fn(*[SInt(k) for k in ks]), n, extra_loopvars=[(k, cnt) for k, cnt in zip(ks, counts)])

    def post(self, c, a, result):
        if c.mode != 'verify':
            return
        g = a['self'].geo
        shp = (sub(a['max_trace'], a['min_trace']), sub(a['max_z'], a['min_z']))
        check_array(c, result, shp)
        e = O.skolem_index(c, shp)
        c.ensure(result.fn(e) == O.Vpad(g, 0, add(a['min_trace'], e[0]), add(a['min_z'], e[1])), 'elem')
        self.expect_reads(c, g, self.window_reads(g, a))


class ReadSubplanePad(ReadSubplane):
    access_padding = True


register(ReadSubplane, 'read.py::SgzReader.read_subplane', ['C02', 'C07', 'C09', 'C14'], ALL2, modes=('file', 'preload'))
register(ReadSubplanePad, 'read.py::SgzReader.read_subplane', ['C02', 'C09', 'C14'], ALL2, modes=('file',), tag='padded')


class ReadSubplane3d(ReadSubplane):
    two_d = False


register(ReadSubplane3d, 'read.py::SgzReader.read_subplane', ['C14'], CFG_DEFAULT[:2], modes=('file',), tag='3d')


# ---------------------------------------------------------------------------------------------
# traces

class GetTrace(ReadContract):
    """get_trace(index[, min_sample_id, max_sample_id]) on a regular 3-D file"""
    window = 'none'          # none | both | lo | hi
    modular_use = True

    def inputs(self, c):
        g, rd = self.reader(c)
        d = dict(self=rd, _g=g, index=c.sym_int('index', name='index'), min_sample_id=None, max_sample_id=None,
                 override_unstructured_mapping=False)
        if self.window in ('both', 'lo'):
            d['min_sample_id'] = c.sym_int('lo', name='min_sample_id')
        if self.window in ('both', 'hi'):
            d['max_sample_id'] = c.sym_int('hi', name='max_sample_id')
        return d

    def bounds(self, g, a):
        lo = 0 if a.get('min_sample_id') is None else a['min_sample_id']
        hi = g.nZ if a.get('max_sample_id') is None else a['max_sample_id']
        return lo, hi

    def ok(self, g, a):
        lo, hi = self.bounds(g, a)
        ntr = g.nT if g.two_d else mul(g.nI, g.nX)
        return And(in_range(a['index'], 0, ntr), ge(lo, 0), lt(lo, hi), le(hi, g.nZ))

    def raises(self, c, a):
        g = a['self'].geo
        return {'IndexError': Not(self.ok(g, a))}

    def coords(self, g, a):
        if g.two_d:
            return 0, a['index']
        return fdiv(a['index'], g.nX), mod(a['index'], g.nX)

    def result(self, c, a):
        g = a['self'].geo
        lo, hi = self.bounds(g, a)
        il, xl = self.coords(g, a)
        n = sub(hi, lo)
        return SArray((n,), lambda idx: O.Vpad(g, il, xl, add(lo, idx[0])), 'float32')

    def trace_reads(self, g, a):
        lo, hi = self.bounds(g, a)
        il, xl = self.coords(g, a)
        if g.two_d:
            if g.layout == 'default':
                return [([], lambda: self.data_off(g, mul(fdiv(xl, g.b[1]), g.G[2])), mul(BLK, g.G[2]))]
            tb = mul(g.b[1], fdiv(xl, g.b[1]))
            blocks = [1, g.G[2]]
            return [(blocks, lambda kx, kz: self.data_off(g, add(mul(add(fdiv(xl, g.b[1]), kx), g.G[2]), kz)), BLK)]
        blo = [mul(g.b[0], fdiv(il, g.b[0])), mul(g.b[1], fdiv(xl, g.b[1])), mul(g.b[2], fdiv(lo, g.b[2]))]
        bhi = [add(blo[0], g.b[0]), add(blo[1], g.b[1]), mul(g.b[2], fdiv(add(hi, g.b[2] - 1), g.b[2]))]
        return self.box_reads(g, blo, bhi)

    def effects(self, c, a, result):
        g = a['self'].geo
        if F(F(a['self'], 'loader'), 'compressed_volume') is not None:
            return
        for counts, off_fn, n in self.trace_reads(g, a):
            ks = []
            for cnt in counts:
                k = c.fresh_int('gt_k')
                c.assume_raw(z3.And(k >= 0, k < zint(cnt)))
                c.nonneg_ids.add(k.get_id())
                ks.append(k)
            IO.log_read(c, BM.K_FILE, off_fn(*[SInt(k) for k in ks]), n, extra_loopvars=[(k, cnt) for k, cnt in zip(ks, counts)])

    def post(self, c, a, result):
        if c.mode != 'verify':
            return
        g = a['self'].geo
        lo, hi = self.bounds(g, a)
        il, xl = self.coords(g, a)
        if isinstance(result, SArray):
            check_array(c, result, (sub(hi, lo),))
            e = O.skolem_index(c, (sub(hi, lo),))
            c.ensure(result.fn(e) == O.Vpad(g, il, xl, add(lo, e[0])), 'elem')
        else:
            # numpy.squeeze of a length-1 window is a 0-d array holding the one sample
            c.ensure(eq(sub(hi, lo), 1), 'scalar_only_for_length_1')
            c.ensure(mk_bool(isinstance(result, STok)) and result == O.Vpad(g, il, xl, lo), 'elem')
        self.expect_reads(c, g, self.trace_reads(g, a))


for _w in ('none', 'both', 'lo', 'hi'):
    _cls = type('GetTrace_' + _w, (GetTrace,), dict(window=_w))
    register(_cls, 'read.py::SgzReader.get_trace', ['C02', 'C07', 'C14'] + (['C06'] if _w == 'none' else []), ALL3, modes=('file',) if _w != 'none' else ('file', 'preload'), tag='win:' + _w)


class GetTrace2d(GetTrace):
    two_d = True


for _w in ('none', 'both'):
    _cls = type('GetTrace2d_' + _w, (GetTrace2d,), dict(window=_w))
    register(_cls, 'read.py::SgzReader.get_trace', ['C02', 'C07', 'C09', 'C14'], ALL2, modes=('file',), tag='2d+win:' + _w)


# ---------------------------------------------------------------------------------------------
# reads by line NUMBER (C02 / C05 / C14): the ordinal is the position of the number on the file's axis

class ReadByNumber(ReadContract):
    """read_inline_number / read_crossline_number(no): IndexError iff `no` is not a line number of the file; otherwise exactly what the
    ordinal read of the line carrying that number returns (same value, same read log)"""
    axis = 'ilines'
    arg = 'il_no'
    base = None

    def inputs(self, c):
        g, rd = self.reader(c)
        no = c.sym_int('no', name=self.arg)
        a0, d = rd.fields[self.axis].prog
        rel = sub(no, a0)
        k = fdiv(rel, d)
        n = g.nI if self.axis == 'ilines' else g.nX
        on = And(eq(mod(rel, d), 0), ge(k, 0), lt(k, n))
        return {'self': rd, '_g': g, self.arg: no, '_on': on, '_k': k}

    def raises(self, c, a):
        return {'IndexError': Not(a['_on'])}

    def post(self, c, a, result):
        b = dict(a)
        b['il_id' if self.axis == 'ilines' else 'xl_id'] = a['_k']
        self.base.post(self, c, b, result)


for _ax, _arg, _m, _base in (('ilines', 'il_no', 'read_inline_number', ReadInline), ('xlines', 'xl_no', 'read_crossline_number', None)):
    _b = _base or ReadCrossline
    _cls = type('ReadByNumber_' + _m, (ReadByNumber, _b), dict(axis=_ax, arg=_arg, base=_b, inputs=ReadByNumber.inputs, raises=ReadByNumber.raises, post=ReadByNumber.post))
    register(_cls, f'read.py::SgzReader.{_m}', ['C02', 'C05', 'C14'], [CFG_DEFAULT[3], CFG_ZSLICE[0], CFG_GENERAL[5]], modes=('file',))


# ---------------------------------------------------------------------------------------------
# irregular surveys (C08): trace ordinal -> grid position through the population mask

def footer_i32(off):
    from pyvc.npmodel import wrap_int
    return wrap_int(mk_int(BM.U32(z3.IntVal(BM.K_FILE), zint(off))), 32, signed=True)


class GetTraceIrregular(GetTrace):
    """get_trace(i) on an irregular file: the population mask is (stored inline-number array != 0), read ONCE from the footer offset
    of field 189; trace ordinal i maps to the i-th populated grid position p (ascending), and the result is V[p // nX, p % nX, lo:hi].
    With override_unstructured_mapping=True the ordinal is a grid position itself, whatever was read before (C15)."""
    structured = False
    mask_loaded = False
    override = False
    modular_use = False          # never the call-site view of get_trace (that is the regular-file contract)

    def inputs(self, c):
        from pyvc.symex import TaggedInt
        g, rd = self.reader(c)
        foot0 = add(g.data_start, mul(BLK, g.diskblocks))
        stride = F(rd, 'padded_header_entry_length_bytes')
        rd.fields['segy_traceheader_template'] = {189: TaggedInt(foot0, 'FileOffset'), 193: TaggedInt(add(foot0, stride), 'FileOffset')}
        rd.fields['stored_header_keys'] = [189, 193]
        grid = mul(g.nI, g.nX)
        spec_mask = SArray((grid,), lambda idx: ops_cmp('!=', footer_i32(add(foot0, mul(4, idx[0]))), 0), 'bool')
        if self.mask_loaded:
            rd.fields['mask'] = spec_mask          # state invariant: a loaded mask is the population mask of the file
        d = dict(self=rd, _g=g, index=c.sym_int('index', name='index'), min_sample_id=None, max_sample_id=None,
                 override_unstructured_mapping=self.override, _foot0=foot0, _spec_mask=spec_mask)
        if self.window == 'both':
            d['min_sample_id'] = c.sym_int('lo', name='min_sample_id'); d['max_sample_id'] = c.sym_int('hi', name='max_sample_id')
        return d

    def raises(self, c, a):
        return {}

    def may_raise_at(self, c, a):
        # bounds of irregular ordinals follow numpy sequence semantics on the populated list (see DESIGN, C14 scope)
        return ('IndexError',)

    def post(self, c, a, result):
        if c.mode != 'verify':
            return
        g = a['self'].geo
        lo, hi = self.bounds(g, a)
        sels = c.ghost.get('mask_selects', [])
        evs = GH.reads(c)
        if self.override:
            c.ensure(mk_bool(len(sels) == 0), 'override.no_ordinal_mapping')
            p = a['index']
        else:
            c.ensure(mk_bool(len(sels) == 1), 'mapping.one_mask_selection')
            if len(sels) != 1:
                return
            ma, k, p = sels[0]
            j = c.sym_int('mj', lo=0, name='grid_position')
            c.assume(lt(j, mul(g.nI, g.nX)))
            c.ensure(eq(ma.arr.fn((j,)), j) and eq(ma.arr.shape[0], mul(g.nI, g.nX)), 'mapping.selects_among_all_grid_positions')
            c.ensure(Iff(ma.mask.fn((j,)), a['_spec_mask'].fn((j,))), 'mapping.mask_is_stored_inline_number_nonzero')
            c.ensure(Or(eq(k, a['index']), eq(k, add(a['index'], SInt(ma.count)))), 'mapping.selects_the_index_th_populated_position')
        il, xl = fdiv(p, g.nX), mod(p, g.nX)
        if isinstance(result, SArray):
            check_array(c, result, (sub(hi, lo),))
            e = O.skolem_index(c, (sub(hi, lo),))
            c.ensure(result.fn(e) == O.Vpad(g, il, xl, add(lo, e[0])), 'elem')
        else:
            c.ensure(eq(sub(hi, lo), 1), 'scalar_only_for_length_1')
            c.ensure(mk_bool(isinstance(result, STok)) and result == O.Vpad(g, il, xl, lo), 'elem')
        # read log: the mask array once (unless already loaded / overridden), then the blocks of the trace
        data = [ev for ev in evs if not (self.needs_mask_read() and ev is evs[0])]
        if self.needs_mask_read():
            c.ensure(mk_bool(len(evs) >= 1) and And(eq(evs[0].off, a['_foot0']), eq(evs[0].n, F(a['self'], 'header_entry_length_bytes'))), 'reads.mask_is_the_inline_number_array_read_once', kind='ghost')
        c.ensure(mk_bool(a['self'].fields.get('mask') is not None) if not self.override or self.mask_loaded else True, 'state.mask_kept')
        GH_within = self.data_off(g, 0), self.data_off(g, g.diskblocks)
        for jx, ev in enumerate(data):
            c.ensure(And(ge(ev.off, GH_within[0]), le(add(ev.off, ev.n), GH_within[1])), f'reads.data[{jx}].in_data_section', kind='ghost')

    def needs_mask_read(self):
        return not self.override and not self.mask_loaded


for _ml in (False, True):
    for _ov in (False, True):
        for _w in ('none', 'both'):
            if _w == 'both' and (_ml or _ov):
                continue
            _cls = type('GetTraceIrregular', (GetTraceIrregular,), dict(window=_w, mask_loaded=_ml, override=_ov))
            register(_cls, 'read.py::SgzReader.get_trace', ['C08', 'C15', 'C02'], [CFG_DEFAULT[3], CFG_ZSLICE[0]], modes=('file',),
                     tag=f'irregular,win:{_w},mask_loaded:{int(_ml)},override:{int(_ov)}')


class UnstructuredMask(ReadContract):
    """get_unstructured_mask(): mask[j] = (stored inline number of grid position j != 0); one read of the whole array at the offset of
    field 189; a mask already loaded is kept without any read"""
    structured = False
    mask_loaded = False

    def inputs(self, c):
        d = GetTraceIrregular.inputs(self, c)
        return dict(self=d['self'], _g=d['_g'], _foot0=d['_foot0'], _spec_mask=d['_spec_mask'])

    window = 'none'
    override = False

    def post(self, c, a, result):
        g = a['self'].geo
        m = a['self'].fields.get('mask')
        c.ensure(mk_bool(isinstance(m, SArray) and m.dtype == 'bool') and eq(m.shape[0], mul(g.nI, g.nX)), 'mask.one_flag_per_grid_position')
        j = c.sym_int('mj', lo=0, name='grid_position')
        c.assume(lt(j, mul(g.nI, g.nX)))
        c.ensure(Iff(m.fn((j,)), a['_spec_mask'].fn((j,))), 'mask.is_stored_inline_number_nonzero')
        evs = GH.reads(c)
        if self.mask_loaded:
            c.ensure(mk_bool(len(evs) == 0), 'reads.none_when_loaded', kind='ghost')
        else:
            c.ensure(mk_bool(len(evs) == 1) and And(eq(evs[0].off, a['_foot0']), eq(evs[0].n, F(a['self'], 'header_entry_length_bytes'))), 'reads.the_inline_number_array_once', kind='ghost')


for _ml in (False, True):
    register(type('UnstructuredMask', (UnstructuredMask,), dict(mask_loaded=_ml)), 'read.py::SgzReader.get_unstructured_mask', ['C08', 'C07', 'C15'], [CFG_DEFAULT[3]], modes=('file',), tag=f'mask_loaded:{int(_ml)}')


# ---------------------------------------------------------------------------------------------
# diagonals (built from traces)

class Diagonal(ReadContract):
    """read_(anti)correlated_diagonal(id[, min_idx, max_idx][, min_sample_idx, max_sample_idx])"""
    anti = False
    sub = False          # trace sub-range given
    win = False          # sample window given
    loops = {1: L.IndependentWrites(witness=lambda idx, env: idx[0]), 2: L.IndependentWrites(witness=lambda idx, env: idx[0])}

    def names(self):
        p = 'ad' if self.anti else 'cd'
        return p + '_id', 'min_' + p + '_idx', 'max_' + p + '_idx'

    def inputs(self, c):
        g, rd = self.reader(c)
        idn, mn, mx = self.names()
        d = dict(self=rd, _g=g)
        d[idn] = c.sym_int('diag', name=idn)
        d[mn] = c.sym_int('dlo', name=mn) if self.sub else None
        d[mx] = c.sym_int('dhi', name=mx) if self.sub else None
        d['min_sample_idx'] = c.sym_int('lo', name='min_sample_idx') if self.win else None
        d['max_sample_idx'] = c.sym_int('hi', name='max_sample_idx') if self.win else None
        return d

    def full_len(self, g, a):
        idn = self.names()[0]
        return S.anti_diag_len(a[idn], g.nI, g.nX) if self.anti else S.corr_diag_len(a[idn], g.nI, g.nX)

    def id_ok(self, g, a):
        idn = self.names()[0]
        if self.anti:
            return in_range(a[idn], 0, sub(add(g.nI, g.nX), 1))
        return And(gt(a[idn], sub(0, g.nX)), lt(a[idn], g.nI))

    def ok(self, g, a):
        idn, mn, mx = self.names()
        conds = [self.id_ok(g, a)]
        if self.sub:
            conds += [ge(a[mn], 0), lt(a[mn], a[mx]), le(a[mx], self.full_len(g, a))]
        if self.win:
            conds += [ge(a['min_sample_idx'], 0), lt(a['min_sample_idx'], a['max_sample_idx']), le(a['max_sample_idx'], g.nZ)]
        return And(*conds)

    def raises(self, c, a):
        g = a['self'].geo
        if g.two_d:
            return {WDE: True}
        return {'IndexError': Not(self.ok(g, a))}

    def coord(self, g, a, t):
        """(inline, crossline) ordinals of the t-th trace of the full diagonal (spec: from the definition of the diagonals)"""
        idn = self.names()[0]
        d = a[idn]
        if self.anti:
            # points (i, x) with i + x = d, listed by increasing inline
            i0 = Max(0, sub(d, sub(g.nX, 1)))
            return add(i0, t), sub(d, add(i0, t))
        # points with i - x = d, listed by increasing crossline
        x0 = Max(0, sub(0, d))
        return add(add(x0, t), d), add(x0, t)

    def post(self, c, a, result):
        g = a['self'].geo
        idn, mn, mx = self.names()
        t0 = a[mn] if self.sub else 0
        n = sub(a[mx], a[mn]) if self.sub else self.full_len(g, a)
        lo = a['min_sample_idx'] if self.win else 0
        m = sub(a['max_sample_idx'], a['min_sample_idx']) if self.win else g.nZ
        check_array(c, result, (n, m))
        e = O.skolem_index(c, (n, m))
        il, xl = self.coord(g, a, add(t0, e[0]))
        c.ensure(And(in_range(il, 0, g.nI), in_range(xl, 0, g.nX)), 'spec_coordinate_in_cube')
        c.ensure(result.fn(e) == O.Vpad(g, il, xl, add(lo, e[1])), 'elem')


for _anti in (False, True):
    for _sub in (False, True):
        for _win in (False, True):
            _cls = type(f'Diag_{int(_anti)}{int(_sub)}{int(_win)}', (Diagonal,), dict(anti=_anti, sub=_sub, win=_win))
            register(_cls, 'read.py::SgzReader.read_' + ('anticorrelated' if _anti else 'correlated') + '_diagonal', ['C02', 'C14'],
                     [CFG_DEFAULT[3], CFG_ZSLICE[0], CFG_NOT_DEFAULT_NOT_Z[0]], modes=('file',), tag=f'sub{int(_sub)}win{int(_win)}')


# ---------------------------------------------------------------------------------------------
# C17 / C18 variants of the read methods (backend may fail on any range read)
from .c_loader import FAULT_PROPS      # noqa: E402
_FC = [CFG_DEFAULT[3], CFG_ZSLICE[0], CFG_NOT_DEFAULT_NOT_Z[0]]
register(ReadSubvolume, 'read.py::SgzReader.read_subvolume', FAULT_PROPS, _FC, modes=('fault',))
register(ReadVolume, 'read.py::SgzReader.read_volume', FAULT_PROPS, _FC, modes=('fault',))
register(ReadInline, 'read.py::SgzReader.read_inline', FAULT_PROPS, _FC, modes=('fault',))
register(ReadCrossline, 'read.py::SgzReader.read_crossline', FAULT_PROPS, _FC, modes=('fault',))
register(ReadZslice, 'read.py::SgzReader.read_zslice', FAULT_PROPS, _FC, modes=('fault',))
register(ReadSubplane, 'read.py::SgzReader.read_subplane', FAULT_PROPS, [ALL2[0], CFG_2D_GENERAL[0]], modes=('fault',))
for _w in ('none', 'both'):
    register(type('GetTraceF_' + _w, (GetTrace,), dict(window=_w)), 'read.py::SgzReader.get_trace', FAULT_PROPS, _FC, modes=('fault',), tag='win:' + _w)
    register(type('GetTrace2dF_' + _w, (GetTrace2d,), dict(window=_w)), 'read.py::SgzReader.get_trace', FAULT_PROPS, [ALL2[0], CFG_2D_GENERAL[0]], modes=('fault',), tag='2d+win:' + _w)
for _anti in (False, True):
    register(type(f'DiagF_{int(_anti)}', (Diagonal,), dict(anti=_anti, sub=False, win=False)),
             'read.py::SgzReader.read_' + ('anticorrelated' if _anti else 'correlated') + '_diagonal', FAULT_PROPS, [CFG_DEFAULT[3]], modes=('fault',), tag='sub0win0')


# ---------------------------------------------------------------------------------------------
# subvolume[il_a:il_b:il_c, xl_a:xl_b:xl_c, :]  (C02 / C13 / C14): line NUMBER slices with steps on ascending and descending axes

class SubvolumeGetitem(ReadContract):
    """SubvolumeAccessor.__getitem__ with inline / crossline subscripts by line number (start, stop, step all given) and the whole sample
    axis, on ascending and descending axes, steps positive multiples of the axis increment (so negative on a descending axis: grammar of C13):
    IndexError iff a start is not a line number, a stop is neither a line number nor one increment past the last, or a range is empty;
    otherwise the decoded volume at inlines start, start+step, ... (< stop), crosslines likewise, every sample"""
    cls_name = 'SubvolumeAccessor'
    given = True
    incs = (1, 1)

    def inputs(self, c):
        g, rd = self.reader(c)
        rd.fields['zslices_int'] = SArray((g.nZ,), lambda idx: idx[0], 'int32')
        rd.fields['axes_message'] = '<axes>'
        subs = []
        info = []
        for (ax, n), dconc in zip((('ilines', g.nI), ('xlines', g.nX)), self.incs):
            a0, d0 = rd.fields[ax].prog
            # the axis increment is a concrete non-zero constant per variant (keeps the line-number arithmetic linear); origin, counts,
            # subscripts and step multiples stay symbolic
            c.assume(eq(d0, dconc))
            d = dconc
            rd.fields[ax] = SArray((n,), (lambda a0_, d_: (lambda idx: add(a0_, mul(idx[0], d_))))(a0, d), 'int32')
            rd.fields[ax].prog = (a0, d)
            if self.given:
                st = c.sym_int(ax + '_start', name=f'{ax}.start'); sp = c.sym_int(ax + '_stop', name=f'{ax}.stop')
                m = c.sym_int(ax + '_m', lo=1, name=f'{ax}.step / increment')
                subs.append(SSlice(st, sp, mul(m, d)))
                info.append((a0, d, n, st, sp, m))
            else:
                subs.append(SSlice(None, None, None))
                info.append((a0, d, n, None, None, 1))
        subs.append(SSlice(None, None, None))
        return dict(self=rd, _g=g, subscripts=tuple(subs), _info=info)

    def idx(self, a0, d, v):
        # position of line number v on the axis a0 + k*d; d is a concrete non-zero constant, negative on a descending axis
        return fdiv(sub(v, a0), d) if d > 0 else fdiv(sub(a0, v), -d)

    def valid(self, a):
        conds = []
        for (a0, d, n, st, sp, m) in a['_info']:
            if st is None:
                continue
            on_st = And(eq(mod(sub(st, a0), abs(d)), 0), ge(self.idx(a0, d, st), 0), lt(self.idx(a0, d, st), n))
            on_sp = And(eq(mod(sub(sp, a0), abs(d)), 0), ge(self.idx(a0, d, sp), 0), le(self.idx(a0, d, sp), n))
            conds += [on_st, on_sp, lt(self.idx(a0, d, st), self.idx(a0, d, sp))]
        return And(*conds) if conds else True

    def raises(self, c, a):
        return {'IndexError': Not(self.valid(a))}

    def post(self, c, a, result):
        g = a['self'].geo
        lo, hi, ms = [], [], []
        for (a0, d, n, st, sp, m) in a['_info']:
            lo.append(0 if st is None else self.idx(a0, d, st))
            hi.append(n if sp is None else self.idx(a0, d, sp))
            ms.append(m)
        c.ensure(mk_bool(isinstance(result, SArray) and len(result.shape) == 3), 'is_3d_array')
        if not isinstance(result, SArray):
            return
        for k in range(2):
            c.ensure(eq(result.shape[k], S.ceil_div(sub(hi[k], lo[k]), ms[k])), f'shape[{k}].one_entry_per_selected_line')
        c.ensure(eq(result.shape[2], g.nZ), 'shape[2].all_samples')
        e = O.skolem_index(c, result.shape)
        c.ensure(result.fn(e) == O.Vpad(g, add(lo[0], mul(e[0], ms[0])), add(lo[1], mul(e[1], ms[1])), e[2]), 'elem')


for _gv, _incs in ((True, (1, 1)), (True, (2, 3)), (False, (2, 3)), (True, (-2, -3)), (True, (3, -1)), (False, (-1, -2))):
    register(type('SubvolumeGetitem', (SubvolumeGetitem,), dict(given=_gv, incs=_incs)), 'accessors.py::SubvolumeAccessor.__getitem__', ['C02', 'C13', 'C14'], [CFG_DEFAULT[3], CFG_ZSLICE[0]], modes=('file',),
             tag=('slices given' if _gv else 'all default') + f',increments {_incs[0]}/{_incs[1]}')


# ---------------------------------------------------------------------------------------------
# reads by sample TIME / DEPTH (C02 / C14): the coordinate is looked up on the sample axis (exact reals, S3a)

from pyvc.values import mk_float, zreal      # noqa: E402


def _on_axis_coord(rd, k, half=False):
    """the sample-axis value of (possibly half-integer) position k:  z0 + k*dz"""
    z0, dz = rd.fields['zslices'].prog
    kk = z3.ToReal(zint(k)) + (z3.RealVal('1/2') if half else 0)
    return mk_float(zreal(z0) + kk * zreal(dz))


class GetTraceByCoord(GetTrace):
    """get_trace_by_coord(i, t_min, t_max) with t_min = axis[ka], t_max = axis[kb] (kb = n allowed: one interval past the end):
    IndexError iff not (trace in range and 0 <= ka < kb <= n); otherwise the samples ka .. kb-1 of trace i.  Times between two samples: IndexError"""
    off_axis = False
    modular_use = False

    def inputs(self, c):
        g, rd = self.reader(c)
        ka = c.sym_int('ka', name='min_sample_position'); kb = c.sym_int('kb', name='max_sample_position')
        d = dict(self=rd, _g=g, index=c.sym_int('index', name='index'), min_sample_no=_on_axis_coord(rd, ka, half=self.off_axis), max_sample_no=_on_axis_coord(rd, kb), _ka=ka, _kb=kb)
        return d

    def bounds(self, g, a):
        return a['_ka'], a['_kb']

    def raises(self, c, a):
        g = a['self'].geo
        if self.off_axis:
            return {'IndexError': True}
        return {'IndexError': Not(self.ok(g, a))}

    def post(self, c, a, result):
        b = dict(a)
        b['min_sample_id'], b['max_sample_id'] = a['_ka'], a['_kb']
        GetTrace.post(self, c, b, result)


for _off in (False, True):
    register(type('GetTraceByCoord', (GetTraceByCoord,), dict(off_axis=_off)), 'read.py::SgzReader.get_trace_by_coord', ['C02', 'C14'], [CFG_DEFAULT[3], CFG_ZSLICE[0]], modes=('file',),
             tag='between samples' if _off else 'on the axis')


class ReadZsliceCoord(ReadZslice):
    """read_zslice_coord(t) with t = axis[k]: exactly read_zslice(k); IndexError iff k is not a sample position (or t lies between samples)"""
    off_axis = False

    def inputs(self, c):
        g, rd = self.reader(c)
        k = c.sym_int('k', name='sample_position')
        return dict(self=rd, _g=g, zslice_no=_on_axis_coord(rd, k, half=self.off_axis), _k=k)

    def raises(self, c, a):
        g = a['self'].geo
        if self.off_axis:
            return {'IndexError': True}
        return {'IndexError': Not(in_range(a['_k'], 0, g.nZ))}

    def post(self, c, a, result):
        b = dict(a)
        b['zslice_id'] = a['_k']
        ReadZslice.post(self, c, b, result)


for _off in (False, True):
    register(type('ReadZsliceCoord', (ReadZsliceCoord,), dict(off_axis=_off)), 'read.py::SgzReader.read_zslice_coord', ['C02', 'C14'], [CFG_DEFAULT[3], CFG_ZSLICE[0]], modes=('file',),
             tag='between samples' if _off else 'on the axis')


# ---------------------------------------------------------------------------------------------
# xarray backend (C02): basic numpy-style keys on the lazily indexed array

class XarrayRawIndexing(ReadContract):
    """SeismicZfpBackendArray._raw_indexing_method(key) for basic keys (what xarray hands over with IndexingSupport.BASIC): an int drops its
    axis (negative ints count from the end), a slice selects start, start+step, ... as numpy does.  Result = the decoded volume under
    exactly that numpy key; IndexError for an int outside the axis.  Variants: which axes get an int / a bounded slice / a stepped slice."""
    kinds = ('int', 'full', 'full')

    def inputs(self, c):
        g, rd = self.reader(c)
        arr = SObj(c.ex.prog.klass('SeismicZfpBackendArray'), dict(shape=(g.nI, g.nX, g.nZ), dtype='float32', sgz_reader=rd))
        key, spec = [], []
        for ax, (kind, n) in enumerate(zip(self.kinds, (g.nI, g.nX, g.nZ))):
            if kind == 'int':
                i = c.sym_int(f'k{ax}', name=f'key[{ax}]')
                key.append(i)
                spec.append(('int', i, n))
            elif kind == 'full':
                key.append(SSlice(None, None, None))
                spec.append(('slice', 0, n, 1, n))
            elif kind == 'range':
                a_ = c.sym_int(f'a{ax}', lo=0, name=f'key[{ax}].start'); b_ = c.sym_int(f'b{ax}', lo=0, name=f'key[{ax}].stop')
                c.assume(lt(a_, b_), le(b_, n))
                key.append(SSlice(a_, b_, None))
                spec.append(('slice', a_, b_, 1, n))
            else:      # ('step', s): whole axis with a positive step
                s_ = kind[1]
                key.append(SSlice(None, None, s_))
                spec.append(('slice', 0, n, s_, n))
        return dict(self=arr, key=tuple(key), _g=g, _spec=spec)

    def raises(self, c, a):
        conds = []
        for sp in a['_spec']:
            if sp[0] == 'int':
                conds.append(Not(And(ge(sp[1], sub(0, sp[2])), lt(sp[1], sp[2]))))
        return {'IndexError': Or(*conds) if conds else False}

    def post(self, c, a, result):
        g = a['_g']
        shape, maps = [], []
        for sp in a['_spec']:
            if sp[0] == 'int':
                i, n = sp[1], sp[2]
                maps.append(('int', Ite(lt(i, 0), add(i, n), i)))
            else:
                _, lo, hi, st, n = sp
                shape.append(S.ceil_div(sub(hi, lo), st))
                maps.append(('slice', lo, st))
        if not shape:
            c.ensure(mk_bool(isinstance(result, STok)), 'scalar_for_three_ints')
            coords = [m[1] for m in maps]
            c.ensure(result == O.Vpad(g, *coords), 'elem')
            return
        c.ensure(mk_bool(isinstance(result, SArray) and len(result.shape) == len(shape)), 'one_axis_per_slice_in_the_key')
        if not (isinstance(result, SArray) and len(result.shape) == len(shape)):
            return
        for k, d in enumerate(shape):
            c.ensure(eq(result.shape[k], d), f'shape[{k}]')
        e = O.skolem_index(c, result.shape)
        coords, j = [], 0
        for m in maps:
            if m[0] == 'int':
                coords.append(m[1])
            else:
                coords.append(add(m[1], mul(e[j], m[2])))
                j += 1
        c.ensure(result.fn(e) == O.Vpad(g, *coords), 'elem')


for _kinds in (('int', 'full', 'full'), ('full', 'int', 'range'), ('range', 'range', 'range'), (('step', 2), 'full', ('step', 3)), ('int', 'int', 'int')):
    _tag = ','.join(k if isinstance(k, str) else f'step{k[1]}' for k in _kinds)
    register(type('XarrayRawIndexing', (XarrayRawIndexing,), dict(kinds=_kinds)), 'sgz_xarray.py::SeismicZfpBackendArray._raw_indexing_method', ['C02', 'C14'], [CFG_DEFAULT[3]], modes=('file',), tag='key:' + _tag)
