"""Symbolic reader / loader objects satisfying the object invariant wf (DESIGN section 5, C15).

`mk_reader` builds an SgzReader whose fields are exactly what `SgzReader.__init__` establishes from a
conforming file (that `__init__` does establish them is itself an obligation: contracts/c_read_init.py).
All contracts on read-path methods take their `self` from here, so the facts they may rely on are
stated once.

Configuration handling: `cfg=None` keeps rate and blockshape symbolic (unit bytes ub in {2..256},
b_k = 4*a_k, ub*a0*a1*a2 = 4096); `cfg=(rate, (b0,b1,b2))` fixes them (exhaustive case split over the
344 valid 3-D / 57 valid 2-D settings is done by the callers that need it).
"""
import z3
from fractions import Fraction

from pyvc.values import (SObj, SInt, SFloat, And, Or, Not, Implies, Ite, Min, Max, ops_binop, ops_cmp, mk_int,
                         mk_bool, mk_float, zint, zbool, zreal, is_sym)
from pyvc import bytesmodel as BM
from pyvc import models_io as IO
from pyvc.npmodel import SArray
from . import spec as S

UBS3 = [2, 4, 8, 16, 32, 64, 128, 256]          # 64*rate/8 for rate in 1/4..32
UBS2 = [2, 4, 8, 16, 32, 64]                    # 16*rate/8 for rate in 1..32


def _factorisations(n, k):
    """all k-tuples of powers of two with product n"""
    if k == 0:
        return [()] if n == 1 else []
    out = []
    f = 1
    while f <= n:
        if n % f == 0:
            for rest in _factorisations(n // f, k - 1):
                out.append((f,) + rest)
        f *= 2
    return out


class Geo:
    """plain record of the symbolic file geometry (all pyvc values)"""
    pass


def mk_geo(c, layout='default', two_d=False, cfg=None, min_dim=1):
    g = Geo()
    g.two_d = two_d
    g.layout = layout
    if two_d:
        g.nT = c.sym_int('nT', lo=min_dim, name='n_traces')
        g.nZ = c.sym_int('nZ', lo=min_dim, name='n_samples')
        g.n = (1, g.nT, g.nZ)
    else:
        g.nI = c.sym_int('nI', lo=min_dim, name='n_ilines')
        g.nX = c.sym_int('nX', lo=min_dim, name='n_xlines')
        g.nZ = c.sym_int('nZ', lo=min_dim, name='n_samples')
        g.n = (g.nI, g.nX, g.nZ)
    nd = 2 if two_d else 3
    if cfg is not None:
        rate, b = cfg
        g.rate = rate
        g.b = tuple(b)
        g.ub = S.unit_bytes(rate, nd)
        g.a = tuple(max(x // 4, 1) for x in b)
    else:
        ub = c.sym_int('ub', name='unit_bytes')
        c.assume(Or(*[ops_cmp('==', ub, u) for u in (UBS2 if two_d else UBS3)]))
        g.ub = ub
        # rate = ub * 8 / 4^d  (dyadic: exact as a real).  The reader holds an int for rates >= 1 and a float
        # (1 / -code) below 1 -- the Python type matters (float slice bounds raise TypeError), so fork on it.
        per = (4 ** nd) // 8
        if c.decide(zbool(ops_cmp('>=', ub, per))):
            g.rate = ops_binop('//', ub, per)
            c.assume(ops_cmp('==', ops_binop('*', g.rate, per), ub))
        else:
            g.rate = mk_float(zreal(ub) / per)
        a = [None, None, None]
        if two_d:
            a[0] = 1
            lay = layout
            a[1] = 1 if lay == 'default' else c.sym_int('a1', lo=1, name='blockshape[1]/4')
            a[2] = c.sym_int('a2', lo=1, name='blockshape[2]/4')
        elif layout == 'default':
            a[0], a[1] = 1, 1
            a[2] = c.sym_int('a2', lo=1, name='blockshape[2]/4')
        elif layout == 'zslice':
            a[0] = c.sym_int('a0', lo=1, name='blockshape[0]/4')
            a[1] = c.sym_int('a1', lo=1, name='blockshape[1]/4')
            a[2] = 1
        else:
            a[0] = c.sym_int('a0', lo=1, name='blockshape[0]/4')
            a[1] = c.sym_int('a1', lo=1, name='blockshape[1]/4')
            a[2] = c.sym_int('a2', lo=1, name='blockshape[2]/4')
        g.a = tuple(a)
        prod = ops_binop('*', ops_binop('*', ops_binop('*', ub, a[0]), a[1]), a[2])
        c.assume(ops_cmp('==', prod, S.BLK))
        # the same fact as an explicit finite case list (lets the solver split into linear cases)
        sym = [x for x in a if is_sym(x)]
        cases = []
        for u in (UBS2 if two_d else UBS3):
            rest = S.BLK // u
            for combo in _factorisations(rest, len(sym)):
                cases.append(And(ops_cmp('==', ub, u), *[ops_cmp('==', v, f) for v, f in zip(sym, combo)]))
        c.assume(Or(*cases))
        g.b = tuple(ops_binop('*', 4, x) for x in a)
        if two_d:
            g.b = (1, g.b[1], g.b[2])
    # padded extent as multiples of the block: P_k = b_k * G_k, G_k = ceil(n_k / b_k)
    G = []
    P = []
    for k in range(3):
        if two_d and k == 0:
            G.append(1)
            P.append(1)
            continue
        Gk = c.sym_int(f'G{k}', lo=1, name=f'blocks_axis{k}')
        Pk = ops_binop('*', g.b[k], Gk)
        # Gk = ceil(n_k / b_k):   b_k*(G_k-1) < n_k <= b_k*G_k
        c.assume(ops_cmp('<=', g.n[k], Pk), ops_cmp('<', ops_binop('-', Pk, g.b[k]), g.n[k]))
        G.append(Gk)
        P.append(Pk)
    g.G = tuple(G)
    g.P = tuple(P)
    g.U = tuple(ops_binop('*', g.a[k], g.G[k]) for k in range(3))      # cells per axis (2-D: U0 = 1)
    g.data_start = 2 * S.BLK if cfg is None else 2 * S.BLK
    g.nblocks_hdr = 2
    g.diskblocks = ops_binop('*', ops_binop('*', g.G[0], g.G[1]), g.G[2])
    return g


def spec_off(g, iu, xu, zu):
    if g.two_d:
        return S.spec_off2(xu, zu, g.G, g.a, g.ub)
    return S.spec_off3(iu, xu, zu, g.G, g.a, g.ub)


def new_input_file(c, kind=BM.K_FILE, local=True, prog=None):
    f = IO.new_file(kind=kind, mode='rb', name='<sgz>')
    f.fields['read_range'] = prog.function('utils.py::read_range_file' if local else 'utils.py::read_range_blob')
    return f


def mk_loader(c, prog, g, preload=False, local=True, file=None):
    cls = prog.klass('SgzLoader2d' if g.two_d else 'SgzLoader3d')
    f = file or new_input_file(c, local=local, prog=prog)
    chunk_bytes = ops_binop('*', S.BLK, g.G[2])
    fields = dict(file=f, local=local, data_start_bytes=g.data_start, compressed_data_diskblocks=g.diskblocks,
                  shape_pad=g.P, blockshape=g.b, block_dims=g.G, chunk_bytes=chunk_bytes, block_bytes=S.BLK,
                  unit_bytes=g.ub, rate=g.rate, n_workers=1 if local else 20, compressed_volume=None,
                  mem_limit=c.sym_int('mem', lo=1))
    if preload:
        fields['compressed_volume'] = BM.file_bytes(BM.K_FILE, g.data_start, ops_binop('*', g.diskblocks, S.BLK))
    o = SObj(cls, fields)
    o.frozen = set(fields)
    o.geo = g                      # ghost: the abstract geometry this object was built from
    return o


def Vpad(g, i, x, z, kind=BM.K_FILE):
    """the decoded sample at padded coordinates (i,x,z): cell at data_start + spec_off, element (i%4, x%4, z%4)"""
    from pyvc.models_np import VU3, VU2
    from pyvc.values import STok
    if g.two_d:
        off = ops_binop('+', g.data_start, spec_off(g, 0, ops_binop('//', x, 4), ops_binop('//', z, 4)))
        return STok(VU2(z3.IntVal(kind), zint(off), zint(ops_binop('%', x, 4)), zint(ops_binop('%', z, 4))))
    off = ops_binop('+', g.data_start, spec_off(g, ops_binop('//', i, 4), ops_binop('//', x, 4), ops_binop('//', z, 4)))
    return STok(VU3(z3.IntVal(kind), zint(off), zint(ops_binop('%', i, 4)), zint(ops_binop('%', x, 4)),
                    zint(ops_binop('%', z, 4))))


def skolem_index(c, shape, base='e'):
    """fresh index tuple inside `shape` (assumed in range)"""
    idx = []
    for k, d in enumerate(shape):
        i = c.sym_int(f'{base}{k}', lo=0, name=f'elem_index[{k}]')
        c.assume(ops_cmp('<', i, d))
        idx.append(i)
    return tuple(idx)


# ---------------------------------------------------------------------------------------------
# reader objects

def axis_array(c, name, n, width='int32'):
    """a regular axis: start + k*step, step != 0  (what _parse_coordinates builds from a conforming header)"""
    start = c.sym_int(name + '0', name=name + '[0]')
    step = c.sym_int(name + '_step', name=name + '_step')
    c.assume(ops_cmp('!=', step, 0))
    arr = SArray((n,), lambda idx: ops_binop('+', start, ops_binop('*', idx[0], step)), width)
    arr.prog = (start, step)
    return arr


def mk_reader(c, prog, g, cls_name='SgzReader', preload=False, local=True, structured=True, loader=None):
    """SgzReader (or subclass) in the state __init__ leaves it in for a conforming file of geometry g"""
    cls = prog.klass(cls_name)
    f = new_input_file(c, local=local, prog=prog)
    ld = loader or mk_loader(c, prog, g, preload=preload, local=local, file=f)
    chunk_bytes = ops_binop('*', S.BLK, g.G[2])
    if g.two_d:
        nI, nX, nZ = 0, 0, g.nZ
        tracecount = g.nT
    else:
        nI, nX, nZ = g.nI, g.nX, g.nZ
        if structured:
            tracecount = ops_binop('*', nI, nX)
        else:
            tracecount = c.sym_int('tracecount', lo=1, name='tracecount')
            c.assume(ops_cmp('<', tracecount, ops_binop('*', nI, nX)))
    fields = dict(_filename='<sgz>', file=f, local=local, n_header_blocks=2, n_samples=nZ, n_xlines=nX, n_ilines=nI,
                  rate=g.rate, blockshape=g.b, is_2d=g.two_d, is_3d=not g.two_d,
                  compressed_data_diskblocks=g.diskblocks, data_start_bytes=g.data_start, tracecount=tracecount,
                  shape_pad=g.P, unit_bytes=g.ub, block_bytes=S.BLK, chunk_bytes=chunk_bytes,
                  variant_headers={}, include_padding=None, range_error='<fmt>', loader=ld,
                  structured=(structured and not g.two_d), mask=None)
    alen = ops_binop('*', 4, g.nT if g.two_d else ops_binop('*', nI, nX))
    fields['header_entry_length_bytes'] = alen
    fields['padded_header_entry_length_bytes'] = ops_binop('*', 512, S.ceil_div(alen, 512))
    fields['zslices'] = axis_float(c, 'zslices', nZ)
    if not g.two_d:
        fields['ilines'] = axis_array(c, 'ilines', nI)
        fields['xlines'] = axis_array(c, 'xlines', nX)
    fields['segy_traceheader_template'] = {}
    fields['stored_header_keys'] = []
    vcls = prog.klass('SeismicZfpVersion')
    vM = c.sym_int('fvM', lo=0, hi=2047, name='file_version.major')
    vm = c.sym_int('fvm', lo=0, hi=1023, name='file_version.minor')
    vp = c.sym_int('fvp', lo=0, hi=1023, name='file_version.patch')
    vdev = c.sym_bool('fvdev', name='file_version.dev')
    fields['file_version'] = SObj(vcls, dict(major=vM, minor=vm, patch=vp, changes_exist=vdev, encoding=S.enc_version(vM, vm, vp, vdev)))
    o = SObj(cls, fields)
    o.geo = g
    o.ver = (vM, vm, vp, vdev)
    from pyvc.symex import BoundMethod
    o.fields['_read_containing_chunk_cached'] = BoundMethod(o, cls.find_method('_read_containing_chunk'))
    o.frozen = set(fields) - {'variant_headers', 'include_padding', 'mask'}
    return o


def axis_float(c, name, n):
    """sample axis: z0 + k*dz as exact reals (S3a), dz > 0"""
    z0 = c.sym_float(name + '0', name=name + '[0]')
    dz = c.sym_float(name + '_step', name=name + '_step')
    c.assume(ops_cmp('>', dz, 0))
    # whole-millisecond start within the 16-bit delay range, interval below 65.536 ms (SEG-Y limits of the properties)
    c.assume(ops_cmp('>=', z0, -32768), ops_cmp('<=', z0, 32767), ops_cmp('<', dz, 66))
    arr = SArray((n,), lambda idx: ops_binop('+', z0, ops_binop('*', idx[0], dz)), 'float64')
    arr.prog = (z0, dz)
    return arr


def V_real(g, i, x, z):
    """sample of the decoded volume at real coordinates (same term as Vpad: the real extent is a sub-box)"""
    return Vpad(g, i, x, z)


def bounded_i32(c, v):
    """value of an int32 array element: assume its range (array dtype invariant)"""
    c.assume(ops_cmp('>=', v, -2 ** 31), ops_cmp('<', v, 2 ** 31))
    return v
