"""Data-flow contracts on the glue between the functions under contract (closes the 'read, not verified' gaps of C01/C03/C04/C11/C18/C20):
SeismicFileConverter.run, NumpyConverter.run, run_conversion_loop, write_hash.  Threads and queues are modelled only as far as
arguments flow through them (their scheduling is C16's subject): Thread(target, args) records, start() does not run the target."""
import z3

from pyvc.contract import fuc, Contract
from pyvc.values import (And, Or, Not, Implies, Iff, ops_binop, ops_cmp, mk_bool, mk_int, zint, zbool, SInt, SObj, STok, is_sym, Unsupported, cur)
from pyvc.npmodel import SArray
from pyvc import bytesmodel as BM
from pyvc import models_io as IO
from . import models_ext as MX
from .c_loader import add, sub, mul, eq, le, lt, ge, gt, BLK

CU = 'conversion_utils.py::'
CV = 'conversion.py::'


def register_glue_models(lib):
    E, M = lib.ext, lib.methods

    def mk_queue(I, maxsize=0):
        q = SObj(None, clsname='$queue')
        q.fields['maxsize'] = maxsize
        cur().ghost.setdefault('queues', []).append(q)
        return q
    E['queue.Queue'] = mk_queue
    M[('$queue', 'join')] = lambda I, q: cur().ghost.setdefault('joins', []).append(q)

    def mk_thread(I, target=None, args=(), kwargs=None, **kw):
        t = SObj(None, clsname='$thread')
        t.fields.update(target=target, args=tuple(args), started=False)
        cur().ghost.setdefault('threads', []).append(t)
        return t
    E['threading.Thread'] = mk_thread
    M[('$thread', 'start')] = lambda I, t: t.fields.__setitem__('started', True)


MX.EXTRA_REGISTRARS.append(register_glue_models)


class _Rec(Contract):
    """call-site view that records the call (order + arguments) in ghost['glue_calls']"""
    modular_use = True
    exact_result = True
    variant = 'call-site view'
    tag = '?'
    only_in = ()

    def verify(self, interp, prog, timeout_ms=None):
        from pyvc.smt import Explorer
        ex = Explorer(self.fuc_name()); ex.contract = self; ex.prog = prog
        ex.note_outcome('call-site view (the function has its own contract)')
        return ex, prog.function(self.key)

    def value(self, c, a):
        return None

    def fresh_result(self, c, a):
        r = self.value(c, a)
        c.ghost.setdefault('glue_calls', []).append((self.tag, a, r))
        return r


def rec(key, tag, only_in, value=None):
    cls = type('Rec_' + tag, (_Rec,), dict(tag=tag, only_in=tuple(only_in)))
    if value is not None:
        cls.value = lambda self, c, a: value(c, a)
    fuc(key, props=[], modular=True)(cls)


RUN = ('SeismicFileConverter.run', 'NumpyConverter.run')
rec(CU + 'run_conversion_loop', 'run_conversion_loop', RUN, lambda c, a: BM.junk_bytes(20, 'digest'))
rec(CV + 'SeismicFileConverter.write_headers', 'write_headers', ('SeismicFileConverter.run',))
rec(CV + 'SeismicFileConverter.write_hash', 'write_hash', ('SeismicFileConverter.run',))
rec(CV + 'SeismicFileConverter.get_blank_header_info', 'get_blank_header_info', ('SeismicFileConverter.run',), lambda c, a: SObj(c.ex.prog.klass('HeaderwordInfo'), dict(headers_dict={}, table={}, header_detection=a['header_detection'])))
rec(CV + 'SeismicFileConverter.check_memory', 'check_memory', ('SeismicFileConverter.run',), lambda c, a: c.sym_int('queue_len', lo=1, hi=16, name='max_queue_length'))
RCL = ('run_conversion_loop',)
rec(CU + 'make_header_seismic_file', 'make_header_seismic_file', RCL, lambda c, a: BM.SByteArray(BM.junk_bytes(2 * BLK, 'header')))
rec(CU + 'seismic_file_producer', 'seismic_file_producer', RCL)
rec(CU + 'seismic_file_producer_2d', 'seismic_file_producer_2d', RCL)


class ConverterRun(Contract):
    """SeismicFileConverter.run: settings validated first (define_blockshape_3d: C19), one header_info for the detection mode, then in this
    order: run_conversion_loop (header + data), write_headers (patches + footer), write_hash; all on the one output handle opened 'wb';
    store_headers is off exactly for 'strip'"""
    detection = 'heuristic'
    may_raise = ()

    def inputs(self, c):
        from .c_producers import window_geometry
        prog = c.ex.prog
        nI = c.sym_int('nI', lo=2, name='source.n_ilines'); nX = c.sym_int('nX', lo=2, name='source.n_xlines'); nZ = c.sym_int('nZ', lo=2, name='n_samples')
        seg = MX.mk_segy(c, nI, nX, nZ)
        from pyvc.stdlib import EnumMember
        seg.fields['filetype'] = EnumMember('Filetype', 'SEGY', 0)
        c.ghost['source_handle'] = seg
        geom, w = window_geometry(c, prog, nI, nX)
        me = SObj(prog.klass('SegyConverter'), dict(geom=geom, is_2d=False, in_filename='in.sgy', filetype=EnumMember('Filetype', 'SEGY', 0), mem_limit=c.sym_int('mem', lo=1)))
        return dict(self=me, out_filename='out.sgz', bits_per_voxel=4, blockshape=None, reduce_iops=c.sym_bool('reduce_iops', name='reduce_iops'),
                    header_detection=self.detection)

    def post(self, c, a, result):
        calls = c.ghost.get('glue_calls', [])
        tags = [t for (t, _, _) in calls]
        c.ensure(mk_bool(tags == ['get_blank_header_info', 'check_memory', 'run_conversion_loop', 'write_headers', 'write_hash']), 'order.header_and_data_then_footer_then_hash')
        if tags != ['get_blank_header_info', 'check_memory', 'run_conversion_loop', 'write_headers', 'write_hash']:
            return
        by = {t: (args, r) for (t, args, r) in calls}
        hi = by['get_blank_header_info'][1]
        rcl = by['run_conversion_loop'][0]
        opened = c.ghost.get('opened', [])
        c.ensure(mk_bool(len(opened) == 1 and opened[0][0] == 'out.sgz' and opened[0][1] == 'wb'), 'one_output_file_opened_for_writing')
        out = opened[0][2] if opened else None
        c.ensure(mk_bool(by['get_blank_header_info'][0]['header_detection'] == self.detection and by['get_blank_header_info'][0]['seismic'] is c.ghost['source_handle']), 'header_info_for_the_requested_detection_mode')
        c.ensure(mk_bool(rcl['source'] is c.ghost['source_handle'] and rcl['out_filehandle'] is out and rcl['header_info'] is hi and rcl['geom'] is a['self'].fields['geom']), 'conversion_loop_gets_source_output_header_info_and_geometry')
        c.ensure(mk_bool(rcl['bits_per_voxel'] == 4 and tuple(rcl['blockshape']) == (4, 4, 512)), 'conversion_loop_gets_the_validated_setting')
        c.ensure(mk_bool(rcl['store_headers'] is (self.detection != 'strip')), 'store_headers_off_exactly_for_strip')
        c.ensure(Iff(rcl['reduce_iops'], a['reduce_iops']), 'reduce_iops_passed_through')
        wh = by['write_headers'][0]
        c.ensure(mk_bool(wh['header_detection'] == self.detection and wh['header_info'] is hi and wh['out_filehandle'] is out), 'write_headers_gets_the_same_header_info_and_handle')
        whs = by['write_hash'][0]
        c.ensure(mk_bool(whs['hash'] is by['run_conversion_loop'][1] and whs['out_filehandle'] is out), 'write_hash_gets_the_digest_of_the_conversion_loop')


for _d in ('heuristic', 'thorough', 'exhaustive', 'strip'):
    fuc(CV + 'SeismicFileConverter.run', props=['C01', 'C03', 'C04', 'C11', 'C18', 'C20'])(type('ConverterRun_' + _d, (ConverterRun,), dict(detection=_d, variant=_d)))


class RunConversionLoop(Contract):
    """run_conversion_loop (SEG-Y source): the header built by make_header_seismic_file for (source, setting, geom, header_info) is what the
    writer thread writes first; compressor gets the rate; the producer gets source, blockshape, store_headers, header_info.headers_dict, geom,
    the hash object and reduce_iops; both queues are joined and the handle flushed before the digest of that hash object is returned"""
    two_d = False
    may_raise = ()

    def inputs(self, c):
        prog = c.ex.prog
        nI = c.sym_int('nI', lo=2, name='source.n_ilines'); nX = c.sym_int('nX', lo=2, name='source.n_xlines'); nZ = c.sym_int('nZ', lo=2, name='n_samples')
        seg = MX.mk_segy(c, nI, nX, nZ)
        if self.two_d:
            geom = SObj(prog.klass('Geometry2d'), dict(traces=[0, 1]))
        else:
            geom = SObj(prog.klass('Geometry3d'), dict(ilines=MX.SRange(0, nI, 1), xlines=MX.SRange(0, nX, 1)))
        hd = {189: SArray((mul(nI, nX),), lambda idx: 0, 'int32')}
        hi = SObj(prog.klass('HeaderwordInfo'), dict(headers_dict=hd, table={}, header_detection='heuristic'))
        out = IO.new_file(('out', 0), 'wb', 'out.sgz')
        return dict(source=seg, out_filehandle=out, bits_per_voxel=4, blockshape=(4, 4, 512) if not self.two_d else (1, 16, 512), header_info=hi, geom=geom,
                    queue_size=c.sym_int('qs', lo=1, name='queue_size'), reduce_iops=c.sym_bool('ri', name='reduce_iops'), store_headers=c.sym_bool('sh', name='store_headers'))

    def post(self, c, a, result):
        calls = c.ghost.get('glue_calls', [])
        prod = 'seismic_file_producer_2d' if self.two_d else 'seismic_file_producer'
        tags = [t for (t, _, _) in calls]
        c.ensure(mk_bool(tags == ['make_header_seismic_file', prod]), 'header_built_then_the_matching_producer_run')
        if tags != ['make_header_seismic_file', prod]:
            return
        mh, hdr = calls[0][1], calls[0][2]
        c.ensure(mk_bool(mh['seismicfile'] is a['source'] and mh['bits_per_voxel'] == a['bits_per_voxel'] and mh['blockshape'] == a['blockshape'] and mh['geom'] is a['geom'] and mh['header_info'] is a['header_info']), 'header_for_this_source_setting_geometry_and_header_info')
        th = c.ghost.get('threads', [])
        qs = c.ghost.get('queues', [])
        c.ensure(mk_bool(len(th) == 2 and len(qs) == 2 and all(t.fields['started'] for t in th)), 'two_worker_threads_started_two_queues')
        if len(th) != 2 or len(qs) != 2:
            return
        comp, wr = th
        prog = c.ex.prog
        c.ensure(mk_bool(comp.fields['target'] is prog.function(CU + 'compressor') and comp.fields['args'][0] is qs[0] and comp.fields['args'][1] is qs[1] and comp.fields['args'][2] == a['bits_per_voxel']), 'compressor_between_the_two_queues_at_the_requested_rate')
        c.ensure(mk_bool(wr.fields['target'] is prog.function(CU + 'writer') and wr.fields['args'][0] is qs[1] and wr.fields['args'][1] is a['out_filehandle'] and wr.fields['args'][2] is hdr), 'writer_gets_the_output_handle_and_that_header')
        p = calls[1][1]
        c.ensure(mk_bool(p['queue'] is qs[0] and p['seismicfile'] is a['source'] and p['blockshape'] == a['blockshape'] and p['headers_dict'] is a['header_info'].fields['headers_dict'] and p['geom'] is a['geom']), 'producer_feeds_the_compression_queue_from_this_source')
        c.ensure(Iff(p['store_headers'], a['store_headers']), 'producer_store_headers_passed_through')
        if not self.two_d:
            c.ensure(Iff(p['reduce_iops'], a['reduce_iops']), 'producer_reduce_iops_passed_through')
        joins = c.ghost.get('joins', [])
        c.ensure(mk_bool(len(joins) == 2 and joins[0] is qs[0] and joins[1] is qs[1]), 'both_queues_joined_in_pipeline_order')
        c.ensure(mk_bool(getattr(result, 'digest_of', None) is not None and p['hash_object'].fields['log'] == result.digest_of), 'returns_the_digest_of_the_hash_object_the_producer_fed')


for _2d in (False, True):
    fuc(CU + 'run_conversion_loop', props=['C01', 'C03', 'C11', 'C16', 'C20'] + (['C09'] if _2d else []))(type('RunConversionLoop' + ('2d' if _2d else ''), (RunConversionLoop,), dict(two_d=_2d, variant='2d' if _2d else '3d')))


class WriteHash(Contract):
    """write_hash: the 20 digest bytes at byte 960 of the output file, in place; nothing else"""
    may_raise = ()

    def inputs(self, c):
        out = IO.new_file(('out', 0), 'wb', 'out.sgz')
        out.fields['pos'] = c.sym_int('endpos', lo=2 * BLK, name='end_of_file')
        return dict(hash=BM.junk_bytes(20, 'digest'), out_filehandle=out)

    def call_args(self, a):
        return [a['hash'], a['out_filehandle']], {}, None

    def post(self, c, a, result):
        ws = c.ghost.get('writes', [])
        c.ensure(mk_bool(len(ws) == 1), 'one_write')
        if len(ws) == 1:
            w = ws[0]
            c.ensure(eq(w.pos, 960) and eq(w.data.length, 20), 'twenty_bytes_at_offset_960')
            c.ensure(mk_bool(w.data is a['hash'] or getattr(w.data, 'origin', None) == getattr(a['hash'], 'origin', 0)), 'the_digest_bytes')
            c.ensure(mk_bool(w.handle is not a['out_filehandle'] and w.handle.fields.get('name') == 'out.sgz' and '+' in w.handle.fields.get('mode', '')), 'in_place_through_a_second_handle_on_the_same_file')


for _k in (CV + 'SeismicFileConverter.write_hash', CV + 'NumpyConverter.write_hash'):
    fuc(_k, props=['C20', 'C03'])(WriteHash)


rec(CV + 'NumpyConverter.write_headers', 'np_write_headers', ('NumpyConverter.run',))
rec(CV + 'NumpyConverter.write_hash', 'np_write_hash', ('NumpyConverter.run',))


class NumpyConverterRun(Contract):
    """NumpyConverter.run: setting validated (C19), geometry = the whole cube, header_info built from the converter's (ordered) trace_headers
    with one entry per trace, then run_conversion_loop on a CubeWithAxes of the converter's array and axes, write_headers, write_hash -- in
    that order on the one output handle"""
    may_raise = ()

    def inputs(self, c):
        prog = c.ex.prog
        nI = c.sym_int('nI', lo=2, name='n_ilines'); nX = c.sym_int('nX', lo=2, name='n_xlines'); nZ = c.sym_int('nZ', lo=2, name='n_samples')
        from .c_producers import src
        data = SArray((nI, nX, nZ), lambda idx: src(idx[0], idx[1], idx[2]), 'float32')
        il = SArray((nI,), lambda idx: idx[0], 'int64'); xl = SArray((nX,), lambda idx: idx[0], 'int64'); sm = SArray((nZ,), lambda idx: mul(4, idx[0]), 'int64')
        th = {189: SArray((nI, nX), lambda idx: idx[0], 'int64'), 193: SArray((nI, nX), lambda idx: idx[1], 'int64')}
        me = SObj(prog.klass('NumpyConverter'), dict(data_array=data, ilines=il, xlines=xl, samples=sm, trace_headers=th, geom=None))
        return dict(self=me, out_filename='out.sgz', bits_per_voxel=4, blockshape=(4, 4, -1), _n=(nI, nX, nZ))

    def post(self, c, a, result):
        me = a['self']
        nI, nX, nZ = a['_n']
        calls = c.ghost.get('glue_calls', [])
        tags = [t for (t, _, _) in calls]
        c.ensure(mk_bool(tags == ['run_conversion_loop', 'np_write_headers', 'np_write_hash']), 'order.header_and_data_then_footer_then_hash')
        if tags != ['run_conversion_loop', 'np_write_headers', 'np_write_hash']:
            return
        rcl = calls[0][1]
        opened = c.ghost.get('opened', [])
        c.ensure(mk_bool(len(opened) == 1 and opened[0][0] == 'out.sgz' and opened[0][1] == 'wb'), 'one_output_file_opened_for_writing')
        out = opened[0][2] if opened else None
        cube = rcl['source']
        ok = isinstance(cube, SObj) and cube.cls is not None and cube.cls.name == 'CubeWithAxes'
        c.ensure(mk_bool(ok and cube.fields['data_array'] is me.fields['data_array'] and cube.fields['ilines'] is me.fields['ilines'] and cube.fields['xlines'] is me.fields['xlines'] and cube.fields['samples'] is me.fields['samples']), 'source_is_the_converters_cube_with_its_axes')
        c.ensure(mk_bool(rcl['bits_per_voxel'] == 4 and tuple(rcl['blockshape']) == (4, 4, 512) and rcl['out_filehandle'] is out), 'conversion_loop_gets_the_validated_setting_and_the_output_handle')
        g = rcl['geom']
        c.ensure(mk_bool(isinstance(g, SObj)) and And(eq(g.fields['ilines'].start, 0), eq(g.fields['ilines'].stop, nI), eq(g.fields['xlines'].start, 0), eq(g.fields['xlines'].stop, nX)), 'geometry_is_the_whole_cube')
        hi = rcl['header_info']
        c.ensure(mk_bool(isinstance(hi, SObj) and hi.fields.get('headers_dict') is me.fields['trace_headers']), 'header_info_holds_the_converters_ordered_header_arrays')
        t = hi.fields.get('table', {})
        c.ensure(mk_bool(all((t.get(k) == (0, k)) == (k in (189, 193)) for k in MX.TF_TRACE_KEYS)), 'table_marks_exactly_the_given_fields_as_stored')
        wh = calls[1][1]
        c.ensure(mk_bool(wh['header_info'] is hi and wh['out_filehandle'] is out), 'write_headers_gets_the_same_header_info_and_handle')
        whs = calls[2][1]
        c.ensure(mk_bool(whs['hash'] is calls[0][2] and whs['out_filehandle'] is out), 'write_hash_gets_the_digest_of_the_conversion_loop')


fuc(CV + 'NumpyConverter.run', props=['C01', 'C03', 'C04', 'C18', 'C20'])(NumpyConverterRun)


rec(CU + 'make_header_numpy', 'make_header_numpy', RCL, lambda c, a: BM.SByteArray(BM.junk_bytes(2 * BLK, 'header')))
rec(CU + 'numpy_producer', 'numpy_producer', RCL)


class RunConversionLoopNumpy(Contract):
    """run_conversion_loop (NumPy source): header from make_header_numpy for this cube / setting / header_info / geometry is what the writer
    thread writes first; numpy_producer is fed the cube's data array, the blockshape and the hash object whose digest is returned"""
    may_raise = ()

    def inputs(self, c):
        prog = c.ex.prog
        nI = c.sym_int('nI', lo=2, name='n_ilines'); nX = c.sym_int('nX', lo=2, name='n_xlines'); nZ = c.sym_int('nZ', lo=2, name='n_samples')
        from .c_producers import src
        data = SArray((nI, nX, nZ), lambda idx: src(idx[0], idx[1], idx[2]), 'float32')
        cube = SObj(prog.klass('CubeWithAxes'), dict(data_array=data, ilines=SArray((nI,), lambda idx: idx[0], 'int64'), xlines=SArray((nX,), lambda idx: idx[0], 'int64'),
                                                     samples=SArray((nZ,), lambda idx: idx[0], 'int64')))
        geom = SObj(prog.klass('Geometry3d'), dict(ilines=MX.SRange(0, nI, 1), xlines=MX.SRange(0, nX, 1)))
        hi = SObj(prog.klass('HeaderwordInfo'), dict(headers_dict={}, table={}, header_detection=None))
        out = IO.new_file(('out', 0), 'wb', 'out.sgz')
        return dict(source=cube, out_filehandle=out, bits_per_voxel=4, blockshape=(4, 4, 512), header_info=hi, geom=geom)

    def post(self, c, a, result):
        calls = c.ghost.get('glue_calls', [])
        tags = [t for (t, _, _) in calls]
        c.ensure(mk_bool(tags == ['make_header_numpy', 'numpy_producer']), 'header_built_then_the_numpy_producer_run')
        if tags != ['make_header_numpy', 'numpy_producer']:
            return
        mh, hdr = calls[0][1], calls[0][2]
        c.ensure(mk_bool(mh['source'] is a['source'] and mh['bits_per_voxel'] == 4 and mh['blockshape'] == (4, 4, 512) and mh['header_info'] is a['header_info'] and mh['geom'] is a['geom']), 'header_for_this_cube_setting_header_info_and_geometry')
        th, qs = c.ghost.get('threads', []), c.ghost.get('queues', [])
        c.ensure(mk_bool(len(th) == 2 and len(qs) == 2 and all(t.fields['started'] for t in th)), 'two_worker_threads_started_two_queues')
        if len(th) != 2 or len(qs) != 2:
            return
        comp, wr = th
        prog = c.ex.prog
        c.ensure(mk_bool(comp.fields['target'] is prog.function(CU + 'compressor') and comp.fields['args'][0] is qs[0] and comp.fields['args'][1] is qs[1] and comp.fields['args'][2] == 4), 'compressor_between_the_two_queues_at_the_requested_rate')
        c.ensure(mk_bool(wr.fields['target'] is prog.function(CU + 'writer') and wr.fields['args'][0] is qs[1] and wr.fields['args'][1] is a['out_filehandle'] and wr.fields['args'][2] is hdr), 'writer_gets_the_output_handle_and_that_header')
        p = calls[1][1]
        c.ensure(mk_bool(p['queue'] is qs[0] and p['in_array'] is a['source'].fields['data_array'] and p['blockshape'] == (4, 4, 512)), 'producer_feeds_the_compression_queue_from_the_cube')
        joins = c.ghost.get('joins', [])
        c.ensure(mk_bool(len(joins) == 2 and joins[0] is qs[0] and joins[1] is qs[1]), 'both_queues_joined_in_pipeline_order')
        c.ensure(mk_bool(getattr(result, 'digest_of', None) is not None and p['hash_object'].fields['log'] == result.digest_of), 'returns_the_digest_of_the_hash_object_the_producer_fed')


fuc(CU + 'run_conversion_loop', props=['C01', 'C03', 'C16', 'C20'])(RunConversionLoopNumpy)


# ---------------------------------------------------------------------------------------------
# command line (C11, C06): the options reach the converter unchanged

CLI_FUNCS = ('sgy2sgz', 'sgz2sgy')
rec(CV + 'SeismicFileConverter.__init__', 'converter_init', CLI_FUNCS)
rec(CV + 'SeismicFileConverter.run', 'converter_run', CLI_FUNCS)
rec(CV + 'SgzConverter.__init__', 'sgz_converter_init', CLI_FUNCS)
rec(CV + 'SgzConverter.convert_to_segy', 'convert_to_segy', CLI_FUNCS)
rec('read.py::SgzReader.close', 'close', CLI_FUNCS + ('cube',))


def register_cli_models(lib):
    lib.ext['click.echo'] = lambda I, *a, **k: None


MX.EXTRA_REGISTRARS.append(register_cli_models)


class CliSgy2Sgz(Contract):
    """sgy2sgz: one SegyConverter on the input file with the four window options as given (None when absent, 0 kept), then run() with the
    output file, bits_per_voxel, blockshape (None = the converter's default) and reduce_iops as given"""
    may_raise = ()
    window = True

    def inputs(self, c):
        d = dict(input_segy_file='in.sgy', output_sgz_file='out.sgz', bits_per_voxel=c.sym_int('bits', name='bits_per_voxel'),
                 blockshape=None, reduce_iops=c.sym_bool('ri', name='reduce_iops'))
        for nm in ('min_il', 'max_il', 'min_xl', 'max_xl'):
            d[nm] = c.sym_int(nm, lo=0, name=nm) if self.window else None
        return d

    def post(self, c, a, result):
        calls = c.ghost.get('glue_calls', [])
        tags = [t for (t, _, _) in calls]
        c.ensure(mk_bool(tags == ['converter_init', 'converter_run']), 'one_converter_constructed_then_run')
        if tags != ['converter_init', 'converter_run']:
            return
        ini, run = calls[0][1], calls[1][1]
        c.ensure(mk_bool(ini['in_filename'] == 'in.sgy'), 'converter_on_the_input_file')
        for nm in ('min_il', 'max_il', 'min_xl', 'max_xl'):
            got = ini.get(nm)
            c.ensure(mk_bool(got is None) if a[nm] is None else (mk_bool(got is not None) and eq(got, a[nm])), f'window_option_{nm}_passed_unchanged')
        c.ensure(mk_bool(run['self'] is ini['self'] and run['out_filename'] == 'out.sgz' and run['blockshape'] is None), 'run_on_that_converter_with_the_output_file')
        c.ensure(eq(run['bits_per_voxel'], a['bits_per_voxel']), 'bits_per_voxel_passed_unchanged')
        c.ensure(Iff(run['reduce_iops'], a['reduce_iops']), 'reduce_iops_passed_unchanged')


for _w in (True, False):
    fuc('cli.py::sgy2sgz', props=['C11', 'C01'])(type('CliSgy2Sgz' + ('W' if _w else ''), (CliSgy2Sgz,), dict(window=_w, variant='window given' if _w else 'no window')))


class CliSgz2Sgy(Contract):
    """sgz2sgy: one SgzConverter on the input file, convert_to_segy(output file)"""
    may_raise = ()

    def inputs(self, c):
        return dict(input_sgz_file='in.sgz', output_sgy_file='out.sgy')

    def post(self, c, a, result):
        calls = [k for k in c.ghost.get('glue_calls', []) if k[0] != 'close']
        tags = [t for (t, _, _) in calls]
        c.ensure(mk_bool(tags == ['sgz_converter_init', 'convert_to_segy']), 'one_converter_then_export')
        if tags == ['sgz_converter_init', 'convert_to_segy']:
            c.ensure(mk_bool(calls[0][1]['file'] == 'in.sgz' and calls[1][1]['self'] is calls[0][1]['self'] and calls[1][1]['out_file'] == 'out.sgy'), 'export_of_the_input_file_to_the_output_file')


fuc('cli.py::sgz2sgy', props=['C06'])(CliSgz2Sgy)


# ---------------------------------------------------------------------------------------------
# tools.* and the segyio emulator object (C13 / C02): which reader method / accessor stands behind each documented attribute

TOOLS = ('tools.py::cube',)
rec('read.py::SgzReader.read_volume', 'read_volume', ('cube',), lambda c, a: SObj(None, clsname='$volume'))
rec('read.py::SgzReader.__init__', 'reader_init_for_cube', ('cube',))


class ToolsCube(Contract):
    """tools.cube(filename) = read_volume() of a reader opened on that file, which is closed afterwards"""
    may_raise = ()

    def inputs(self, c):
        return dict(filename='x.sgz')

    def post(self, c, a, result):
        calls = c.ghost.get('glue_calls', [])
        tags = [t for (t, _, _) in calls]
        c.ensure(mk_bool(tags[:2] == ['reader_init_for_cube', 'read_volume'] and tags[2:] in ([], ['close'])), 'open_read_volume_close')
        if tags[:2] == ['reader_init_for_cube', 'read_volume']:
            c.ensure(mk_bool(calls[0][1]['file'] == 'x.sgz' and calls[1][1]['self'] is calls[0][1]['self'] and result is calls[1][2]), 'the_whole_volume_of_that_file')
            c.ensure(mk_bool('close' in tags), 'reader_closed')


fuc('tools.py::cube', props=['C02', 'C13'])(ToolsCube)


class ToolsDt(Contract):
    """tools.dt(reader) = 1000 * (samples[1] - samples[0]): the sample interval in microseconds of the reader's sample axis"""
    may_raise = ()

    def inputs(self, c):
        from . import objects as O
        n = c.sym_int('n', lo=2, name='n_samples')
        ax = O.axis_float(c, 'zslices', n)
        rd = SObj(None, clsname='$emu')
        rd.fields['samples'] = ax
        return dict(reader=rd, _dz=ax.prog[1])

    def post(self, c, a, result):
        from pyvc.values import zreal
        c.ensure(mk_bool(zreal(result) == 1000 * zreal(a['_dz'])), 'thousand_times_the_sample_step')


fuc('tools.py::dt', props=['C13', 'C05'])(ToolsDt)


EMU = ('SegyioEmulator.__init__',)
for _k in ('InlineAccessor', 'CrosslineAccessor', 'ZsliceAccessor', 'HeaderAccessor', 'TraceAccessor', 'SubvolumeAccessor'):
    rec(f'accessors.py::{_k}.__init__', 'acc_' + _k, EMU)
rec('read.py::SgzReader.get_file_binary_header', 'bin', EMU, lambda c, a: SObj(None, clsname='$binhdr'))
rec('read.py::SgzReader.get_file_text_header', 'text', EMU, lambda c, a: ['<text>'])


class EmuReaderInit(_Rec):
    """call-site view of SgzReader.__init__ inside the emulator: dimensionality, sample axis and the handle are set"""
    tag = 'emu_reader_init'
    only_in = EMU

    def value(self, c, a):
        me = a['self']
        from . import objects as O
        f = IO.new_file(BM.K_FILE, 'rb', '<sgz>')
        two_d = c.ghost.get('emu_two_d', False)
        me.fields.update(file=f, is_3d=not two_d, is_2d=two_d, zslices=O.axis_float(c, 'zslices', c.sym_int('nZ', lo=2, name='n_samples')))
        return None


fuc('read.py::SgzReader.__init__', props=[], modular=True)(EmuReaderInit)


class EmulatorInit(Contract):
    """SegyioEmulator(file): a reader on the file whose documented attributes are: trace / header / iline / xline / depth_slice / subvolume =
    the accessor of that kind on the SAME handle (3-D); iline / xline / depth_slice refuse with the dimensionality error for 2-D files;
    samples = the sample axis; attributes = get_tracefield_1d; bin / text from the stored SEG-Y file header"""
    two_d = False
    may_raise = ()

    def inputs(self, c):
        c.ghost['emu_two_d'] = self.two_d
        me = SObj(c.ex.prog.klass('SegyioEmulator'), {})
        return dict(self=me, file='x.sgz', chunk_cache_size=None)

    def post(self, c, a, result):
        from pyvc.symex import BoundMethod
        me = a['self']
        F_ = me.fields
        calls = c.ghost.get('glue_calls', [])
        accs = {t[4:]: args for (t, args, _) in calls if t.startswith('acc_')}
        c.ensure(mk_bool(any(t == 'emu_reader_init' and args['file'] == 'x.sgz' and args.get('chunk_cache_size') is None for (t, args, _) in calls)), 'reader_on_the_given_file')
        want = ['TraceAccessor', 'HeaderAccessor'] + ([] if self.two_d else ['InlineAccessor', 'CrosslineAccessor', 'ZsliceAccessor', 'SubvolumeAccessor'])
        c.ensure(mk_bool(sorted(accs) == sorted(want)), 'exactly_the_accessors_of_this_dimensionality')
        names = {'trace': 'TraceAccessor', 'header': 'HeaderAccessor', 'iline': 'InlineAccessor', 'xline': 'CrosslineAccessor', 'depth_slice': 'ZsliceAccessor', 'subvolume': 'SubvolumeAccessor'}
        for attr, cls in names.items():
            obj = F_.get(attr)
            if cls in want:
                ok = isinstance(obj, SObj) and obj.cls is not None and obj.cls.name == cls and cls in accs and accs[cls]['self'] is obj and accs[cls]['file'] is F_['file']
                c.ensure(mk_bool(ok), f'{attr}.is_the_{cls}_on_the_same_handle')
            elif attr != 'subvolume':
                ok = isinstance(obj, SObj) and obj.cls is not None and obj.cls.name == 'DimensionalityError'
                c.ensure(mk_bool(ok), f'{attr}.refuses_on_2d_files')
        c.ensure(mk_bool(F_.get('samples') is F_.get('zslices')), 'samples_is_the_sample_axis')
        at = F_.get('attributes')
        c.ensure(mk_bool(isinstance(at, BoundMethod) and at.obj is me and at.finfo.qualname.endswith('.get_tracefield_1d')), 'attributes_is_get_tracefield_1d')
        c.ensure(mk_bool(getattr(F_.get('bin'), 'clsname', None) == '$binhdr' and F_.get('text') == ['<text>']), 'bin_and_text_from_the_stored_file_header')
        c.ensure(mk_bool(F_.get('unstructured') is self.two_d), 'unstructured_flag')


for _2d in (False, True):
    fuc('segyio_emulator.py::SegyioEmulator.__init__', props=['C13', 'C15'])(type('EmulatorInit' + ('2d' if _2d else ''), (EmulatorInit,), dict(two_d=_2d, variant='2d' if _2d else '3d')))


# ---------------------------------------------------------------------------------------------
# xarray entry point (C02 / C05): dataset = lazily indexed cube of the reader's shape with the reader's axes as coordinates

XR = ('SeismicZfpBackendEntrypoint.open_dataset',)


def register_xr_models(lib):
    def xr_dataset(I, data_vars=None, coords=None, **kw):
        ds = SObj(None, clsname='$xrdataset')
        ds.fields.update(data_vars=data_vars, coords=coords, close=None)
        cur().ghost.setdefault('datasets', []).append(ds)
        return ds
    lib.ext['xarray.Dataset'] = xr_dataset
    lib.methods[('$xrdataset', 'set_close')] = lambda I, ds, fn: ds.fields.__setitem__('close', fn)


MX.EXTRA_REGISTRARS.append(register_xr_models)


class XrReaderInit(_Rec):
    tag = 'xr_reader_init'
    only_in = XR

    def value(self, c, a):
        from . import objects as O
        me = a['self']
        nI = c.sym_int('nI', lo=2, name='n_ilines'); nX = c.sym_int('nX', lo=2, name='n_xlines'); nZ = c.sym_int('nZ', lo=2, name='n_samples')
        me.fields.update(n_ilines=nI, n_xlines=nX, n_samples=nZ, ilines=O.axis_array(c, 'ilines', nI), xlines=O.axis_array(c, 'xlines', nX), zslices=O.axis_float(c, 'zslices', nZ))
        return None


fuc('read.py::SgzReader.__init__', props=[], modular=True)(XrReaderInit)


class XrOpenDataset(Contract):
    """open_dataset(file): one variable 'data' over dims (il, xl, z) backed by a SeismicZfpBackendArray of the reader's shape and dtype float32 on a
    reader opened on that file; coordinates il / xl / z are the reader's inline numbers, crossline numbers and sample axis; closing the dataset
    closes the reader"""
    may_raise = ()

    def inputs(self, c):
        me = SObj(c.ex.prog.klass('SeismicZfpBackendEntrypoint'), {})
        return dict(self=me, filename_or_obj='x.sgz', drop_variables=None)

    def post(self, c, a, result):
        from pyvc.symex import BoundMethod
        calls = c.ghost.get('glue_calls', [])
        inits = [x for x in calls if x[0] == 'xr_reader_init']
        c.ensure(mk_bool(len(inits) == 1 and inits[0][1]['file'] == 'x.sgz'), 'one_reader_on_the_given_file')
        if len(inits) != 1:
            return
        rd = inits[0][1]['self']
        ok = isinstance(result, SObj) and result.clsname == '$xrdataset'
        c.ensure(mk_bool(ok), 'returns_the_dataset')
        if not ok:
            return
        dv, co = result.fields['data_vars'], result.fields['coords']
        c.ensure(mk_bool(isinstance(dv, dict) and list(dv.keys()) == ['data'] and tuple(dv['data'][0]) == ('il', 'xl', 'z')), 'one_variable_over_il_xl_z')
        arr = dv['data'][1]
        ok2 = isinstance(arr, SObj) and arr.cls is not None and arr.cls.name == 'SeismicZfpBackendArray' and arr.fields.get('sgz_reader') is rd
        c.ensure(mk_bool(ok2), 'backed_by_the_reader')
        if ok2:
            shp = arr.fields['shape']
            c.ensure(And(eq(shp[0], rd.fields['n_ilines']), eq(shp[1], rd.fields['n_xlines']), eq(shp[2], rd.fields['n_samples'])), 'shape_is_the_cube_shape')
        c.ensure(mk_bool(isinstance(co, dict) and co.get('il') is rd.fields['ilines'] and co.get('xl') is rd.fields['xlines'] and co.get('z') is rd.fields['zslices']), 'coordinates_are_the_reader_axes')
        cl = result.fields.get('close')
        c.ensure(mk_bool(isinstance(cl, BoundMethod) and cl.obj is rd and cl.finfo.qualname.endswith('.close')), 'closing_the_dataset_closes_the_reader')


fuc('sgz_xarray.py::SeismicZfpBackendEntrypoint.open_dataset', props=['C02', 'C05'])(XrOpenDataset)


class GetSourceDataHash(Contract):
    """get_source_data_hash(): the 40 hexadecimal digits (two per byte, leading zeros kept) of header bytes 960..979 -- the place write_hash
    puts the SHA-1 digest of the source samples (C20: the hash a user sees IS the stored hash, for every digest incl. those starting with 0)"""
    may_raise = ()

    def inputs(self, c):
        prog = c.ex.prog
        hb = BM.file_bytes(BM.K_FILE, 0, 2 * BLK)
        me = SObj(prog.klass('SgzReader'), dict(headerbytes=hb))
        return dict(self=me, _hb=hb)

    def call_args(self, a):
        return [], {}, a['self']

    def post(self, c, a, result):
        from pyvc.models import SymStr
        ok = isinstance(result, SymStr) and result.kind == 'hex' and isinstance(result.payload, BM.BytesBase)
        c.ensure(mk_bool(ok), 'result_is_bytes_hex_two_digits_per_byte')
        if not ok:
            return
        b = result.payload
        c.ensure(eq(b.length, 20), 'twenty_bytes')
        q = c.sym_int('hq', lo=0, hi=19, name='digest_byte')
        t = b.tok(q)
        c.ensure(mk_bool(z3.And(t.zk() == BM.K_FILE, t.zo() == zint(add(960, q)))), 'bytes_960_to_979_of_the_file')


fuc('read.py::SgzReader.get_source_data_hash', props=['C20', 'C03'])(GetSourceDataHash)
