"""Contracts on the trace-header WRITE path (C04, C18 order): seismic_zfp/headers.py (HeaderwordInfo) and the footer writers of
seismic_zfp/conversion.py.

Table = {field code: (constant, alias-or-self code)} over the 89 SEG-Y trace header words (segyio order = ascending code).
A field k is  STORED  iff table[k] == (0, k);  ALIAS of k2 iff (0, k2), k2 != k, k2 != 0;  CONSTANT v iff (v, 0).
The reader (get_header_dict) gives the j-th stored field, in ascending code order, the file offset foot0 + j*stride; so the
writers must emit the stored arrays in ascending code order, each padded to the stride = 512*ceil(4*n/512), as int32.
"""
import z3

from pyvc.contract import fuc, Contract
from pyvc.values import (And, Or, Not, Implies, Iff, Ite, Min, Max, ops_binop, ops_cmp, mk_bool, mk_int, zint, zbool,
                         SInt, SObj, STok, is_sym, Unsupported, cur)
from pyvc.npmodel import SArray
from pyvc.values import SSlice
from pyvc.symex import TaggedInt
from pyvc import bytesmodel as BM
from pyvc import models_io as IO
from . import spec as S
from . import models_ext as MX
from .c_loader import THOROUGH, add, sub, mul, fdiv, mod, eq, le, lt, ge, gt, BLK

TF = MX.TF_TRACE_KEYS
HW = 'headers.py::HeaderwordInfo.'


def i32(c, name, label=None):
    v = c.sym_int(name, name=label or name)
    c.assume(ge(v, -2 ** 31), lt(v, 2 ** 31))
    return v


def mk_hwi(c, prog, table, headers_dict=None, detection='heuristic'):
    o = SObj(prog.klass('HeaderwordInfo'), dict(table=table, header_detection=detection))
    if headers_dict is not None:
        o.fields['headers_dict'] = headers_dict
        o.fields['unique_variant_nonzero_header_words'] = list(headers_dict.keys())
    return o


def blank_table():
    return {k: (0, 0) for k in TF}


def pair_eq(got, want):
    return mk_bool(isinstance(got, tuple) and len(got) == 2) and And(eq(got[0], want[0]), eq(got[1], want[1]))


# ---------------------------------------------------------------------------------------------
# serialisation of the table

class ToBuffer(Contract):
    """to_buffer(): 1068 bytes, entry i (segyio field order) = three little-endian int32: code, constant, alias code"""
    may_raise = ()
    SYM = (1, 73, 189, 193)

    def inputs(self, c):
        t = blank_table()
        for k in self.SYM:
            t[k] = (i32(c, f'c{k}', f'table[{k}].constant'), i32(c, f'a{k}', f'table[{k}].alias'))
        return dict(self=mk_hwi(c, c.ex.prog, t), _t=dict(t))

    def post(self, c, a, result):
        c.ensure(mk_bool(isinstance(result, BM.SByteArray)) and eq(result.length, 1068), 'is_1068_bytes')
        for i, k in enumerate(TF):
            want = (k,) + tuple(a['_t'][k])
            for j in range(3):
                f = result.field(12 * i + 4 * j, 12 * i + 4 * j + 4)
                ok = isinstance(f, BM.Packed) and f.fmt in ('<i', 'i')
                c.ensure(mk_bool(ok) and eq(f.value, want[j]), f'entry[{i}].word{j}')


fuc(HW + 'to_buffer', props=['C04', 'C03'])(ToBuffer)


class ArrayCount(Contract):
    """get_header_array_count() = number of STORED fields"""
    may_raise = ()
    SYM = (1, 73, 189, 193)
    inputs = ToBuffer.inputs

    def post(self, c, a, result):
        n = 0
        for k in TF:
            v = a['_t'][k]
            n = add(n, Ite(eq(v[1], k), 1, 0))
        c.ensure(eq(result, n), 'counts_the_stored_fields')


fuc(HW + 'get_header_array_count', props=['C04', 'C03'])(ArrayCount)


# ---------------------------------------------------------------------------------------------
# construction

class HwiInit(Contract):
    may_raise = ()

    def base_inputs(self, c):
        me = SObj(c.ex.prog.klass('HeaderwordInfo'), {})
        nT = c.sym_int('nT', lo=1, name='n_traces')
        return dict(self=me, n_traces=nT)

    def check_arrays(self, c, a, keys):
        hd = a['self'].fields.get('headers_dict')
        c.ensure(mk_bool(isinstance(hd, dict) and list(hd.keys()) == list(keys)), 'headers_dict.keys_are_the_stored_fields_in_ascending_code_order')
        if not isinstance(hd, dict):
            return
        for k in hd:
            arr = hd[k]
            ok = isinstance(arr, SArray) and arr.dtype == 'int32' and len(arr.shape) == 1
            c.ensure(mk_bool(ok) and eq(arr.shape[0], a['n_traces']), f'headers_dict[{k}].int32_array_with_one_entry_per_trace')


class HwiInitList(HwiInit):
    """variant_header_list mode (thorough / exhaustive / strip): listed fields STORED, all others (0,0); one int32 array per listed field"""
    fields = ()

    def inputs(self, c):
        d = self.base_inputs(c)
        d.update(variant_header_list=list(self.fields), header_detection='exhaustive')
        return d

    def post(self, c, a, result):
        t = a['self'].fields.get('table')
        c.ensure(mk_bool(isinstance(t, dict) and list(t.keys()) == TF), 'table.has_the_89_fields_in_segyio_order')
        if not isinstance(t, dict):
            return
        for k in TF:
            c.ensure(pair_eq(t.get(k), (0, k) if k in self.fields else (0, 0)), f'table[{k}]')
        self.check_arrays(c, a, list(self.fields))


for _nm, _f in (('all89', tuple(TF)), ('none', ()), ('three', (1, 73, 189))):
    fuc(HW + '__init__', props=['C04'])(type('HwiInitList_' + _nm, (HwiInitList,), dict(fields=_f, variant='variant_header_list=' + _nm)))


class HwiInitHeuristic(HwiInit):
    """seismicfile mode ('heuristic'): classification from the first and the last trace.  Inputs: SEG-Y whose header words outside
    {189, 193} (thorough tier: {73, 189, 193}) are zero in every trace (restriction of this contract, see DESIGN); those four arbitrary.
    Under the precondition of C04 (every field constant or differing between first and last trace; no two differing fields agree
    on both):  differing -> STORED with its own array;  equal non-zero -> CONSTANT;  zero -> (0,0)."""
    SYM = (73, 189, 193) if THOROUGH else (189, 193)

    def inputs(self, c):
        d = self.base_inputs(c)
        nT = d['n_traces']
        c.assume(ge(nT, 2))
        seg = MX.mk_segy(c, 1, nT, 4, two_d=True, nT=nT)
        seg.fields['nonzero_fields'] = set(self.SYM)
        from pyvc.stdlib import EnumMember
        seg.fields['filetype'] = EnumMember('Filetype', 'SEGY', 0)
        d.update(seismicfile=seg, header_detection='heuristic', _first={k: MX.hsrc(0, k) for k in self.SYM},
                 _last={k: MX.hsrc(sub(nT, 1), k) for k in self.SYM})
        return d

    def pre(self, c, a):
        F, Lh = a['_first'], a['_last']
        out = []
        ks = list(self.SYM)
        for i, k in enumerate(ks):
            for k2 in ks[:i]:
                # no two DIFFERING fields coincide on both the first and the last trace
                out.append(Not(And(ops_cmp('!=', F[k], Lh[k]), ops_cmp('!=', F[k2], Lh[k2]), eq(F[k], F[k2]), eq(Lh[k], Lh[k2]))))
        return out

    def post(self, c, a, result):
        F, Lh = a['_first'], a['_last']
        t = a['self'].fields.get('table')
        c.ensure(mk_bool(isinstance(t, dict) and list(t.keys()) == TF), 'table.has_the_89_fields_in_segyio_order')
        if not isinstance(t, dict):
            return
        hd = a['self'].fields.get('headers_dict')
        for k in TF:
            if k not in self.SYM:
                c.ensure(pair_eq(t.get(k), (0, 0)), f'table[{k}].all_zero_field')
                continue
            differs = ops_cmp('!=', F[k], Lh[k])
            got = t.get(k)
            c.ensure(Implies(differs, pair_eq(got, (0, k))), f'table[{k}].differing_field_is_stored')
            c.ensure(Implies(And(Not(differs), ops_cmp('!=', F[k], 0)), pair_eq(got, (F[k], 0))), f'table[{k}].constant_field_keeps_its_value')
            c.ensure(Implies(And(Not(differs), eq(F[k], 0)), pair_eq(got, (0, 0))), f'table[{k}].zero_field')
            has = mk_bool(isinstance(hd, dict) and k in hd)
            c.ensure(Iff(differs, has), f'headers_dict.has_{k}_iff_it_differs')
        if isinstance(hd, dict):
            ks = list(hd.keys())
            c.ensure(mk_bool(ks == sorted(ks)), 'headers_dict.ascending_code_order')
            for k in hd:
                arr = hd[k]
                ok = isinstance(arr, SArray) and arr.dtype == 'int32' and len(arr.shape) == 1
                c.ensure(mk_bool(ok) and eq(arr.shape[0], a['n_traces']), f'headers_dict[{k}].int32_array_with_one_entry_per_trace')


fuc(HW + '__init__', props=['C04'])(HwiInitHeuristic)


# ---------------------------------------------------------------------------------------------
# reader side: table from the header bytes, offsets of the stored arrays

def table_buffer(c, table):
    """1068 bytes holding `table` in the file format (what to_buffer writes -- ToBuffer contract)"""
    buf = BM.SByteArray(BM.zeros(1068))
    for i, k in enumerate(TF):
        for j, v in enumerate((k,) + tuple(table[k])):
            buf.setitem(SSlice(12 * i + 4 * j, 12 * i + 4 * j + 4, None), BM.Packed('<i', v), None)
    return buf


class HwiInitBuffer(HwiInit):
    """buffer mode (the reader): table[k] = the (constant, alias) words stored for field k"""
    SYM = (1, 73, 189, 193)

    def inputs(self, c):
        d = self.base_inputs(c)
        t = blank_table()
        for k in self.SYM:
            t[k] = (i32(c, f'c{k}', f'table[{k}].constant'), i32(c, f'a{k}', f'table[{k}].alias'))
        d.update(buffer=table_buffer(c, t), _t=t)
        return d

    def post(self, c, a, result):
        t = a['self'].fields.get('table')
        c.ensure(mk_bool(isinstance(t, dict) and list(t.keys()) == TF), 'table.has_the_89_fields_in_segyio_order')
        if isinstance(t, dict):
            for k in TF:
                c.ensure(pair_eq(t.get(k), a['_t'][k]), f'table[{k}].is_the_stored_pair')


fuc(HW + '__init__', props=['C04'])(HwiInitBuffer)


class GetHeaderDict(Contract):
    """get_header_dict: constants give their value, the j-th STORED field (ascending code) gives FileOffset(foot0 + j*stride),
    an alias gives whatever its (earlier) target gives.  Table restricted to: fields 1, 189, 193 STORED-or-constant (symbolic constants),
    73 an alias of 1 or a constant, all others (0,0)."""
    may_raise = ()

    def inputs(self, c):
        prog = c.ex.prog
        t = blank_table()
        self.kinds = {}
        c1 = i32(c, 'c1', 'table[1].constant')
        stored1 = c.sym_bool('stored1', name='field1_is_stored')
        # a conforming table entry is (v,0) or (0,k): model the choice with a boolean
        if c.decide(zbool(stored1)):
            t[1] = (0, 1)
        else:
            t[1] = (c1, 0)
            c.assume(ops_cmp('!=', c1, 0))
        t[73] = (0, 1)                                   # alias of field 1
        t[189] = (0, 189)
        c193 = i32(c, 'c193', 'table[193].constant')
        t[193] = (c193, 0)
        me = mk_hwi(c, prog, t)
        nh = c.sym_int('n_arrays', lo=0, hi=89, name='n_header_arrays')
        c.assume(eq(nh, add(Ite(stored1, 1, 0), 1)))
        db = c.sym_int('diskblocks', lo=1, name='compressed_data_diskblocks')
        stride = c.sym_int('stride', lo=512, name='padded_header_entry_length_bytes')
        return dict(self=me, n_header_arrays=nh, n_header_blocks=2, compressed_data_diskblocks=db, padded_header_entry_length_bytes=stride,
                    _stored1=stored1, _c1=c1, _c193=c193)

    def post(self, c, a, result):
        c.ensure(mk_bool(isinstance(result, dict) and sorted(int(k) for k in result.keys()) == TF), 'all_89_fields_present')
        foot0 = add(2 * BLK, mul(BLK, a['compressed_data_diskblocks']))
        stride = a['padded_header_entry_length_bytes']
        s1 = a['_stored1']

        def off_of(v):
            return v.value if isinstance(v, TaggedInt) else None
        r = {int(k): v for k, v in result.items()}
        v1, v73, v189, v193 = r[1], r[73], r[189], r[193]
        # field 1: stored -> offset of array 0; constant -> its value
        if isinstance(v1, TaggedInt):
            c.ensure(And(s1, eq(v1.value, foot0)), 'field1.stored_is_array_0')
        else:
            c.ensure(And(Not(s1), eq(v1, a['_c1'])), 'field1.constant_value')
        # field 73: alias of 1 when 1 is stored; (0,1) with 1 constant is not a conforming table: no demand
        if isinstance(v1, TaggedInt):
            c.ensure(mk_bool(isinstance(v73, TaggedInt)) and eq(v73.value, v1.value), 'field73.alias_reads_the_array_of_its_target')
        # field 189: stored; rank = number of stored fields before it
        c.ensure(mk_bool(isinstance(v189, TaggedInt) and v189.tag == 'FileOffset'), 'field189.is_a_file_offset')
        if isinstance(v189, TaggedInt):
            c.ensure(eq(v189.value, add(foot0, mul(Ite(s1, 1, 0), stride))), 'field189.offset_is_foot0_plus_rank_times_stride')
        c.ensure(mk_bool(not isinstance(v193, TaggedInt)) and eq(v193, a['_c193']), 'field193.constant_value')
        for k in TF:
            if k not in (1, 73, 189, 193):
                c.ensure(mk_bool(not isinstance(r[k], TaggedInt)) and eq(r[k], 0), f'field{k}.absent_field_is_zero')


fuc(HW + 'get_header_dict', props=['C04'])(GetHeaderDict)


# ---------------------------------------------------------------------------------------------
# footer writers

def footer_obligations(c, writes, arrays, nT, pos0, label='footer'):
    """writes[j] = int32 little-endian bytes of arrays[j] (one entry per trace), zero-padded to the stride 512*ceil(4n/512), appended
    at pos0 + j*stride: exactly where get_header_dict (GetHeaderDict contract) makes the reader look for the j-th stored field"""
    alen = mul(4, nT)
    stride = mul(512, S.ceil_div(alen, 512))
    c.ensure(mk_bool(len(writes) == len(arrays)), f'{label}.one_write_per_stored_array')
    pos = pos0
    for j, (wv, arr) in enumerate(zip(writes, arrays)):
        d = wv.data
        c.ensure(eq(wv.pos, add(pos0, mul(j, stride))), f'{label}[{j}].starts_at_foot0_plus_j_strides')
        c.ensure(eq(d.length, stride), f'{label}[{j}].length_is_512_ceil_4n_over_512')
        parts = d.origin if getattr(d, 'origin', None) and d.origin[0] == 'concat' else None
        body = parts[1] if parts else d
        got = getattr(body, 'arr', None)
        c.ensure(mk_bool(got is not None and got.dtype == 'int32'), f'{label}[{j}].is_int32_array_bytes')
        if got is None:
            continue
        flat = got if len(got.shape) == 1 else got.flatten()
        c.ensure(eq(flat.shape[0], nT), f'{label}[{j}].one_value_per_trace')
        e = c.sym_int(f'fe{j}', lo=0, name='trace_index')
        c.assume(lt(e, nT))
        src = arr if len(arr.shape) == 1 else arr.flatten()
        c.ensure(eq(flat.fn((e,)), src.fn((e,))), f'{label}[{j}].value_is_the_array_value_of_that_trace')
        if parts:
            q = c.sym_int(f'fq{j}', lo=0, name='pad_byte')
            c.assume(lt(q, parts[2].length))
            t = parts[2].tok(q)
            c.ensure(mk_bool(z3.And(t.zk() == BM.K_ZERO)), f'{label}[{j}].padding_is_zero_bytes')


class WriteHeadersSegy(Contract):
    """SeismicFileConverter.write_headers: 'thorough' turns the arrays that are constant over ALL traces into table constants and
    patches count (byte 64) and table (byte 980) BEFORE any footer byte is appended; then the remaining arrays, in dict (= ascending
    code) order, as int32 at the reader's stride; 'strip' writes nothing."""
    detection = 'heuristic'
    may_raise = ()
    KEYS = (1, 73, 189)

    def inputs(self, c):
        prog = c.ex.prog
        nT = c.sym_int('nT', lo=1, name='n_traces')
        c.assume(lt(nT, 2 ** 29))
        t = blank_table()
        hd = {}
        for k in self.KEYS:
            t[k] = (0, k)
            g = z3.Function(f'hdrarr{k}', z3.IntSort(), z3.IntSort())
            hd[k] = SArray((nT,), (lambda gg: (lambda idx: O_i32(mk_int(gg(zint(idx[0]))))))(g), 'int32')
        hwi = mk_hwi(c, prog, t, hd, self.detection)
        foot0 = c.sym_int('foot0', lo=2 * BLK, name='end_of_data_section')
        out = IO.new_file(('out', 0), 'wb', 'out.sgz')
        out.fields['pos'] = foot0
        c.ghost['opened'] = [('out.sgz', 'wb', out)]
        return dict(header_detection=self.detection, header_info=hwi, out_filehandle=out, _nT=nT, _foot0=foot0, _arrays=dict(hd))

    def call_args(self, a):
        return [a['header_detection'], a['header_info'], a['out_filehandle']], {}, None

    def post(self, c, a, result):
        ws = list(c.ghost.get('writes', []))
        out = a['out_filehandle']
        hwi = a['header_info']
        appended = [w for w in ws if w.handle is out]
        patches = [w for w in ws if w.handle is not out]
        nT = a['_nT']
        if self.detection == 'strip':
            c.ensure(mk_bool(len(ws) == 0), 'strip.writes_nothing')
            return
        kept = list(hwi.fields['headers_dict'].keys())
        c.ensure(mk_bool(kept == sorted(kept)), 'remaining_arrays_in_ascending_code_order')
        if self.detection == 'thorough':
            # np.all(x) is a boolean b with  b => x[e]  for every index e (AX-NP-ALL): instantiate every recorded test at one arbitrary trace
            e = c.sym_int('te', lo=0, name='trace_index')
            c.assume(lt(e, nT))
            tests = c.ghost.get('npall', [])
            c.ensure(mk_bool(len(tests) == len(self.KEYS)), 'thorough.every_array_is_tested_over_all_traces')
            for (b, cmp_arr) in tests:
                c.assume(Implies(mk_bool(b), cmp_arr.fn((e,))))
            for k in self.KEYS:
                arr = a['_arrays'][k]
                entry = hwi.fields['table'][k]
                if k in kept:
                    c.ensure(pair_eq(entry, (0, k)), f'thorough.kept_field_{k}_stays_stored')
                else:
                    c.ensure(And(eq(entry[0], arr.fn((e,))), eq(entry[1], 0)), f'thorough.dropped_field_{k}_becomes_the_constant_every_trace_has')
            c.ensure(mk_bool(len(patches) == 2), 'thorough.two_in_place_patches')
            if len(patches) == 2:
                p64, p980 = patches
                c.ensure(eq(p64.pos, 64) and eq(p64.data.length, 4), 'thorough.count_patch_at_byte_64')
                f = p64.data if isinstance(p64.data, BM.Packed) else getattr(p64.data, 'field', lambda *_: None)(0, 4)
                c.ensure(mk_bool(isinstance(f, BM.Packed)) and eq(f.value, len(kept)), 'thorough.count_patch_is_the_number_of_arrays_written')
                c.ensure(eq(p980.pos, 980) and eq(p980.data.length, 1068), 'thorough.table_patch_at_byte_980')
                org = getattr(p980.data, 'origin', None)
                ok = bool(org) and org[0] == 'hwtable' and all(org[1][k] is hwi.fields['table'][k] or org[1][k] == hwi.fields['table'][k] for k in TF)
                c.ensure(mk_bool(ok), 'thorough.table_patch_is_the_final_table')
                # C18: the in-place patches come before the first appended footer byte
                if appended:
                    first_app = ws.index(appended[0])
                    c.ensure(mk_bool(all(ws.index(p) < first_app for p in patches)), 'thorough.patches_precede_the_footer_arrays')
        else:
            c.ensure(mk_bool(len(patches) == 0), 'no_in_place_patch')
            c.ensure(mk_bool(kept == list(self.KEYS)), 'all_arrays_kept')
        footer_obligations(c, appended, [a['_arrays'][k] for k in kept], nT, a['_foot0'])


def O_i32(v):
    c = cur()
    c.assume_raw(z3.And(zint(v) >= -2 ** 31, zint(v) < 2 ** 31))
    return v


for _d in ('heuristic', 'thorough', 'exhaustive', 'strip'):
    fuc('conversion.py::SeismicFileConverter.write_headers', props=['C04', 'C18', 'C03'])(type('WriteHeadersSegy_' + _d, (WriteHeadersSegy,), dict(detection=_d, variant=_d)))


class WriteHeadersNumpy(Contract):
    """NumpyConverter.write_headers: every array of headers_dict, in order, as int32 at the reader's stride -- whatever integer
    dtype the caller's arrays have (values within int32, as every SEG-Y header word is)"""
    dtypes = ('int32', 'int32')
    may_raise = ()
    KEYS = (189, 193)

    def inputs(self, c):
        prog = c.ex.prog
        nI = c.sym_int('nI', lo=1, name='n_ilines'); nX = c.sym_int('nX', lo=1, name='n_xlines')
        c.assume(lt(mul(nI, nX), 2 ** 29))
        t = blank_table()
        hd = {}
        for k, dt in zip(self.KEYS, self.dtypes):
            t[k] = (0, k)
            g = z3.Function(f'hdrarr{k}', z3.IntSort(), z3.IntSort(), z3.IntSort())
            hd[k] = SArray((nI, nX), (lambda gg: (lambda idx: O_i32(mk_int(gg(zint(idx[0]), zint(idx[1]))))))(g), dt)
        hwi = mk_hwi(c, prog, t, hd, None)
        foot0 = c.sym_int('foot0', lo=2 * BLK, name='end_of_data_section')
        out = IO.new_file(('out', 0), 'wb', 'out.sgz')
        out.fields['pos'] = foot0
        return dict(header_info=hwi, out_filehandle=out, _nT=mul(nI, nX), _foot0=foot0, _arrays=dict(hd))

    def call_args(self, a):
        return [a['header_info'], a['out_filehandle']], {}, None

    def post(self, c, a, result):
        ws = list(c.ghost.get('writes', []))
        footer_obligations(c, ws, [a['_arrays'][k] for k in self.KEYS], a['_nT'], a['_foot0'])


for _dt in (('int32', 'int32'), ('int64', 'int64'), ('int16', 'int64')):
    fuc('conversion.py::NumpyConverter.write_headers', props=['C04', 'C03'])(type('WriteHeadersNumpy_' + '_'.join(_dt), (WriteHeadersNumpy,), dict(dtypes=_dt, variant='dtypes=' + ','.join(_dt))))


class NumpyConverterInit(Contract):
    """NumpyConverter.__init__: trace_headers = the caller's arrays plus default inline / crossline arrays when absent
    (value [i, x] = ilines[i] / xlines[x]), ordered by ascending field code -- the order in which the reader assigns footer offsets"""
    given = ()
    may_raise = ()

    def inputs(self, c):
        prog = c.ex.prog
        nI = c.sym_int('nI', lo=2, name='n_ilines'); nX = c.sym_int('nX', lo=2, name='n_xlines'); nZ = c.sym_int('nZ', lo=2, name='n_samples')
        from .c_producers import src
        data = SArray((nI, nX, nZ), lambda idx: src(idx[0], idx[1], idx[2]), 'float32')
        th = {}
        for k in self.given:
            g = z3.Function(f'userhdr{k}', z3.IntSort(), z3.IntSort(), z3.IntSort())
            th[k] = SArray((nI, nX), (lambda gg: (lambda idx: O_i32(mk_int(gg(zint(idx[0]), zint(idx[1]))))))(g), 'int32')
        me = SObj(prog.klass('NumpyConverter'), {})
        return dict(self=me, data_array=data, ilines=None, xlines=None, samples=None, trace_headers=th, _n=(nI, nX, nZ), _given=dict(th))

    def post(self, c, a, result):
        me = a['self']
        th = me.fields.get('trace_headers')
        c.ensure(mk_bool(isinstance(th, dict)), 'trace_headers_is_a_dict')
        if not isinstance(th, dict):
            return
        ks = [int(k) for k in th.keys()]
        c.ensure(mk_bool(set(ks) == set(self.given) | {189, 193}), 'fields_are_the_given_ones_plus_inline_and_crossline')
        c.ensure(mk_bool(ks == sorted(ks)), 'fields_in_ascending_code_order')
        nI, nX, nZ = a['_n']
        e = (c.sym_int('hi', lo=0, name='inline_index'), c.sym_int('hx', lo=0, name='crossline_index'))
        c.assume(lt(e[0], nI), lt(e[1], nX))
        il, xl = me.fields.get('ilines'), me.fields.get('xlines')
        for k in ks:
            arr = th[k]
            c.ensure(mk_bool(isinstance(arr, SArray) and len(arr.shape) == 2) and And(eq(arr.shape[0], nI), eq(arr.shape[1], nX)), f'field{k}.one_value_per_trace')
            if k in self.given:
                c.ensure(eq(arr.fn(e), a['_given'][k].fn(e)), f'field{k}.is_the_array_given')
            elif k == 189:
                c.ensure(eq(arr.fn(e), il.fn((e[0],))), 'field189.default_is_the_inline_number_of_the_trace')
            elif k == 193:
                c.ensure(eq(arr.fn(e), xl.fn((e[1],))), 'field193.default_is_the_crossline_number_of_the_trace')
        c.ensure(mk_bool(isinstance(il, SArray)) and eq(il.fn((e[0],)), e[0]) if 189 not in self.given else True, 'ilines.default_axis_is_0_to_n')


for _g in ((), (193,), (181,), (197,), (1, 197)):
    fuc('conversion.py::NumpyConverter.__init__', props=['C04'])(type('NumpyConverterInit_' + '_'.join(map(str, _g)), (NumpyConverterInit,), dict(given=_g, variant='given=' + ','.join(map(str, _g)))))


# ---------------------------------------------------------------------------------------------
# SEG-Y file header (3200 textual + 400 binary bytes) copied verbatim into the second header block

class MakeHeaderCallSite(Contract):
    """call-site view of make_header (MakeHeader contracts): an 8 KiB bytearray"""
    only_in = ('make_header_seismic_file',)
    modular_use = True
    exact_result = True
    variant = 'call-site view'

    def verify(self, interp, prog, timeout_ms=None):
        from pyvc.smt import Explorer
        ex = Explorer(self.fuc_name()); ex.contract = self; ex.prog = prog
        ex.note_outcome('call-site view of the contract verified in c_header.MakeHeader')
        return ex, prog.function(self.key)

    def fresh_result(self, c, a):
        b = BM.SByteArray(BM.junk_bytes(2 * BLK, 'make_header'))
        c.ghost['make_header_result'] = b
        return b


fuc('conversion_utils.py::make_header', props=[], modular=True)(MakeHeaderCallSite)


class MakeHeaderSeismicFile(Contract):
    """bytes 4096..7696 of the SGZ header = the first 3600 bytes of the SEG-Y file; source code word 76, detection code word 80;
    everything else as make_header left it"""
    detection = 'heuristic'
    may_raise = ()

    def inputs(self, c):
        from pyvc.stdlib import EnumMember
        prog = c.ex.prog
        nI = c.sym_int('nI', lo=2, name='n_ilines'); nX = c.sym_int('nX', lo=2, name='n_xlines'); nZ = c.sym_int('nZ', lo=2, name='n_samples')
        seg = MX.mk_segy(c, nI, nX, nZ)
        seg.fields['filetype'] = EnumMember('Filetype', 'SEGY', 0)
        geom = SObj(prog.klass('Geometry3d'), dict(ilines=MX.SRange(0, nI, 1), xlines=MX.SRange(0, nX, 1)))
        hwi = mk_hwi(c, prog, blank_table(), {}, self.detection)
        return dict(seismicfile=seg, bits_per_voxel=4, blockshape=(4, 4, 512), geom=geom, header_info=hwi)

    def post(self, c, a, result):
        c.ensure(mk_bool(result is c.ghost.get('make_header_result')), 'returns_the_make_header_buffer')
        q = c.sym_int('fq', lo=0, hi=3599, name='file_header_byte')
        t = result.tok(add(BLK, q))
        c.ensure(mk_bool(z3.And(t.zk() == 5, t.zo() == zint(q))), 'segy_file_header_bytes_copied_verbatim')
        evs = [e for e in c.ghost.get('reads', [])]
        c.ensure(mk_bool(len(evs) == 1) and And(eq(evs[0].off, 0), eq(evs[0].n, 3600)), 'reads_the_3600_header_bytes_once', kind='ghost')
        for off, want, lab in ((76, 0, 'source_code_is_SEGY'), (80, {'heuristic': 0, 'thorough': 10, 'exhaustive': 20, 'strip': 30}[self.detection], 'detection_code')):
            f = result.field(off, off + 4)
            c.ensure(mk_bool(isinstance(f, BM.Packed)) and eq(f.value, want), f'word{off}.{lab}')
        p = c.sym_int('op', lo=0, hi=2 * BLK - 1, name='other_byte')
        c.assume(Or(lt(p, 76), And(ge(p, 84), lt(p, BLK)), ge(p, BLK + 3600)))
        t2 = result.tok(p)
        c.ensure(mk_bool(t2.zk() == BM.K_JUNK), 'all_other_bytes_as_make_header_left_them')


for _d in ('heuristic', 'thorough', 'exhaustive', 'strip'):
    fuc('conversion_utils.py::make_header_seismic_file', props=['C04', 'C03'])(type('MakeHeaderSeismicFile_' + _d, (MakeHeaderSeismicFile,), dict(detection=_d, variant=_d)))
