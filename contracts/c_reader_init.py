"""Contract on SgzReader.__init__: for a conforming file the constructor leaves the object in exactly the state the read contracts
assume (contracts.objects.mk_reader / mk_loader) -- this discharges the 'reader state as established by __init__' assumption
of C02/C07/C14/C17 for the file-handle route, and carries C03/C05/C09 (2-D branch) on the reader side."""
import z3
from fractions import Fraction

from pyvc.contract import fuc, Contract
from pyvc.values import (And, Or, Not, Implies, Iff, Ite, Min, Max, ops_binop, ops_cmp, mk_bool, mk_int, mk_float, zint, zbool, zreal,
                         SInt, SObj, STok, is_sym, Unsupported, cur)
from pyvc.npmodel import SArray, wrap_int
from pyvc import bytesmodel as BM
from pyvc import models_io as IO
from . import spec as S
from . import objects as O
from .c_loader import register, CFG_DEFAULT, CFG_ZSLICE, CFG_GENERAL, ALL2, ALL3, add, sub, mul, fdiv, mod, eq, le, lt, ge, gt, BLK
from .c_header import hdr_u32, hdr_s32

RI = 'read.py::SgzReader.'


class _Assumed(Contract):
    modular_use = True
    exact_result = True
    variant = 'call-site view'

    def verify(self, interp, prog, timeout_ms=None):
        from pyvc.smt import Explorer
        ex = Explorer(self.fuc_name()); ex.contract = self; ex.prog = prog
        ex.note_outcome('call-site view (the function has its own contract)')
        return ex, prog.function(self.key)


class FileVersionView(_Assumed):
    """get_file_version() per VersionFromInt: the version whose encoding is header word 72"""
    only_in = ('SgzReader.__init__',)
    def fresh_result(self, c, a):
        prog = c.ex.prog
        M = c.sym_int('fvM', lo=0, hi=2047, name='file_version.major'); m = c.sym_int('fvm', lo=0, hi=1023, name='file_version.minor')
        p = c.sym_int('fvp', lo=0, hi=1023, name='file_version.patch'); dev = c.sym_bool('fvdev', name='file_version.dev')
        enc = S.enc_version(M, m, p, dev)
        c.assume(eq(enc, hdr_u32(72)))
        o = SObj(prog.klass('SeismicZfpVersion'), dict(major=M, minor=m, patch=p, changes_exist=dev, encoding=enc))
        c.ghost['file_version'] = (M, m, p, dev)
        return o


fuc(RI + 'get_file_version', props=[], modular=True)(FileVersionView)


class TemplateView(_Assumed):
    """_decode_traceheader_template() per HwiInitBuffer + GetHeaderDict: some template dict"""
    only_in = ('SgzReader.__init__',)
    def fresh_result(self, c, a):
        # a template as get_header_dict builds it for a heuristic-mode table: two stored arrays (fields 1 and 189), a constant (5), an absent
        # field (193) and a DUPLICATED header word (181 carries the same values as 1: both entries hold the offset of the one array)
        from pyvc.symex import TaggedInt
        o0 = c.sym_int('tpl_off0', lo=0, name='offset_of_stored_array_0')
        o1 = c.sym_int('tpl_off1', lo=0, name='offset_of_stored_array_1')
        c.assume(lt(o0, o1))
        first = TaggedInt(o0, 'FileOffset')
        t = {1: first, 5: c.sym_int('tpl_const5', name='constant_field_value'), 181: first, 189: TaggedInt(o1, 'FileOffset'), 193: 0}
        c.ghost['template'] = t
        return t


fuc(RI + '_decode_traceheader_template', props=[], modular=True)(TemplateView)


class CoordsView(_Assumed):
    """_parse_coordinates() per ParseCoordinates"""
    only_in = ('SgzReader.__init__',)
    def fresh_result(self, c, a):
        r = ('<zslices>', '<xlines>', '<ilines>')
        return r


fuc(RI + '_parse_coordinates', props=[], modular=True)(CoordsView)


class CacheSizeView(_Assumed):
    """get_chunk_cache_size: some positive int (value only affects caching: C15)"""
    only_in = ('SgzReader.__init__',)
    def fresh_result(self, c, a):
        return c.sym_int('cache_size', lo=2, name='chunk_cache_size')


fuc('utils.py::get_chunk_cache_size', props=[], modular=True)(CacheSizeView)


class ReaderInit(Contract):
    cfg = None
    two_d = False
    preload = False
    irregular = False
    legacy = False
    fault = False            # C17/C18: any range read may fail or come back short (a truncated file is one such environment)
    may_raise = ()

    def inputs(self, c):
        prog = c.ex.prog
        if self.fault:
            c.ghost['io_mode'] = 'faulty'
        g = O.mk_geo(c, 'general', self.two_d, cfg=self.cfg)
        f = IO.new_file(BM.K_FILE, 'rb', '<sgz>')
        me = SObj(prog.klass('SgzReader'), {})
        rate, b = self.cfg
        fr = Fraction(rate)
        code = int(rate) if rate >= 1 else -int(1 / fr)
        grid = g.nT if self.two_d else mul(g.nI, g.nX)
        # Conf(F): the header words of a conforming file of geometry g (make_header contracts)
        bw = (0, 0, 0) if self.legacy else b          # files written before the blockshape words existed carry zeros there: 4 x 4 x (2048 / rate)
        conf = [eq(hdr_u32(0), 2), eq(hdr_u32(4), g.nZ), eq(hdr_s32(40), code), eq(hdr_u32(44), bw[0]), eq(hdr_u32(48), bw[1]), eq(hdr_u32(52), bw[2]),
                eq(hdr_u32(56), g.diskblocks), eq(hdr_u32(60), mul(4, grid)), ge(hdr_u32(64), 0), le(hdr_u32(64), 89), ge(hdr_u32(28), 1)]
        if self.two_d:
            # 2-D files exist since the trace-count word exists (written by versions after 0.2.1: encoding > enc(0.2.1) = 4099)
            conf += [eq(hdr_u32(8), 0), eq(hdr_u32(12), 0), eq(hdr_u32(68), g.nT), gt(hdr_u32(72), 4099)]
            tc = g.nT
        else:
            conf += [eq(hdr_u32(8), g.nX), eq(hdr_u32(12), g.nI)]
            if self.irregular:
                tc = c.sym_int('tracecount', lo=1, name='tracecount')
                c.assume(lt(tc, grid))
            else:
                tc = grid
            conf.append(eq(hdr_u32(68), tc))
        c.assume(*conf)
        c.assume(lt(g.nZ, 2 ** 29), lt(grid, 2 ** 29))
        return dict(self=me, file=f, filetype_checking=False, preload=self.preload, chunk_cache_size=None, _g=g, _tc=tc, _grid=grid)

    def may_raise_at(self, c, a):
        # preload refuses volumes larger than the machine memory (environment): RuntimeError
        r = ('RuntimeError',) if self.preload else ()
        if self.fault:
            r = r + ('OSError',)          # a failed / short header or preload read surfaces as OSError (check_range_length)
        return r

    def post(self, c, a, result):
        me, g = a['self'], a['_g']
        F = me.fields
        M, m, p, dev = c.ghost['file_version']
        newer = S.version_lex_lt((0, 2, 1, False), (M, m, p, dev))
        grid, tc = a['_grid'], a['_tc']
        alen = mul(4, grid)
        want = dict(n_header_blocks=2, n_samples=g.nZ, n_xlines=(0 if self.two_d else g.nX), n_ilines=(0 if self.two_d else g.nI),
                    is_2d=self.two_d, is_3d=not self.two_d, compressed_data_diskblocks=g.diskblocks, data_start_bytes=2 * BLK,
                    unit_bytes=g.ub, block_bytes=BLK, chunk_bytes=mul(BLK, g.G[2]), header_entry_length_bytes=alen, local=True, mask=None,
                    include_padding=None)
        for k, v in want.items():
            got = F.get(k, '<missing>')
            if v is None:
                c.ensure(mk_bool(got is None), f'state.{k}')
            elif isinstance(v, bool):
                c.ensure(mk_bool(not isinstance(got, str)) and Iff(got, v), f'state.{k}')
            else:
                c.ensure(mk_bool(not isinstance(got, str)) and eq(got, v), f'state.{k}')
        c.ensure(mk_bool(zreal(F.get('rate')) == zreal(g.rate)), 'state.rate')
        for k in range(3):
            c.ensure(eq(F['blockshape'][k], g.b[k]), f'state.blockshape[{k}]')
            c.ensure(eq(F['shape_pad'][k], g.P[k]), f'state.shape_pad[{k}]')
        # version-gated fields: trace count word and 512-byte footer stride exist from 0.2.2 on
        c.ensure(Implies(newer, eq(F['tracecount'], tc)), 'state.tracecount_from_word_68_after_0.2.1')
        c.ensure(Implies(Not(newer), eq(F['tracecount'], mul(F['n_ilines'], F['n_xlines']))), 'state.tracecount_is_the_grid_up_to_0.2.1')
        c.ensure(Implies(newer, eq(F['padded_header_entry_length_bytes'], mul(512, S.ceil_div(alen, 512)))), 'state.footer_stride_512_padded_after_0.2.1')
        c.ensure(Implies(Not(newer), eq(F['padded_header_entry_length_bytes'], alen)), 'state.footer_stride_unpadded_up_to_0.2.1')
        st = F.get('structured')
        if self.two_d:
            c.ensure(mk_bool(st is False), 'state.structured_false_for_2d')
        else:
            c.ensure(Implies(newer, Iff(st, eq(tc, grid))), 'state.structured_iff_every_grid_position_has_a_trace')
        c.ensure(mk_bool(F.get('variant_headers') == {}), 'state.no_header_arrays_loaded')
        # every later read (samples without preload, trace headers and header arrays with or without it) goes through this handle (C15:
        # the same results with preload on and off)
        c.ensure(mk_bool(a['file'].fields.get('closed') is False), 'state.file_handle_left_open_for_later_reads')
        c.ensure(mk_bool(F.get('segy_traceheader_template') is c.ghost.get('template')), 'state.template_from_the_header_table')
        # one key per stored ARRAY, in file order: a duplicated header word (181) shares the array of the field it duplicates and owns none
        # (the cropper and the re-blocker write one footer array per entry of this list: C10 / C12)
        c.ensure(mk_bool(F.get('stored_header_keys') == [1, 189]), 'state.stored_keys_one_per_stored_array_in_file_order')
        hb = F.get('headerbytes')
        q = c.sym_int('hq', lo=0, hi=2 * BLK - 1, name='header_byte')
        t = hb.tok(q)
        c.ensure(eq(hb.length, 2 * BLK) and mk_bool(z3.And(t.zk() == BM.K_FILE, t.zo() == zint(q))), 'state.headerbytes_are_the_first_two_blocks')
        if self.two_d:
            zs = F.get('zslices')
            c.ensure(mk_bool(isinstance(zs, SArray)) and eq(zs.shape[0], g.nZ), 'zslices.count')
            k = c.sym_int('kz', lo=0, name='sample_index')
            c.assume(lt(k, g.nZ))
            c.ensure(mk_bool(zreal(zs.fn((k,))) == zreal(hdr_s32(16)) + zreal(k) * zreal(hdr_u32(28)) / 1000), 'zslices.value_first_sample_plus_k_microsecond_interval')
        # loader: same geometry, same handle
        ld = F.get('loader')
        c.ensure(mk_bool(isinstance(ld, SObj) and ld.cls is not None and ld.cls.name == ('SgzLoader2d' if self.two_d else 'SgzLoader3d')), 'loader.class')
        if isinstance(ld, SObj):
            L = ld.fields
            lw = dict(data_start_bytes=2 * BLK, compressed_data_diskblocks=g.diskblocks, chunk_bytes=mul(BLK, g.G[2]), block_bytes=BLK, unit_bytes=g.ub,
                      n_workers=1)
            for k, v in lw.items():
                c.ensure(eq(L.get(k), v), f'loader.{k}')
            c.ensure(mk_bool(L.get('file') is a['file'] and L.get('local') is True), 'loader.same_handle')
            for k in range(3):
                c.ensure(And(eq(L['shape_pad'][k], g.P[k]), eq(L['blockshape'][k], g.b[k]), eq(L['block_dims'][k], g.G[k])), f'loader.geometry[{k}]')
            cv = L.get('compressed_volume')
            if self.preload:
                ok = isinstance(cv, BM.BytesBase)
                c.ensure(mk_bool(ok), 'loader.preload_holds_the_data_section')
                if ok:
                    qq = c.sym_int('pq', lo=0, name='data_byte')
                    c.assume(lt(qq, mul(BLK, g.diskblocks)))
                    tt = cv.tok(qq)
                    c.ensure(eq(cv.length, mul(BLK, g.diskblocks)) and mk_bool(z3.And(tt.zk() == BM.K_FILE, tt.zo() == zint(add(2 * BLK, qq)))), 'loader.preload_bytes_are_the_data_section')
            else:
                c.ensure(mk_bool(cv is None), 'loader.no_preload')
        if self.fault:
            c.ensure(mk_bool(not c.ghost.get('fault')), 'fault.normal_return_implies_every_read_succeeded', kind='ghost')
        # open cost: the header, twice at most (first block, then both), plus the data section when preloading
        evs = c.ghost.get('reads', [])
        c.ensure(mk_bool(len(evs) == (3 if self.preload else 2)), 'reads.header_block_then_both_header_blocks', kind='ghost')


_c3 = [CFG_DEFAULT[3], CFG_DEFAULT[0], CFG_ZSLICE[0], CFG_GENERAL[5], [c_ for c_ in ALL3 if c_[0] == 0.5][0]]
for _cfg in _c3:
    for _pre in (False, True):
        for _irr in (False, True):
            if _irr and _pre:
                continue
            nm = f'{_cfg[0]}@{"x".join(map(str, _cfg[1]))}' + (',preload' if _pre else '') + (',irregular' if _irr else '')
            # the cropper (C10) and the re-blocker (C12) write one footer array per entry of stored_header_keys: they rely on this contract
            _more = ['C10', 'C12', 'C04'] if (_cfg is CFG_DEFAULT[3] and not _pre) else []   # C04: the template / stored keys every header read starts from
            fuc(RI + '__init__', props=['C02', 'C03', 'C07', 'C08' if _irr else 'C05', 'C15', 'C18'] + _more)(type('ReaderInit', (ReaderInit,), dict(cfg=_cfg, preload=_pre, irregular=_irr, variant=nm)))
for _cfg in (ALL2[0], ALL2[2], [c_ for c_ in ALL2 if c_[1][1] == 16][0]):
    nm = f'{_cfg[0]}@{"x".join(map(str, _cfg[1]))},2d'
    fuc(RI + '__init__', props=['C09', 'C03', 'C05', 'C15', 'C18'])(type('ReaderInit2d', (ReaderInit,), dict(cfg=_cfg, two_d=True, variant=nm)))
# preload is a promise of the 2-D reader too (C07: "with preload the data section is fetched exactly once and never again")
for _cfg in (ALL2[0], [c_ for c_ in ALL2 if c_[1][1] == 16][0]):
    nm = f'{_cfg[0]}@{"x".join(map(str, _cfg[1]))},2d,preload'
    fuc(RI + '__init__', props=['C07', 'C09'])(type('ReaderInit2d', (ReaderInit,), dict(cfg=_cfg, two_d=True, preload=True, variant=nm)))

for _cfg, _pre, _2d in ((CFG_DEFAULT[3], False, False), (CFG_DEFAULT[3], True, False), (ALL2[0], False, True)):
    nm = f'{_cfg[0]}@{"x".join(map(str, _cfg[1]))}' + (',preload' if _pre else '') + (',2d' if _2d else '') + ',fault'
    fuc(RI + '__init__', props=['C17', 'C18'])(type('ReaderInitFault', (ReaderInit,), dict(cfg=_cfg, preload=_pre, two_d=_2d, fault=True, variant=nm)))

for _cfg in [c_ for c_ in CFG_DEFAULT if c_[0] >= 1 and tuple(c_[1]) == (4, 4, 2048 // int(c_[0]))][:3]:
    nm = f'{_cfg[0]}@{"x".join(map(str, _cfg[1]))},blockshape words zero (oldest files)'
    fuc(RI + '__init__', props=['C02', 'C03'])(type('ReaderInitLegacy', (ReaderInit,), dict(cfg=_cfg, legacy=True, variant=nm)))
