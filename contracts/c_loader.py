"""Contracts on seismic_zfp/loader.py (C02 value, C07 read log, C14/C17 support).

Every loader function is verified against the abstract container of contracts/spec.py:
   result[a,b,c] == Vpad(base + (a,b,c))      (pointwise, skolem index; shapes exact)
   ghost reads: exactly the ranges the property allows, none twice, none outside the data section.
The value postconditions are what the read-method contracts (c_read.py) assume at their call sites.

Modularity: `_get_compressed_bytes` (the single choke point for range reads) and `read_chunk_range` are used by
contract at their call sites (precondition = range inside the data section; postcondition = provenance of the
returned bytes; effect = the read-log entries).  Each is verified against its own body, for the file and the
blob backend and with preload.

Configurations: rate and blockshape are fixed per variant (exhaustive case split over the valid settings of
the layout; each case is a proof for ALL cube shapes and ALL arguments).
"""
import os
import z3

from pyvc.contract import fuc, Contract
from pyvc.values import (And, Or, Not, Implies, Iff, Ite, Min, Max, ops_binop, ops_cmp, mk_bool, mk_int, zint, zbool,
                         SInt, SObj, STok, is_sym, Unsupported, cur)
from pyvc.npmodel import SArray
from pyvc import loops as L
from pyvc import bytesmodel as BM
from pyvc import models_io as IO
from . import spec as S
from . import objects as O
from . import ghost as GH

BLK = S.BLK
add, sub, mul, fdiv, mod = (lambda a, b: ops_binop('+', a, b)), (lambda a, b: ops_binop('-', a, b)), \
    (lambda a, b: ops_binop('*', a, b)), (lambda a, b: ops_binop('//', a, b)), (lambda a, b: ops_binop('%', a, b))
eq, le, lt, ge, gt = (lambda a, b: ops_cmp('==', a, b)), (lambda a, b: ops_cmp('<=', a, b)), \
    (lambda a, b: ops_cmp('<', a, b)), (lambda a, b: ops_cmp('>=', a, b)), (lambda a, b: ops_cmp('>', a, b))


def F(obj, name):
    return obj.fields[name]


def geo_of(a):
    return a['_g'] if '_g' in a else a['self'].geo


# ------------------------------------------------------------------ configurations

def cfg_name(cfg):
    r, b = cfg
    return f'{r}@{b[0]}x{b[1]}x{b[2]}'


ALL3 = S.valid3_pairs()
CFG_DEFAULT = [c for c in ALL3 if c[1][0] == 4 and c[1][1] == 4]
CFG_ZSLICE = [c for c in ALL3 if c[1][2] == 4 and not (c[1][0] == 4 and c[1][1] == 4)]
CFG_GENERAL = [c for c in ALL3 if not (c[1][0] == 4 and c[1][1] == 4)]
ALL2 = S.valid2_pairs()
CFG_2D_DEFAULT = [c for c in ALL2 if c[1][1] == 4]
CFG_2D_GENERAL = [c for c in ALL2 if c[1][1] != 4]


def quick_subset(cfgs):
    """configurations verified in the quick tier (thorough: all).  Kept: every rate at least once, equal and
    unequal inline/crossline extents in both orders, z-slice and non-z-slice block depths, smallest extents."""
    if len(cfgs) <= 12:
        return list(cfgs)
    keep = []
    seen = set()
    rates = set()
    for c in cfgs:
        r, b = c
        sig = (b[0] == b[1], b[0] < b[1], b[2] == 4, min(b) == 4, b[0] == 1)
        if sig not in seen or r not in rates:
            seen.add(sig)
            rates.add(r)
            keep.append(c)
    return keep


THOROUGH = os.environ.get('VERIF_TIER', 'quick') == 'thorough' or os.environ.get('PYVC_ALL_CFGS') == '1'
REG = []


def register(base, key, props, cfgs, modes=('file',), **attrs):
    """one contract variant per (configuration, mode); mode: file | preload | blob"""
    use = list(cfgs) if THOROUGH else quick_subset(cfgs)
    for cfg in use:
        for mode in modes:
            extra = dict(attrs)
            extra['cfg'] = cfg
            extra['preload'] = (mode == 'preload')
            extra['local'] = (mode not in ('blob', 'blob+fault'))
            extra['fault_mode'] = mode.endswith('fault')
            extra['variant'] = cfg_name(cfg) + ('' if mode == 'file' else '+' + mode) + (('+' + attrs['tag']) if 'tag' in attrs else '')
            cls = type(f'{base.__name__}_{len(REG)}', (base,), extra)
            REG.append(cls)
            fuc(key, props=props, modular=getattr(base, 'modular_use', False) and cfg == use[0] and mode == modes[0])(cls)


def faulty(c):
    return c.ghost.get('io_mode') == 'faulty'


class LoaderContract(Contract):
    exact_result = True          # result() is the exact functional postcondition; post() is checked when verifying
    fault_mode = False           # C17 variants: the backend may raise or return short on any range read

    def may_raise_at(self, c, a):
        # a range read on behalf of this call may fail: then the call raises (what C17 demands; verified per function)
        return ('OSError',) if faulty(c) else ()

    def on_env_raise(self, c, a, cls):
        c.ghost['fault'] = True

    def check_no_fault(self, c):
        """C17: on normal return no range read failed or came back short"""
        if self.fault_mode:
            c.ensure(mk_bool(not c.ghost.get('fault')), 'fault.normal_return_implies_every_read_succeeded', kind='ghost')
    layout = 'default'
    two_d = False
    preload = False
    local = True
    cfg = None
    may_raise = ()

    def base_inputs(self, c):
        if self.fault_mode:
            c.ghost['io_mode'] = 'faulty'
        g = O.mk_geo(c, layout=self.layout, two_d=self.two_d, cfg=self.cfg)
        ld = O.mk_loader(c, c.ex.prog, g, preload=self.preload, local=self.local)
        return g, ld

    def data_off(self, g, blk):
        """file offset of data block number blk"""
        return add(g.data_start, mul(BLK, blk))

    def ghost_common(self, c, g, label='reads'):
        """reads lie in the data section and no byte is fetched twice; with preload nothing is read at all"""
        self.check_no_fault(c)
        if self.preload:
            GH.require_read_count(c, 0, 'preload_noreads')
            return
        GH.require_reads_within(c, self.data_off(g, 0), self.data_off(g, g.diskblocks), f'{label}.in_data_section')
        GH.require_reads_disjoint(c, f'{label}.no_byte_twice')

    def family_exact(self, c, ev, off_of_k, n_expected, label):
        ks = [SInt(kz) for (kz, n) in ev.loopvars]
        c.ensure(And(eq(ev.off, off_of_k(*ks)), eq(ev.n, n_expected)), label, kind='ghost')


def no_swallowed(c, label='pool.no_exception_swallowed'):
    """every exception raised inside a pool task has surfaced (C17: failures are reported)"""
    c.ensure(mk_bool(len(c.ghost.get('swallowed', [])) == 0), label, kind='ghost')


def spec_array(shp, fn):
    """array value of a loader result at call sites: shape + pointwise spec"""
    return SArray(tuple(shp), lambda idx: fn(*idx), 'float32')


def log_unless_preloaded(c, a, off, n, extra=()):
    if F(a['self'], 'compressed_volume') is None:
        IO.log_read(c, BM.K_FILE, off, n, extra_loopvars=list(extra))


def fresh_index(c, n, base):
    k = c.fresh_int(base)
    c.assume_raw(z3.And(k >= 0, k < zint(n)))
    c.nonneg_ids.add(k.get_id())
    return k


def check_array(c, result, shp):
    c.ensure(mk_bool(isinstance(result, SArray) and len(result.shape) == len(shp)), 'is_array')
    c.ensure(And(*[eq(x, y) for x, y in zip(result.shape, shp)]), 'shape')


# ---------------------------------------------------------------------------------------------
# _get_compressed_bytes: the single choke point

class GetCompressedBytes(LoaderContract):
    """returns exactly the `length_bytes` bytes of the data section at `offset`; issues one backend read of
    exactly that range (none with preload)"""
    modular_use = True

    def inputs(self, c):
        g, ld = self.base_inputs(c)
        return dict(self=ld, offset=c.sym_int('offset', name='offset'), length_bytes=c.sym_int('len', name='length_bytes'), _g=g)

    def pre(self, c, a):
        g = geo_of(a)
        total = mul(g.diskblocks, BLK)
        return [ge(a['offset'], 0), ge(a['length_bytes'], 0), le(add(a['offset'], a['length_bytes']), total)]

    def result(self, c, a):
        g = geo_of(a)
        return BM.file_bytes(BM.K_FILE, add(g.data_start, a['offset']), a['length_bytes'])

    def effects(self, c, a, result):
        g = geo_of(a)
        if F(a['self'], 'compressed_volume') is None:
            IO.log_read(c, BM.K_FILE, add(g.data_start, a['offset']), a['length_bytes'])

    def post(self, c, a, result):
        g = geo_of(a)
        if c.mode != 'verify':
            return
        self.check_no_fault(c)
        c.ensure(mk_bool(isinstance(result, BM.BytesBase)), 'is_bytes')
        c.ensure(eq(result.length, a['length_bytes']), 'length')
        q = c.sym_int('q', lo=0, name='byte_pos')
        c.assume(lt(q, a['length_bytes']))
        t = result.tok(q)
        c.ensure(And(mk_bool(t.zk() == BM.K_FILE), mk_bool(t.zo() == zint(add(add(g.data_start, a['offset']), q)))), 'provenance')
        if self.preload:
            GH.require_read_count(c, 0, 'preload_noreads')
        else:
            GH.require_read_count(c, 1, 'one_backend_read')
            ev = GH.reads(c)[0]
            c.ensure(And(eq(ev.off, add(g.data_start, a['offset'])), eq(ev.n, a['length_bytes'])),
                     'read_is_exactly_the_range', kind='ghost')


register(GetCompressedBytes, 'loader.py::SgzLoader._get_compressed_bytes', ['C02', 'C07', 'C17'],
         [CFG_DEFAULT[3], CFG_ZSLICE[0]], modes=('file', 'preload', 'blob', 'fault', 'blob+fault'))


# ---------------------------------------------------------------------------------------------
# default layout (4,4,N)

class IlSet(LoaderContract):
    layout = 'default'
    modular_use = True

    def result(self, c, a):
        g = geo_of(a)
        return spec_array((4, g.P[1], g.P[2]), lambda e0, e1, e2: O.Vpad(g, add(a['i'], e0), e1, e2))

    def effects(self, c, a, result):
        g = geo_of(a)
        per = mul(g.G[1], g.G[2])
        log_unless_preloaded(c, a, self.data_off(g, mul(fdiv(a['i'], 4), per)), mul(BLK, per))

    def inputs(self, c):
        g, ld = self.base_inputs(c)
        return dict(self=ld, i=c.sym_int('i', name='i'), _g=g)

    def pre(self, c, a):
        g = geo_of(a)
        return [ge(a['i'], 0), lt(a['i'], g.P[0]), eq(mod(a['i'], 4), 0)]

    def post(self, c, a, result):
        g = geo_of(a)
        shp = (4, g.P[1], g.P[2])
        check_array(c, result, shp)
        e = O.skolem_index(c, shp)
        c.ensure(result.fn(e) == O.Vpad(g, add(a['i'], e[0]), e[1], e[2]), 'elem')
        self.ghost_common(c, g)
        if not self.preload:
            GH.require_read_count(c, 1, 'reads.one_range')
            grp = fdiv(a['i'], 4)
            per = mul(g.G[1], g.G[2])
            ev = GH.reads(c)[0]
            c.ensure(And(eq(ev.off, self.data_off(g, mul(grp, per))), eq(ev.n, mul(BLK, per))),
                     'reads.exactly_the_blocks_of_the_inline_group', kind='ghost')


register(IlSet, 'loader.py::SgzLoader3d.read_and_decompress_il_set', ['C02', 'C07'], CFG_DEFAULT, modes=('file', 'preload'))


class XlSet(LoaderContract):
    layout = 'default'
    modular_use = True

    def result(self, c, a):
        g = geo_of(a)
        return spec_array((g.P[0], 4, g.P[2]), lambda e0, e1, e2: O.Vpad(g, e0, add(a['x'], e1), e2))

    def effects(self, c, a, result):
        g = geo_of(a)
        if F(a['self'], 'compressed_volume') is None:
            k = fresh_index(c, g.G[0], 'xl_k')
            IO.log_read(c, BM.K_FILE, self.data_off(g, mul(add(mul(SInt(k), g.G[1]), fdiv(a['x'], 4)), g.G[2])), mul(BLK, g.G[2]),
                        extra_loopvars=[(k, g.G[0])])
    loops = {1: L.IndependentWrites(witness=lambda q, env: fdiv(q, F(env['self'], 'chunk_bytes')))}

    def inputs(self, c):
        g, ld = self.base_inputs(c)
        return dict(self=ld, x=c.sym_int('x', name='x'), _g=g)

    def pre(self, c, a):
        g = geo_of(a)
        return [ge(a['x'], 0), lt(a['x'], g.P[1]), eq(mod(a['x'], 4), 0)]

    def post(self, c, a, result):
        g = geo_of(a)
        shp = (g.P[0], 4, g.P[2])
        check_array(c, result, shp)
        e = O.skolem_index(c, shp)
        c.ensure(result.fn(e) == O.Vpad(g, e[0], add(a['x'], e[1]), e[2]), 'elem')
        no_swallowed(c)
        self.ghost_common(c, g)
        if not self.preload:
            GH.require_read_count(c, 1, 'reads.one_family')
            ev = GH.reads(c)[0]
            xg = fdiv(a['x'], 4)
            # iteration k fetches the G2 blocks of block column (k, x//4): exactly the blocks holding the 4 crosslines
            self.family_exact(c, ev, lambda k: self.data_off(g, mul(add(mul(k, g.G[1]), xg), g.G[2])), mul(BLK, g.G[2]),
                              'reads.exactly_the_blocks_of_the_crossline_group')
            c.ensure(eq(ev.loopvars[0][1], g.G[0]), 'reads.one_per_inline_group', kind='ghost')


register(XlSet, 'loader.py::SgzLoader3d.read_and_decompress_xl_set', ['C02', 'C07', 'C17'], CFG_DEFAULT, modes=('file', 'preload'))


class ZsliceSet(LoaderContract):
    layout = 'default'
    modular_use = True

    def result(self, c, a):
        g = geo_of(a)
        zbase = mul(4, fdiv(a['zslice_id'], 4))
        return spec_array((g.P[0], g.P[1], 4), lambda e0, e1, e2: O.Vpad(g, e0, e1, add(zbase, e2)))

    def effects(self, c, a, result):
        g = geo_of(a)
        if F(a['self'], 'compressed_volume') is None:
            ki = fresh_index(c, g.G[0], 'zs_i')
            kx = fresh_index(c, g.G[1], 'zs_x')
            IO.log_read(c, BM.K_FILE, add(g.data_start, O.spec_off(g, SInt(ki), SInt(kx), fdiv(a['zslice_id'], 4))), g.ub,
                        extra_loopvars=[(ki, g.G[0]), (kx, g.G[1])])
    loops = {1: L.IndependentWrites(witness=lambda q, env: fdiv(q, F(env['self'], 'unit_bytes')))}

    def inputs(self, c):
        g, ld = self.base_inputs(c)
        zid = c.sym_int('zid', name='zslice_id')
        return dict(self=ld, blocks_per_dim=g.G, zslice_first_block_offset=fdiv(zid, g.b[2]), zslice_id=zid, _g=g)

    def pre(self, c, a):
        g = geo_of(a)
        # established by the caller (read_zslice): 0 <= zslice_id < n_samples <= P2, blocks_per_dim = shape_pad // blockshape
        bpd = a['blocks_per_dim']
        return [ge(a['zslice_id'], 0), lt(a['zslice_id'], g.P[2]),
                mk_bool(isinstance(bpd, tuple) and len(bpd) == 3),
                And(*[eq(x, y) for x, y in zip(bpd, g.G)]) if isinstance(bpd, tuple) and len(bpd) == 3 else False,
                eq(a['zslice_first_block_offset'], fdiv(a['zslice_id'], g.b[2]))]

    def post(self, c, a, result):
        g = geo_of(a)
        shp = (g.P[0], g.P[1], 4)
        check_array(c, result, shp)
        e = O.skolem_index(c, shp)
        zbase = mul(4, fdiv(a['zslice_id'], 4))
        c.ensure(result.fn(e) == O.Vpad(g, e[0], e[1], add(zbase, e[2])), 'elem')
        no_swallowed(c)
        self.ghost_common(c, g)
        if not self.preload:
            GH.require_read_count(c, 1, 'reads.one_family')
            ev = GH.reads(c)[0]
            zu = fdiv(a['zslice_id'], 4)
            # iteration k (4x4 trace column k = (i/4)*G1 + x/4) fetches exactly the ub bytes of its cell at depth zu
            self.family_exact(c, ev, lambda k: add(g.data_start, O.spec_off(g, fdiv(k, g.G[1]), mod(k, g.G[1]), zu)), g.ub,
                              'reads.one_unit_per_trace_column')
            c.ensure(eq(ev.loopvars[0][1], mul(g.G[0], g.G[1])), 'reads.one_per_column', kind='ghost')


register(ZsliceSet, 'loader.py::SgzLoader3d.read_and_decompress_zslice_set', ['C02', 'C07', 'C17'], CFG_DEFAULT, modes=('file', 'preload'))


# ---- chunk range (default layout addressing; also used by the cropper) ------------------------------

def _rcr_w_i(q, env):
    return fdiv(q, mul(mul(env['xl_units'], env['z_units']), F(env['self'], 'unit_bytes')))


def _rcr_w_x(q, env):
    return mod(fdiv(q, mul(env['z_units'], F(env['self'], 'unit_bytes'))), env['xl_units'])


RCR = 'loader.py::SgzLoader3d.read_chunk_range'


class ReadChunkRange(LoaderContract):
    layout = 'default'
    modular_use = True
    loops = {1: L.IndependentWrites(witness=_rcr_w_i), 2: L.IndependentWrites(witness=_rcr_w_x)}
    NAMES = ('min_il', 'min_xl', 'min_z', 'il_units', 'xl_units', 'z_units')

    def inputs(self, c):
        g, ld = self.base_inputs(c)
        d = dict(self=ld, _g=g)
        for nm in self.NAMES:
            d[nm] = c.sym_int(nm, name=nm)
        return d

    def pre(self, c, a):
        g = geo_of(a)
        out = [mk_bool(g.layout == 'default')]
        for k, (m, u) in enumerate((('min_il', 'il_units'), ('min_xl', 'xl_units'), ('min_z', 'z_units'))):
            out += [ge(a[m], 0), ge(a[u], 1), le(add(fdiv(a[m], 4), a[u]), g.U[k])]
        return out

    def unit_off(self, g, a, ua, ub_, uc):
        return add(g.data_start, O.spec_off(g, add(fdiv(a['min_il'], 4), ua), add(fdiv(a['min_xl'], 4), ub_),
                                            add(fdiv(a['min_z'], 4), uc)))

    def result(self, c, a):
        g = geo_of(a)
        X, Z, ub = a['xl_units'], a['z_units'], g.ub
        total = mul(mul(mul(a['il_units'], X), Z), ub)

        def fn(q):
            row = mul(mul(X, Z), ub)
            ua = fdiv(q, row)
            r1 = mod(q, row)
            ub_ = fdiv(r1, mul(Z, ub))
            r2 = mod(r1, mul(Z, ub))
            uc = fdiv(r2, ub)
            j = mod(r2, ub)
            return BM.Tok(BM.K_FILE, add(self.unit_off(g, a, ua, ub_, uc), j))
        return BM.SByteArray(BM.SBytes(total, fn, origin=('contract', 'read_chunk_range')))

    def effects(self, c, a, result):
        g = geo_of(a)
        if F(a['self'], 'compressed_volume') is None:
            ki = c.fresh_int('rcr_i')
            kx = c.fresh_int('rcr_x')
            c.assume_raw(z3.And(ki >= 0, ki < zint(a['il_units']), kx >= 0, kx < zint(a['xl_units'])))
            c.nonneg_ids.update([ki.get_id(), kx.get_id()])
            IO.log_read(c, BM.K_FILE, self.unit_off(g, a, SInt(ki), SInt(kx), 0), mul(g.ub, a['z_units']),
                        extra_loopvars=[(ki, a['il_units']), (kx, a['xl_units'])])

    def post(self, c, a, result):
        if c.mode != 'verify':
            return
        g = geo_of(a)
        ub = g.ub
        c.ensure(mk_bool(isinstance(result, BM.BytesBase)), 'is_bytes')
        total = mul(mul(mul(a['il_units'], a['xl_units']), a['z_units']), ub)
        c.ensure(eq(result.length, total), 'length')
        ua = c.sym_int('ua', lo=0, name='unit_a'); ub_ = c.sym_int('ub_', lo=0, name='unit_b'); uc = c.sym_int('uc', lo=0, name='unit_c')
        j = c.sym_int('j', lo=0, name='byte_in_unit')
        c.assume(lt(ua, a['il_units']), lt(ub_, a['xl_units']), lt(uc, a['z_units']), lt(j, ub))
        pos = add(mul(add(mul(add(mul(ua, a['xl_units']), ub_), a['z_units']), uc), ub), j)
        t = result.tok(pos)
        want = add(self.unit_off(g, a, ua, ub_, uc), j)
        c.ensure(And(mk_bool(t.zk() == BM.K_FILE), mk_bool(t.zo() == zint(want))), 'provenance')
        self.ghost_common(c, g)
        if not self.preload:
            GH.require_read_count(c, 1, 'reads.one_family')
            ev = GH.reads(c)[0]
            self.family_exact(c, ev, lambda ki, kx: self.unit_off(g, a, ki, kx, 0), mul(ub, a['z_units']),
                              'reads.exactly_the_units_of_the_box')
            c.ensure(And(eq(ev.loopvars[0][1], a['il_units']), eq(ev.loopvars[1][1], a['xl_units'])), 'reads.one_per_unit_column', kind='ghost')


register(ReadChunkRange, RCR, ['C02', 'C07', 'C10'], CFG_DEFAULT, modes=('file', 'preload'))


class ChunkRange(LoaderContract):
    layout = 'default'
    multithreading = True
    modular_use = True

    def _units(self, a):
        return [sub(fdiv(add(a[hi], 3), 4), fdiv(a[lo], 4)) for lo, hi in (('min_il', 'max_il'), ('min_xl', 'max_xl'), ('min_z', 'max_z'))]

    def result(self, c, a):
        g = geo_of(a)
        units = self._units(a)
        base = [mul(4, fdiv(a[lo], 4)) for lo in ('min_il', 'min_xl', 'min_z')]
        return spec_array(tuple(mul(4, u) for u in units),
                          lambda e0, e1, e2: O.Vpad(g, add(base[0], e0), add(base[1], e1), add(base[2], e2)))

    def effects(self, c, a, result):
        g = geo_of(a)
        if F(a['self'], 'compressed_volume') is None:
            units = self._units(a)
            ki = fresh_index(c, units[0], 'cr_i')
            kx = fresh_index(c, units[1], 'cr_x')
            IO.log_read(c, BM.K_FILE, add(g.data_start, O.spec_off(g, add(fdiv(a['min_il'], 4), SInt(ki)), add(fdiv(a['min_xl'], 4), SInt(kx)), fdiv(a['min_z'], 4))),
                        mul(g.ub, units[2]), extra_loopvars=[(ki, units[0]), (kx, units[1])])
    loops = {1: L.IndependentWrites(witness=lambda idx, env: fdiv(idx[0], 4))}
    NAMES = ('max_il', 'max_xl', 'max_z', 'min_il', 'min_xl', 'min_z')

    def inputs(self, c):
        g, ld = self.base_inputs(c)
        d = dict(self=ld, _g=g, multithreading=self.multithreading)
        for nm in self.NAMES:
            d[nm] = c.sym_int(nm, name=nm)
        return d

    def pre(self, c, a):
        g = geo_of(a)
        out = []
        for k, (lo, hi) in enumerate((('min_il', 'max_il'), ('min_xl', 'max_xl'), ('min_z', 'max_z'))):
            out += [ge(a[lo], 0), lt(a[lo], a[hi]), le(a[hi], g.P[k])]
        return out

    def post(self, c, a, result):
        g = geo_of(a)
        units = [sub(fdiv(add(a[hi], 3), 4), fdiv(a[lo], 4)) for lo, hi in (('min_il', 'max_il'), ('min_xl', 'max_xl'), ('min_z', 'max_z'))]
        shp = tuple(mul(4, u) for u in units)
        check_array(c, result, shp)
        e = O.skolem_index(c, shp)
        base = [mul(4, fdiv(a[lo], 4)) for lo in ('min_il', 'min_xl', 'min_z')]
        c.ensure(result.fn(e) == O.Vpad(g, add(base[0], e[0]), add(base[1], e[1]), add(base[2], e[2])), 'elem')
        no_swallowed(c)
        self.ghost_common(c, g)
        if not self.preload:
            GH.require_read_count(c, 1, 'reads.one_family')
            ev = GH.reads(c)[0]
            # iteration (i,x): exactly the units [min_z//4, (max_z+3)//4) of unit column (min_il//4+i, min_xl//4+x)
            self.family_exact(c, ev, lambda ki, kx: add(g.data_start, O.spec_off(g, add(fdiv(a['min_il'], 4), ki), add(fdiv(a['min_xl'], 4), kx), fdiv(a['min_z'], 4))),
                              mul(g.ub, units[2]), 'reads.exactly_the_units_of_the_box')
            c.ensure(And(eq(ev.loopvars[0][1], units[0]), eq(ev.loopvars[1][1], units[1])), 'reads.one_per_unit_column_of_the_box', kind='ghost')


class ChunkRangeST(ChunkRange):
    multithreading = False


register(ChunkRange, 'loader.py::SgzLoader3d.read_and_decompress_chunk_range', ['C02', 'C07', 'C17'], CFG_DEFAULT, modes=('file', 'preload'), tag='mt')
register(ChunkRangeST, 'loader.py::SgzLoader3d.read_and_decompress_chunk_range', ['C02', 'C07', 'C17'], CFG_DEFAULT, modes=('file', 'preload'), tag='st')


class ChunkRangeHistory(ChunkRange):
    """C15 (history independence) for the multithreaded sub-volume read: the loader is built by executing its REAL __init__ (not the
    fabricated state the other variants start from), the method is called, and then called AGAIN on the same object with other
    arguments: the second call returns its own box of the decoded volume as well (no state left behind by the first read -- a pool,
    a handle, a buffer -- changes or prevents a later one)"""
    def inputs(self, c):
        from pyvc.values import SObj
        prog, interp = c.ex.prog, c.ex.interp
        g = O.mk_geo(c, layout=self.layout, two_d=False, cfg=self.cfg)
        f = O.new_input_file(c, local=True, prog=prog)
        me = SObj(prog.klass('SgzLoader3d'), {})
        from pyvc.values import PyRaise
        from pyvc.smt import CutPath
        try:
            interp.inline(prog.function('loader.py::SgzLoader.__init__'),
                          [f, g.data_start, g.diskblocks, g.P, g.b, mul(BLK, g.G[2]), BLK, g.ub, g.rate, True, self.preload], {}, me)
        except PyRaise:
            raise CutPath()          # preload refused for lack of memory (environment): no loader, nothing to read
        c.ghost['reads'] = []        # the I/O obligations below are about the reads of the CALLS, not the preload at construction
        me.geo = g
        d = dict(self=me, _g=g, multithreading=True)
        for nm in self.NAMES:
            d[nm] = c.sym_int(nm, name=nm)
        return d

    def post(self, c, a, result):
        ChunkRange.post(self, c, a, result)
        from pyvc.values import PyRaise
        g = geo_of(a)
        b = dict(self=a['self'], _g=g)
        for nm in self.NAMES:
            b[nm] = c.sym_int(nm + '_2', name='second_call.' + nm)
        c.assume(*self.pre(c, b))
        try:
            r2 = c.ex.interp.inline(c.ex.prog.function(self.key), [], dict({nm: b[nm] for nm in self.NAMES}, multithreading=True), a['self'])
        except PyRaise as e:
            c.ensure(False, f'history.second_read_on_the_same_loader_raises_{e.cls}')
            return
        units = [sub(fdiv(add(b[hi], 3), 4), fdiv(b[lo], 4)) for lo, hi in (('min_il', 'max_il'), ('min_xl', 'max_xl'), ('min_z', 'max_z'))]
        shp = tuple(mul(4, u) for u in units)
        ok = isinstance(r2, SArray) and len(r2.shape) == 3
        c.ensure(mk_bool(ok), 'history.second_read_returns_an_array')
        if ok:
            c.ensure(And(*[eq(r2.shape[k], shp[k]) for k in range(3)]), 'history.second_read_shape')
            e = O.skolem_index(c, shp, base='e2')
            base = [mul(4, fdiv(b[lo], 4)) for lo in ('min_il', 'min_xl', 'min_z')]
            c.ensure(r2.fn(e) == O.Vpad(g, add(base[0], e[0]), add(base[1], e[1]), add(base[2], e[2])), 'history.second_read_elem')


register(ChunkRangeHistory, 'loader.py::SgzLoader3d.read_and_decompress_chunk_range', ['C15'], [CFG_DEFAULT[3]], modes=('file', 'preload'), tag='history')


# ---- z-slice layout (N,M,4) ------------------------------------------------------------------------

def _adv_bi(q, env):
    bpd = env['blocks_per_dim']
    return fdiv(q, mul(F(env['self'], 'block_bytes'), bpd[1]))


def _adv_bx(q, env):
    bpd = env['blocks_per_dim']
    row = mul(F(env['self'], 'block_bytes'), bpd[1])
    sbs = env['sub_block_size_bytes']
    return fdiv(mod(mod(q, row), mul(sbs, bpd[1])), sbs)


def _adv_sub(q, env):
    bpd = env['blocks_per_dim']
    row = mul(F(env['self'], 'block_bytes'), bpd[1])
    sbs = env['sub_block_size_bytes']
    return fdiv(mod(q, row), mul(sbs, bpd[1]))


class ZsliceSetAdv(LoaderContract):
    layout = 'zslice'
    modular_use = True

    def result(self, c, a):
        g = geo_of(a)
        zbase = mul(4, a['zslice_first_block_offset'])
        return spec_array((g.P[0], g.P[1], 4), lambda e0, e1, e2: O.Vpad(g, e0, e1, add(zbase, e2)))

    def effects(self, c, a, result):
        g = geo_of(a)
        if F(a['self'], 'compressed_volume') is None:
            ki = fresh_index(c, g.G[0], 'za_i')
            kx = fresh_index(c, g.G[1], 'za_x')
            IO.log_read(c, BM.K_FILE, self.data_off(g, add(mul(add(mul(SInt(ki), g.G[1]), SInt(kx)), g.G[2]), a['zslice_first_block_offset'])), BLK,
                        extra_loopvars=[(ki, g.G[0]), (kx, g.G[1])])

    # the loop over block_id in range(G0*G1) is a flattened double loop: generic index (bi, bx) with block_id = bi*G1 + bx
    loops = {1: L.IndependentWrites(witness=lambda q, env: (_adv_bi(q, env), _adv_bx(q, env)),
                                    decompose=lambda env: (env['blocks_per_dim'][0], env['blocks_per_dim'][1])),
             ('loader.py::SgzLoader3d._distribute_chunk_into_buffer', 1): L.IndependentWrites(witness=_adv_sub, always=True)}

    def inputs(self, c):
        g, ld = self.base_inputs(c)
        zfbo = c.sym_int('zfbo', name='zslice_first_block_offset')
        return dict(self=ld, blocks_per_dim=g.G, zslice_first_block_offset=zfbo, _g=g)

    def pre(self, c, a):
        g = geo_of(a)
        bpd = a['blocks_per_dim']
        return [ge(a['zslice_first_block_offset'], 0), lt(a['zslice_first_block_offset'], g.G[2]),
                mk_bool(isinstance(bpd, tuple) and len(bpd) == 3),
                And(*[eq(x, y) for x, y in zip(bpd, g.G)]) if isinstance(bpd, tuple) and len(bpd) == 3 else False]

    def post(self, c, a, result):
        g = geo_of(a)
        shp = (g.P[0], g.P[1], 4)
        check_array(c, result, shp)
        e = O.skolem_index(c, shp)
        zbase = mul(4, a['zslice_first_block_offset'])
        c.ensure(result.fn(e) == O.Vpad(g, e[0], e[1], add(zbase, e[2])), 'elem')
        no_swallowed(c)
        self.ghost_common(c, g)
        if not self.preload:
            GH.require_read_count(c, 1, 'reads.one_family')
            ev = GH.reads(c)[0]
            # iteration (bi,bx) = one 64x64-style tile: exactly its one block at depth zfbo
            self.family_exact(c, ev, lambda bi, bx: self.data_off(g, add(mul(add(mul(bi, g.G[1]), bx), g.G[2]), a['zslice_first_block_offset'])),
                              BLK, 'reads.one_block_per_tile')
            c.ensure(And(eq(ev.loopvars[0][1], g.G[0]), eq(ev.loopvars[1][1], g.G[1])), 'reads.one_per_tile', kind='ghost')


register(ZsliceSetAdv, 'loader.py::SgzLoader3d.read_and_decompress_zslice_set_adv', ['C02', 'C07', 'C17'], CFG_ZSLICE, modes=('file', 'preload'))


# ---- general layout: block by block -------------------------------------------------------------------

class Unshuffle(LoaderContract):
    layout = 'general'
    modular_use = True

    def _blocks(self, g, a):
        pairs = (('min_il', 'max_il'), ('min_xl', 'max_xl'), ('min_z', 'max_z'))
        return [sub(fdiv(add(a[hi], g.b[k] - 1), g.b[k]), fdiv(a[lo], g.b[k])) for k, (lo, hi) in enumerate(pairs)]

    def result(self, c, a):
        g = geo_of(a)
        blocks = self._blocks(g, a)
        base = [mul(g.b[k], fdiv(a[lo], g.b[k])) for k, lo in enumerate(('min_il', 'min_xl', 'min_z'))]
        return spec_array(tuple(mul(g.b[k], blocks[k]) for k in range(3)),
                          lambda e0, e1, e2: O.Vpad(g, add(base[0], e0), add(base[1], e1), add(base[2], e2)))

    def effects(self, c, a, result):
        g = geo_of(a)
        if F(a['self'], 'compressed_volume') is None:
            blocks = self._blocks(g, a)
            ks = [fresh_index(c, blocks[k], f'us_{k}') for k in range(3)]
            bi = add(fdiv(a['min_il'], g.b[0]), SInt(ks[0]))
            bx = add(fdiv(a['min_xl'], g.b[1]), SInt(ks[1]))
            bz = add(fdiv(a['min_z'], g.b[2]), SInt(ks[2]))
            IO.log_read(c, BM.K_FILE, self.data_off(g, add(mul(add(mul(bi, g.G[1]), bx), g.G[2]), bz)), BLK,
                        extra_loopvars=[(ks[k], blocks[k]) for k in range(3)])

    loops = {1: L.IndependentWrites(witness=lambda idx, env: fdiv(idx[0], F(env['self'], 'blockshape')[0])),
             2: L.IndependentWrites(witness=lambda idx, env: fdiv(idx[1], F(env['self'], 'blockshape')[1])),
             3: L.IndependentWrites(witness=lambda idx, env: fdiv(idx[2], F(env['self'], 'blockshape')[2]))}
    NAMES = ChunkRange.NAMES

    def inputs(self, c):
        g, ld = self.base_inputs(c)
        d = dict(self=ld, _g=g)
        for nm in self.NAMES:
            d[nm] = c.sym_int(nm, name=nm)
        return d

    pre = ChunkRange.pre

    def post(self, c, a, result):
        g = geo_of(a)
        pairs = (('min_il', 'max_il'), ('min_xl', 'max_xl'), ('min_z', 'max_z'))
        blocks = [sub(fdiv(add(a[hi], g.b[k] - 1), g.b[k]), fdiv(a[lo], g.b[k])) for k, (lo, hi) in enumerate(pairs)]
        shp = tuple(mul(g.b[k], blocks[k]) for k in range(3))
        check_array(c, result, shp)
        e = O.skolem_index(c, shp)
        base = [mul(g.b[k], fdiv(a[lo], g.b[k])) for k, (lo, hi) in enumerate(pairs)]
        c.ensure(result.fn(e) == O.Vpad(g, add(base[0], e[0]), add(base[1], e[1]), add(base[2], e[2])), 'elem')
        self.ghost_common(c, g)
        if not self.preload:
            GH.require_read_count(c, 1, 'reads.one_family')
            ev = GH.reads(c)[0]

            def blk(ki, kx, kz):
                bi = add(fdiv(a['min_il'], g.b[0]), ki)
                bx = add(fdiv(a['min_xl'], g.b[1]), kx)
                bz = add(fdiv(a['min_z'], g.b[2]), kz)
                return self.data_off(g, add(mul(add(mul(bi, g.G[1]), bx), g.G[2]), bz))
            self.family_exact(c, ev, blk, BLK, 'reads.exactly_the_blocks_of_the_box')
            c.ensure(And(*[eq(ev.loopvars[k][1], blocks[k]) for k in range(3)]), 'reads.one_per_block_of_the_box', kind='ghost')


register(Unshuffle, 'loader.py::SgzLoader3d.read_unshuffle_and_decompress_chunk_range', ['C02', 'C07'], CFG_GENERAL, modes=('file', 'preload'))


# ---------------------------------------------------------------------------------------------
# 2-D loaders

class TraceRange2d(LoaderContract):
    """(1,4,M) layout: one group of 4 traces = the G2 blocks of that group, fetched in one read"""
    layout = 'default'
    two_d = True
    modular_use = True

    def result(self, c, a):
        g = geo_of(a)
        return spec_array((g.b[1], g.P[2]), lambda e0, e1: O.Vpad(g, 0, add(a['min_id'], e0), e1))

    def effects(self, c, a, result):
        g = geo_of(a)
        log_unless_preloaded(c, a, self.data_off(g, mul(fdiv(a['min_id'], g.b[1]), g.G[2])), mul(BLK, g.G[2]))

    def inputs(self, c):
        g, ld = self.base_inputs(c)
        mn = c.sym_int('min_id', name='min_id')
        return dict(self=ld, min_id=mn, max_id=add(mn, g.b[1]), _g=g)

    def pre(self, c, a):
        g = geo_of(a)
        return [ge(a['min_id'], 0), lt(a['min_id'], g.P[1]), eq(mod(a['min_id'], g.b[1]), 0), eq(a['max_id'], add(a['min_id'], g.b[1]))]

    def post(self, c, a, result):
        g = geo_of(a)
        shp = (g.b[1], g.P[2])
        check_array(c, result, shp)
        e = O.skolem_index(c, shp)
        c.ensure(result.fn(e) == O.Vpad(g, 0, add(a['min_id'], e[0]), e[1]), 'elem')
        self.ghost_common(c, g)
        if not self.preload:
            GH.require_read_count(c, 1, 'reads.one_range')
            ev = GH.reads(c)[0]
            grp = fdiv(a['min_id'], g.b[1])
            c.ensure(And(eq(ev.off, self.data_off(g, mul(grp, g.G[2]))), eq(ev.n, mul(BLK, g.G[2]))),
                     'reads.exactly_the_blocks_of_the_trace_group', kind='ghost')


register(TraceRange2d, 'loader.py::SgzLoader2d.read_and_decompress_trace_range', ['C02', 'C07', 'C09'], CFG_2D_DEFAULT, modes=('file', 'preload'))


class ChunkRange2d(LoaderContract):
    layout = 'general'
    two_d = True
    modular_use = True

    def _blocks(self, g, a):
        pairs = ((1, ('min_id', 'max_id')), (2, ('min_z', 'max_z')))
        return [sub(fdiv(add(a[hi], g.b[k] - 1), g.b[k]), fdiv(a[lo], g.b[k])) for k, (lo, hi) in pairs]

    def result(self, c, a):
        g = geo_of(a)
        blocks = self._blocks(g, a)
        base = [mul(g.b[1], fdiv(a['min_id'], g.b[1])), mul(g.b[2], fdiv(a['min_z'], g.b[2]))]
        return spec_array((mul(g.b[1], blocks[0]), mul(g.b[2], blocks[1])),
                          lambda e0, e1: O.Vpad(g, 0, add(base[0], e0), add(base[1], e1)))

    def effects(self, c, a, result):
        g = geo_of(a)
        if F(a['self'], 'compressed_volume') is None:
            blocks = self._blocks(g, a)
            kx = fresh_index(c, blocks[0], 'c2_x')
            kz = fresh_index(c, blocks[1], 'c2_z')
            bx = add(fdiv(a['min_id'], g.b[1]), SInt(kx))
            bz = add(fdiv(a['min_z'], g.b[2]), SInt(kz))
            IO.log_read(c, BM.K_FILE, self.data_off(g, add(mul(bx, g.G[2]), bz)), BLK, extra_loopvars=[(kx, blocks[0]), (kz, blocks[1])])
    loops = {1: L.IndependentWrites(witness=lambda idx, env: fdiv(idx[0], F(env['self'], 'blockshape')[1])),
             2: L.IndependentWrites(witness=lambda idx, env: fdiv(idx[1], F(env['self'], 'blockshape')[2]))}

    def inputs(self, c):
        g, ld = self.base_inputs(c)
        d = dict(self=ld, _g=g)
        for nm in ('max_id', 'max_z', 'min_id', 'min_z'):
            d[nm] = c.sym_int(nm, name=nm)
        return d

    def pre(self, c, a):
        g = geo_of(a)
        out = []
        for k, (lo, hi) in ((1, ('min_id', 'max_id')), (2, ('min_z', 'max_z'))):
            out += [ge(a[lo], 0), lt(a[lo], a[hi]), le(a[hi], g.P[k])]
        return out

    def post(self, c, a, result):
        g = geo_of(a)
        pairs = ((1, ('min_id', 'max_id')), (2, ('min_z', 'max_z')))
        blocks = [sub(fdiv(add(a[hi], g.b[k] - 1), g.b[k]), fdiv(a[lo], g.b[k])) for k, (lo, hi) in pairs]
        shp = (mul(g.b[1], blocks[0]), mul(g.b[2], blocks[1]))
        check_array(c, result, shp)
        e = O.skolem_index(c, shp)
        base = [mul(g.b[k], fdiv(a[lo], g.b[k])) for k, (lo, hi) in pairs]
        c.ensure(result.fn(e) == O.Vpad(g, 0, add(base[0], e[0]), add(base[1], e[1])), 'elem')
        self.ghost_common(c, g)
        if not self.preload:
            GH.require_read_count(c, 1, 'reads.one_family')
            ev = GH.reads(c)[0]

            def blk(kx, kz):
                bx = add(fdiv(a['min_id'], g.b[1]), kx)
                bz = add(fdiv(a['min_z'], g.b[2]), kz)
                return self.data_off(g, add(mul(bx, g.G[2]), bz))
            self.family_exact(c, ev, blk, BLK, 'reads.exactly_the_blocks_of_the_window')
            c.ensure(And(*[eq(ev.loopvars[k][1], blocks[k]) for k in range(2)]), 'reads.one_per_block_of_the_window', kind='ghost')


register(ChunkRange2d, 'loader.py::SgzLoader2d.read_unshuffle_and_decompress_chunk_range_2d', ['C02', 'C07', 'C09'], ALL2, modes=('file', 'preload'))


# ---------------------------------------------------------------------------------------------
# C17 / C18: the same contracts with a backend that may fail (raise, short or empty read) on any range read.
# Obligations added: on normal return every range read made on behalf of the call succeeded
# (ghost.fault.*), and no exception raised in a pool task was dropped (ghost.pool.*).

FAULT_PROPS = ['C17', 'C18']
register(IlSet, 'loader.py::SgzLoader3d.read_and_decompress_il_set', FAULT_PROPS, [CFG_DEFAULT[3]], modes=('fault',))
register(XlSet, 'loader.py::SgzLoader3d.read_and_decompress_xl_set', FAULT_PROPS, [CFG_DEFAULT[3]], modes=('fault', 'blob+fault'))
register(ZsliceSet, 'loader.py::SgzLoader3d.read_and_decompress_zslice_set', FAULT_PROPS, [CFG_DEFAULT[3]], modes=('fault', 'blob+fault'))
register(ReadChunkRange, RCR, FAULT_PROPS, [CFG_DEFAULT[3]], modes=('fault',))
register(ChunkRange, 'loader.py::SgzLoader3d.read_and_decompress_chunk_range', FAULT_PROPS, [CFG_DEFAULT[3]], modes=('fault',), tag='mt')
register(ChunkRangeST, 'loader.py::SgzLoader3d.read_and_decompress_chunk_range', FAULT_PROPS, [CFG_DEFAULT[3]], modes=('fault',), tag='st')
register(ZsliceSetAdv, 'loader.py::SgzLoader3d.read_and_decompress_zslice_set_adv', FAULT_PROPS, [CFG_ZSLICE[0]], modes=('fault', 'blob+fault'))
register(Unshuffle, 'loader.py::SgzLoader3d.read_unshuffle_and_decompress_chunk_range', FAULT_PROPS, [CFG_GENERAL[5]], modes=('fault',))
register(TraceRange2d, 'loader.py::SgzLoader2d.read_and_decompress_trace_range', FAULT_PROPS, [CFG_2D_DEFAULT[0]], modes=('fault',))
register(ChunkRange2d, 'loader.py::SgzLoader2d.read_unshuffle_and_decompress_chunk_range_2d', FAULT_PROPS, [CFG_2D_GENERAL[0]], modes=('fault',))
