"""Contracts on header assembly and parsing (C03 container conformance, C05 geometry preservation, C19 rate codec).

make_header: every header word equals the expression of the inputs that docs/file-specification.md prescribes
(Conf(F) of contracts/spec.py).  The reader-side parsers are verified against the same words; the composition
(reader(writer(x)) == x for axes and counts) is the lemma set of props/C05.py / props/C03.py.
"""
import z3
from fractions import Fraction

from pyvc.contract import fuc, Contract
from pyvc.values import (And, Or, Not, Implies, Iff, Ite, Min, Max, ops_binop, ops_cmp, mk_bool, mk_int, mk_float, zint, zbool,
                         zreal, SInt, SFloat, SObj, STok, SRange, is_sym, Unsupported, cur)
from pyvc.npmodel import SArray, wrap_int
from pyvc import bytesmodel as BM
from pyvc.models import SymStr, SymSeq
from . import spec as S
from . import objects as O
from .c_loader import register, CFG_DEFAULT, CFG_ZSLICE, CFG_GENERAL, ALL3, ALL2, add, sub, mul, fdiv, mod, eq, le, lt, ge, gt, F, BLK

I32 = 2 ** 31


def in_i32(x):
    return And(ge(x, -I32), lt(x, I32))


# ---------------------------------------------------------------------------------------------
# version object from the installed distribution's version string (string parsing itself: bounded stage of C03)

@fuc('version.py::SeismicZfpVersion.__init__', props=['C03'], modular=True)
class VersionFromString(Contract):
    """ASSUMED at call sites (not verified here: regular-expression parsing is outside the VC theories; the
    grammar of setuptools_scm strings is enumerated on the real constructor in the bounded stage of C03):
    the constructor yields SOME version (major < 2048, minor, patch < 1024, dev flag) with encoding = enc_version."""
    variant = 'str(assumed)'
    TRUSTED = True

    def verify(self, interp, prog, timeout_ms=None):
        from pyvc.smt import Explorer
        ex = Explorer(self.fuc_name())
        ex.contract = self
        ex.prog = prog
        ex.note_outcome('assumed-contract')
        return ex, prog.function(self.key)

    def pre(self, c, a):
        return [mk_bool(isinstance(a['arg'], (SymStr, str)))]

    def fresh_result(self, c, a):
        return None

    def effects(self, c, a, result):
        o = a['self']
        if isinstance(a['arg'], str):
            import re
            m = re.match(r'^(\d+)\.(\d+)(?:\.(\d+))?(.*)$', a['arg'])
            M, mi, p = int(m.group(1)), int(m.group(2)), int(m.group(3) or 0)
            dev = m.group(4) != ''
        else:
            M = c.sym_int('vmajor', lo=0, hi=2047, name='lib_version.major')
            mi = c.sym_int('vminor', lo=0, hi=1023, name='lib_version.minor')
            p = c.sym_int('vpatch', lo=0, hi=1023, name='lib_version.patch')
            dev = c.sym_bool('vdev', name='lib_version.dev')
        o.fields.update(major=M, minor=mi, patch=p, changes_exist=dev, encoding=S.enc_version(M, mi, p, dev), string_version='<version>')
        o.version_tuple = (M, mi, p, dev)


# ---------------------------------------------------------------------------------------------
# HeaderwordInfo pieces used by make_header (their own verification: c_headers.py)

class _HwInfo:
    """abstract header-word info: count of stored arrays and the 1068-byte table image"""


def mk_hw_info(c, prog):
    cls = prog.klass('HeaderwordInfo')
    o = SObj(cls, {})
    o.n_arrays = c.sym_int('n_arrays', lo=0, hi=89, name='n_header_arrays')
    o.table_bytes = BM.junk_bytes(1068, 'hwtable')
    o.fields['header_detection'] = 'heuristic'
    return o


@fuc('headers.py::HeaderwordInfo.get_header_array_count', props=[], modular=True)
class HwCount(Contract):
    variant = 'abstract(assumed here; verified in c_headers)'

    def verify(self, interp, prog, timeout_ms=None):
        from pyvc.smt import Explorer
        ex = Explorer(self.fuc_name()); ex.contract = self; ex.prog = prog
        return ex, prog.function(self.key)

    def fresh_result(self, c, a):
        me = a['self']
        t = me.fields.get('table')
        if isinstance(t, dict):              # count of STORED fields of the table as it is NOW (ArrayCount contract)
            n = 0
            for k, v in t.items():
                n = ops_binop('+', n, Ite(ops_cmp('==', v[1], k), 1, 0))
            return n
        return me.n_arrays


@fuc('headers.py::HeaderwordInfo.to_buffer', props=[], modular=True)
class HwToBuffer(Contract):
    variant = 'abstract(assumed here; verified in c_headers)'

    def verify(self, interp, prog, timeout_ms=None):
        from pyvc.smt import Explorer
        ex = Explorer(self.fuc_name()); ex.contract = self; ex.prog = prog
        return ex, prog.function(self.key)

    def fresh_result(self, c, a):
        me = a['self']
        t = me.fields.get('table')
        if isinstance(t, dict):              # serialisation of the table as it is NOW (ToBuffer contract): opaque bytes tagged with a snapshot
            b = BM.junk_bytes(1068, 'hwtable')
            b.origin = ('hwtable', dict(t))
            return b
        return me.table_bytes


# ---------------------------------------------------------------------------------------------
# make_header

def int_axis(c, name, n):
    """source axis A[k] = s + k*d as an int array, all values in int32 (the property's quantifier), d != 0"""
    s0 = c.sym_int(name + '0', name=name + '[0]')
    d = c.sym_int(name + '_step', name=name + '_step')
    c.assume(ops_cmp('!=', d, 0), in_i32(s0), in_i32(add(s0, mul(sub(n, 1), d))), in_i32(d))
    arr = SArray((n,), lambda idx: add(s0, mul(idx[0], d)), 'int32')
    arr.prog = (s0, d)
    return arr, s0, d


class MakeHeader(Contract):
    cfg = None
    mode = '3d'           # 3d | 2d | irregular
    may_raise = ()

    def inputs(self, c):
        prog = c.ex.prog
        rate, b = self.cfg
        nZ = c.sym_int('nZ', lo=2, name='n_samples')
        t0 = c.sym_int('t0', name='t0_ms')
        dt = c.sym_int('dt', lo=1, hi=65535, name='interval_us')
        c.assume(ge(t0, -32768), le(t0, 32767), lt(nZ, 2 ** 31))
        if getattr(self, 'noisy_samples', False):
            # S3b: the sample axis as floating point delivers it: t0 + k*dt/1000 up to a rounding error far below a microsecond
            # (the property demands the axis "to within float rounding" for every whole-microsecond interval)
            EPS = z3.Function('sample_rounding_error', z3.IntSort(), z3.RealSort())
            bound = z3.RealVal('1/1000000000')

            def sfn(idx):
                e = EPS(zint(idx[0]))
                # (the first sample is the whole-millisecond start time itself: exactly representable)
                cur().assume_raw(z3.And(e >= -bound, e <= bound, EPS(z3.IntVal(0)) == 0))
                return mk_float(zreal(t0) + zreal(idx[0]) * zreal(dt) / 1000 + e)
            samples = SArray((nZ,), sfn, 'float64')
        else:
            samples = SArray((nZ,), lambda idx: mk_float(zreal(t0) + zreal(idx[0]) * zreal(dt) / 1000), 'float64')
        d = dict(samples=samples, bits_per_voxel=rate, blockshape=tuple(b), hw_info=mk_hw_info(c, prog), _nZ=nZ, _t0=t0, _dt=dt)
        if self.mode == '2d':
            nT = c.sym_int('nT', lo=2, name='n_traces')
            c.assume(lt(nT, 2 ** 29))
            geom = SObj(prog.klass('Geometry2d'), dict(traces=SymSeq(nT, lambda k: k)))
            d.update(ilines=None, xlines=None, tracecount=nT, geom=geom, unstructured=True, _nT=nT)
            return d
        nI = c.sym_int('nI', lo=2, name='n_ilines')
        nX = c.sym_int('nX', lo=2, name='n_xlines')
        c.assume(lt(mul(nI, nX), 2 ** 29))
        il, il0, ild = int_axis(c, 'ilines', nI)
        xl, xl0, xld = int_axis(c, 'xlines', nX)
        d.update(ilines=il, xlines=xl, _nI=nI, _nX=nX, _il=(il0, ild), _xl=(xl0, xld))
        if self.mode == '3d':
            geom = SObj(prog.klass('Geometry3d'), dict(ilines=SRange(0, nI, 1), xlines=SRange(0, nX, 1)))
            d.update(tracecount=mul(nI, nX), geom=geom, unstructured=False)
        elif self.mode == 'window':
            # (C11) the axes are those of the whole source, geom is an ordinal window of it: the header describes the window
            wi = c.sym_int('wil0', lo=0, name='window.first_inline_ordinal'); wx = c.sym_int('wxl0', lo=0, name='window.first_crossline_ordinal')
            nIw = c.sym_int('nIw', lo=2, name='window.n_ilines'); nXw = c.sym_int('nXw', lo=2, name='window.n_xlines')
            c.assume(le(add(wi, nIw), nI), le(add(wx, nXw), nX))
            geom = SObj(prog.klass('Geometry3d'), dict(ilines=SRange(wi, add(wi, nIw), 1), xlines=SRange(wx, add(wx, nXw), 1)))
            d.update(tracecount=mul(nI, nX), geom=geom, unstructured=False, _nI=nIw, _nX=nXw,
                     _il=(add(il0, mul(wi, ild)), ild), _xl=(add(xl0, mul(wx, xld)), xld), _window=True)
        else:
            # irregular: inferred grid min + k*step per axis, fewer traces than grid cells
            geom = SObj(prog.klass('InferredGeometry3d'), dict(
                ilines=SRange(il0, add(add(il0, mul(sub(nI, 1), ild)), 1), ild) if False else SRange(0, nI, 1),
                xlines=SRange(0, nX, 1), min_il=il0, min_xl=xl0, il_step=ild, xl_step=xld))
            tc = c.sym_int('tracecount', lo=1, name='tracecount')
            c.assume(lt(tc, mul(nI, nX)), gt(ild, 0), gt(xld, 0))
            d.update(tracecount=tc, geom=geom, unstructured=True)
        return d

    def call_args(self, a):
        d = {k: v for k, v in a.items() if not k.startswith('_')}
        return [], d, None

    def pre(self, c, a):
        """size limit of the container: the data section must be addressable by the 32-bit block-count word
        (files up to 16 TiB) -- stated, not hidden: larger inputs make struct.pack raise"""
        rate, b = self.cfg
        fr = Fraction(rate)
        if self.mode == '2d':
            vox = mul(S.pad_spec(a['_nT'], b[1]), S.pad_spec(a['_nZ'], b[2]))
        else:
            vox = mul(mul(S.pad_spec(a['_nI'], b[0]), S.pad_spec(a['_nX'], b[1])), S.pad_spec(a['_nZ'], b[2]))
        return [lt(mul(vox, fr.numerator), 8 * BLK * fr.denominator * 2 ** 32)]

    def word(self, buf, off, signed=False):
        f = buf.field(off, off + 4)
        if not isinstance(f, BM.Packed):
            return None
        return f.value

    def post(self, c, a, result):
        rate, b = self.cfg
        c.ensure(mk_bool(isinstance(result, BM.SByteArray)), 'is_bytearray')
        c.ensure(eq(result.length, 2 * BLK), 'length_8192')
        W = lambda off: self.word(result, off)

        def want(off, value, label):
            w = W(off)
            c.ensure(mk_bool(w is not None) and eq(w, value), f'word{off}.{label}')
        want(0, 2, 'header_blocks')
        want(4, a['_nZ'], 'n_samples')
        want(16, a['_t0'], 'first_sample_ms')
        want(28, a['_dt'], 'interval_us')
        code = int(rate) if rate >= 1 else -int(1 / Fraction(rate))
        want(40, code, 'bits_per_voxel_code')
        for k in range(3):
            want(44 + 4 * k, b[k], f'blockshape{k}')
        if self.mode == '2d':
            nT = a['_nT']
            P1, P2 = S.pad_spec(nT, b[1]), S.pad_spec(a['_nZ'], b[2])
            bits = mul(mul(P1, P2), int(rate)) if rate >= 1 else None
            blocks = fdiv(mul(mul(P1, P2), Fraction(rate).numerator), 8 * BLK * Fraction(rate).denominator)
            grid = nT
            want(68, nT, 'tracecount')
        else:
            nI, nX = a['_nI'], a['_nX']
            want(8, nX, 'n_xlines')
            want(12, nI, 'n_ilines')
            want(20, a['_xl'][0], 'first_xline')
            want(24, a['_il'][0], 'first_iline')
            want(32, a['_xl'][1], 'xline_step')
            want(36, a['_il'][1], 'iline_step')
            P0, P1, P2 = S.pad_spec(nI, b[0]), S.pad_spec(nX, b[1]), S.pad_spec(a['_nZ'], b[2])
            fr = Fraction(rate)
            blocks = fdiv(mul(mul(mul(P0, P1), P2), fr.numerator), 8 * BLK * fr.denominator)
            grid = mul(nI, nX)
            want(68, grid if a.get('_window') else a['tracecount'], 'tracecount')
        want(56, blocks, 'data_disk_blocks')
        # the block count is exact: padded voxels x bits is a whole number of 4 KiB blocks
        if self.mode != '2d':
            fr = Fraction(rate)
            c.ensure(eq(mul(mul(blocks, 8 * BLK), fr.denominator), mul(mul(mul(P0, P1), P2), fr.numerator)), 'data_disk_blocks_exact')
        want(60, mul(4, grid), 'array_length_bytes')
        want(64, a['hw_info'].n_arrays, 'array_count')
        w72 = W(72)
        c.ensure(mk_bool(w72 is not None), 'word72.version_written')
        tbl = result.field(980, 2048)
        c.ensure(mk_bool(tbl is a['hw_info'].table_bytes), 'table_at_980')


fuc('conversion_utils.py::make_header', props=['C05'])(type('MakeHeader_noisy_samples', (MakeHeader,), dict(mode='3d', cfg=CFG_DEFAULT[3], noisy_samples=True, variant='3d,sample axis with float rounding error')))
for _mode in ('3d', '2d', 'irregular', 'window'):
    _cfgs = ALL2 if _mode == '2d' else (ALL3[:3] if _mode == 'window' else ALL3)
    _cls = type('MakeHeader_' + _mode, (MakeHeader,), dict(mode=_mode))
    _props = {'2d': ['C03', 'C05', 'C19', 'C09'], 'irregular': ['C03', 'C05', 'C19', 'C08'], 'window': ['C11', 'C03', 'C05']}.get(_mode, ['C03', 'C05', 'C19'])
    register(_cls, 'conversion_utils.py::make_header', _props, _cfgs, modes=('file',), tag=_mode)


# ---------------------------------------------------------------------------------------------
# reader side: header parsing

def hdr_u32(off):
    """unsigned 32-bit word at byte `off` of the main file (uninterpreted; shared with pyvc's unpack model)"""
    return mk_int(BM.U32(z3.IntVal(BM.K_FILE), z3.IntVal(off)))


def hdr_s32(off):
    return wrap_int(hdr_u32(off), 32, signed=True)


def mk_parsing_reader(c, prog, newer_than_016=True):
    cls = prog.klass('SgzReader')
    vcls = prog.klass('SeismicZfpVersion')
    M = c.sym_int('fvM', lo=0, hi=2047, name='file_version.major')
    m = c.sym_int('fvm', lo=0, hi=1023, name='file_version.minor')
    p = c.sym_int('fvp', lo=0, hi=1023, name='file_version.patch')
    dev = c.sym_bool('fvdev', name='file_version.dev')
    ver = SObj(vcls, dict(major=M, minor=m, patch=p, changes_exist=dev, encoding=S.enc_version(M, m, p, dev)))
    o = SObj(cls, dict(headerbytes=BM.file_bytes(BM.K_FILE, 0, 2 * BLK), file_version=ver, n_header_blocks=2))
    o.ver = (M, m, p, dev)
    for off in (4, 8, 12, 16, 20, 24, 28, 32, 36, 40, 44, 48, 52, 56, 60, 64, 68, 72):
        w = BM.U32(z3.IntVal(BM.K_FILE), z3.IntVal(off))
        c.assume_raw(z3.And(w >= 0, w < 2 ** 32))
    return o


@fuc('read.py::SgzReader._parse_coordinates', props=['C05', 'C03'])
class ParseCoordinates(Contract):
    """axes regenerated from the header words: origin + k*step per axis, wrapped to int32 for the line axes,
    sample interval in microseconds for files newer than 0.1.6 (milliseconds before)"""
    may_raise = ()

    float_noise = False

    def inputs(self, c):
        if self.float_noise:
            c.ghost['float_noise'] = True         # S3b: float quotients inside np.arange are off by a rounding error
        rd = mk_parsing_reader(c, c.ex.prog)
        return dict(self=rd)

    def pre(self, c, a):
        # Conf(F): counts < 2^29, non-zero steps; integer-header files (no float64 override) handled in the 'double' variant
        return [ge(hdr_u32(4), 2), lt(hdr_u32(4), 2 ** 29), ge(hdr_u32(8), 2), lt(hdr_u32(8), 2 ** 29), ge(hdr_u32(12), 2), lt(hdr_u32(12), 2 ** 29),
                ops_cmp('!=', hdr_u32(32), 0), ops_cmp('!=', hdr_u32(36), 0), ge(hdr_u32(28), 1),
                mk_bool(BM.F64(z3.IntVal(BM.K_FILE), z3.IntVal(92)) == 0)]

    def post(self, c, a, result):
        c.ensure(mk_bool(isinstance(result, tuple) and len(result) == 3), 'three_axes')
        zs, xl, il = result
        for name, arr, o0, ostep, ocount in (('xlines', xl, 20, 32, 8), ('ilines', il, 24, 36, 12)):
            c.ensure(mk_bool(isinstance(arr, SArray)) and eq(arr.shape[0], hdr_u32(ocount)), f'{name}.count')
            k = c.sym_int('k', lo=0, name='axis_index')
            c.assume(lt(k, hdr_u32(ocount)))
            c.ensure(eq(arr.fn((k,)), wrap_int(add(hdr_u32(o0), mul(k, hdr_u32(ostep))), 32, signed=True)), f'{name}.value')
        c.ensure(mk_bool(isinstance(zs, SArray)) and eq(zs.shape[0], hdr_u32(4)), 'zslices.count')
        k = c.sym_int('kz', lo=0, name='sample_index')
        c.assume(lt(k, hdr_u32(4)))
        M, m, p, dev = a['self'].ver
        newer = S.version_lex_lt((0, 1, 6, False), (M, m, p, dev))
        z = zs.fn((k,))
        us = mk_float(zreal(hdr_s32(16)) + zreal(k) * zreal(hdr_u32(28)) / 1000)
        ms = mk_float(zreal(hdr_s32(16)) + zreal(k) * zreal(hdr_u32(28)))
        c.ensure(Implies(newer, mk_bool(zreal(z) == zreal(us))), 'zslices.value_microsecond_interval_after_0.1.6')
        c.ensure(Implies(Not(newer), mk_bool(zreal(z) == zreal(ms))), 'zslices.value_millisecond_interval_up_to_0.1.6')


@fuc('read.py::SgzReader._parse_dimensions', props=['C03', 'C19'])
class ParseDimensions(Contract):
    may_raise = ()

    def inputs(self, c):
        return dict(self=mk_parsing_reader(c, c.ex.prog))

    def pre(self, c, a):
        return [ops_cmp('!=', hdr_s32(40), 0)]

    def post(self, c, a, result):
        n_samples, n_xlines, n_ilines, rate, blockshape = result
        c.ensure(And(eq(n_samples, hdr_u32(4)), eq(n_xlines, hdr_u32(8)), eq(n_ilines, hdr_u32(12))), 'dimensions')
        c.ensure(And(*[eq(blockshape[k], hdr_u32(44 + 4 * k)) for k in range(3)]), 'blockshape')
        code = hdr_s32(40)
        # rate codec: positive code = bits per voxel, negative code = reciprocal
        c.ensure(mk_bool(z3.If(zint(code) > 0, zreal(rate) == zreal(code), zreal(rate) * (-zreal(code)) == 1)), 'rate_decoding')


@fuc('read.py::SgzReader._parse_data_sizes', props=['C03'])
class ParseDataSizes(Contract):
    may_raise = ()

    def inputs(self, c):
        return dict(self=mk_parsing_reader(c, c.ex.prog))

    def post(self, c, a, result):
        c.ensure(And(eq(result[0], hdr_u32(56)), eq(result[1], hdr_u32(60)), eq(result[2], hdr_u32(64))), 'words_56_60_64')


fuc('read.py::SgzReader._parse_coordinates', props=['C05'])(type('ParseCoordinatesFloatNoise', (ParseCoordinates,), dict(float_noise=True, variant='float rounding inside np.arange (S3b)')))
