"""Contracts on SgzConverter.convert_to_adv_sgz (C12).  Deductive part: refusal of unsupported inputs before any output exists.
The copying loops (nested symbolic loops with slice stores that rely on out-of-range slice semantics) are outside the engine's
reach: bounded stand-in in bounded/C12.py (labelled bounded, never counted as proved)."""
import z3

from pyvc.contract import fuc, Contract
from pyvc.values import And, Or, Not, mk_bool, cur
from pyvc import bytesmodel as BM
from .c_loader import register, CFG_DEFAULT, CFG_ZSLICE, CFG_GENERAL, ALL3, BLK
from .c_read import ReadContract


class ReblockRefusal(ReadContract):
    """convert_to_adv_sgz on anything but a 2-bit (4,4,1024) file: AssertionError, and no output file has been created"""
    cls_name = 'SgzConverter'

    def inputs(self, c):
        g, rd = self.reader(c)
        rd.fields['headerbytes'] = BM.file_bytes(BM.K_FILE, 0, 2 * BLK)
        return dict(self=rd, _g=g, out_file='out.sgz')

    def raises(self, c, a):
        rate, b = self.cfg
        return {'AssertionError': mk_bool(not (rate == 2 and tuple(b) == (4, 4, 1024)))}

    def post_raise(self, c, a, cls):
        c.ensure(mk_bool(len(c.ghost.get('opened', [])) == 0 and len(c.ghost.get('writes', [])) == 0), 'refusal_leaves_no_output', kind='ghost')

    def post(self, c, a, result):
        c.ensure(mk_bool(False), 'supported_inputs_are_not_part_of_this_contract')


_unsupported = [cf for cf in (CFG_DEFAULT[:2] + [CFG_DEFAULT[4]] + CFG_ZSLICE[:2] + CFG_GENERAL[:2] + [cf for cf in ALL3 if cf[0] == 2 and cf[1] != (4, 4, 1024)][:3]) if not (cf[0] == 2 and tuple(cf[1]) == (4, 4, 1024))]
register(ReblockRefusal, 'conversion.py::SgzConverter.convert_to_adv_sgz', ['C12'], _unsupported, modes=('file',), tag='unsupported')
