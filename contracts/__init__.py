"""Sidecar contracts for seismic_zfp (importing this package registers them all)."""
from . import spec          # noqa
from . import c_utils       # noqa
from . import c_version     # noqa
from . import c_loader      # noqa
from . import c_read        # noqa
from . import c_header      # noqa
from . import c_cropping    # noqa
from . import c_accessors   # noqa
from . import c_headers_read  # noqa
from . import c_producers   # noqa
from . import c_conversion  # noqa
from . import c_headers_write  # noqa
from . import c_reader_init  # noqa
from . import c_export  # noqa
from . import c_reblock  # noqa
from . import c_glue  # noqa
