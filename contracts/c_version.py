"""Contracts on seismic_zfp/version.py (C03: version encoding is an order-preserving bijection)."""
import z3

from pyvc.contract import fuc, Contract
from pyvc.values import (And, Or, Not, Implies, Iff, Ite, ops_binop, ops_cmp, mk_bool, mk_int, zint, zbool, SObj,
                         SInt, SBool)
from . import spec as S


def version_fields_ok(M, m, p):
    return [ops_cmp('>=', M, 0), ops_cmp('<', M, 2048), ops_cmp('>=', m, 0), ops_cmp('<', m, 1024),
            ops_cmp('>=', p, 0), ops_cmp('<', p, 1024)]


@fuc('version.py::SeismicZfpVersion.__init__', props=['C03'])
class VersionFromInt(Contract):
    """decode(encode(v)) = v for every version with major < 2048, minor < 1024, patch < 1024, both flags"""
    variant = 'int'

    def inputs(self, c):
        M, m, p = c.sym_int('M', name='major'), c.sym_int('m', name='minor'), c.sym_int('p', name='patch')
        dev = c.sym_bool('dev', name='dev')
        self_obj = SObj(c.ex.prog_class('SeismicZfpVersion'))
        return dict(self=self_obj, arg=S.enc_version(M, m, p, dev), _v=(M, m, p, dev))

    def pre(self, c, a):
        M, m, p, dev = a['_v']
        return version_fields_ok(M, m, p)

    def post(self, c, a, result):
        M, m, p, dev = a['_v']
        f = a['self'].fields
        c.ensure(ops_cmp('==', f['major'], M), 'roundtrip.major')
        c.ensure(ops_cmp('==', f['minor'], m), 'roundtrip.minor')
        c.ensure(ops_cmp('==', f['patch'], p), 'roundtrip.patch')
        c.ensure(Iff(f['changes_exist'], dev), 'roundtrip.dev')
        c.ensure(ops_cmp('==', f['encoding'], a['arg']), 'roundtrip.encoding')


@fuc('version.py::SeismicZfpVersion.__init__', props=['C03'])
class VersionFromTuple(Contract):
    variant = 'tuple'

    def inputs(self, c):
        M, m, p = c.sym_int('M', name='major'), c.sym_int('m', name='minor'), c.sym_int('p', name='patch')
        self_obj = SObj(c.ex.prog_class('SeismicZfpVersion'))
        k = c.choose(2, 'dev tuple?')
        arg = (M, m, p, '.dev') if k == 1 else (M, m, p)
        return dict(self=self_obj, arg=arg, _v=(M, m, p, k == 1))

    def pre(self, c, a):
        M, m, p, dev = a['_v']
        return version_fields_ok(M, m, p)

    def post(self, c, a, result):
        M, m, p, dev = a['_v']
        f = a['self'].fields
        c.ensure(ops_cmp('==', f['encoding'], S.enc_version(M, m, p, dev)), 'encoding_is_spec')
        c.ensure(And(ops_cmp('==', f['major'], M), ops_cmp('==', f['minor'], m), ops_cmp('==', f['patch'], p)), 'fields')


@fuc('version.py::SeismicZfpVersion.__gt__', props=['C03'])
class VersionOrder(Contract):
    """v > w  <=>  w <lex v  (dev < release), on objects whose encoding is the spec encoding"""
    def inputs(self, c):
        cls = c.ex.prog_class('SeismicZfpVersion')
        vs = []
        objs = []
        for nm in ('v', 'w'):
            M, m, p = c.sym_int(nm + 'M', name=nm + '.major'), c.sym_int(nm + 'm', name=nm + '.minor'), c.sym_int(nm + 'p', name=nm + '.patch')
            d = c.sym_bool(nm + 'dev', name=nm + '.dev')
            o = SObj(cls, dict(major=M, minor=m, patch=p, changes_exist=d, encoding=S.enc_version(M, m, p, d)))
            vs.append((M, m, p, d))
            objs.append(o)
        return dict(self=objs[0], other=objs[1], _vs=vs)

    def pre(self, c, a):
        out = []
        for (M, m, p, d) in a['_vs']:
            out += version_fields_ok(M, m, p)
        return out

    def post(self, c, a, result):
        v, w = a['_vs']
        c.ensure(Iff(result, S.version_lex_lt(w, v)), 'order_preserving')


@fuc('version.py::SeismicZfpVersion.__eq__', props=['C03'])
class VersionEq(Contract):
    """encoding injective: equal encodings <=> equal versions"""
    inputs = VersionOrder.inputs
    pre = VersionOrder.pre

    def post(self, c, a, result):
        (M, m, p, d), (M2, m2, p2, d2) = a['_vs']
        same = And(ops_cmp('==', M, M2), ops_cmp('==', m, m2), ops_cmp('==', p, p2), Iff(d, d2))
        c.ensure(Iff(result, same), 'injective')
