"""Contracts on the trace-header read path of seismic_zfp/read.py (C04 values, C07 cost, C14 bounds, C17 faults)."""
import z3

from pyvc.contract import fuc, Contract
from pyvc.values import (And, Or, Not, Implies, Iff, Ite, Min, Max, ops_binop, ops_cmp, mk_bool, mk_int, zint, zbool,
                         SInt, SObj, STok, is_sym, Unsupported, cur)
from pyvc.npmodel import SArray, wrap_int
from pyvc.symex import TaggedInt
from pyvc import bytesmodel as BM
from . import spec as S
from . import objects as O
from . import ghost as GH
from .c_loader import (register, CFG_DEFAULT, CFG_ZSLICE, ALL2, add, sub, mul, fdiv, mod, eq, le, lt, ge, gt, F, BLK)
from .c_read import ReadContract, in_range


def footer_word(off):
    """int32 stored at file offset `off` (footer arrays are little-endian int32)"""
    return wrap_int(mk_int(BM.U32(z3.IntVal(BM.K_FILE), zint(off))), 32, signed=True)


def template(c, g, alias=True):
    """a header template with the four kinds of entries: stored array, second stored array, alias of the first, constant.
    Offsets are where a conforming file keeps array k: foot0 + k*stride (stride from mk_reader)"""
    foot0 = add(g.data_start, mul(BLK, g.diskblocks))
    return foot0


class GenTraceHeader(ReadContract):
    """gen_trace_header(i) on a regular file: IndexError iff i is not a trace of the file; every stored field is the
    int32 at  array_offset + 4*i  (one 4-byte read per stored array), constants come from the template"""
    load_all = False
    cache_state = 'fresh'

    def inputs(self, c):
        g, rd = self.reader(c)
        foot0 = add(g.data_start, mul(BLK, g.diskblocks))
        stride = F(rd, 'padded_header_entry_length_bytes')
        offs = [TaggedInt(foot0, 'FileOffset'), TaggedInt(add(foot0, stride), 'FileOffset')]
        const = c.sym_int('const5', name='constant_field_value')
        rd.fields['segy_traceheader_template'] = {1: offs[0], 5: const, 189: offs[1], 193: 0}
        rd.fields['stored_header_keys'] = [1, 189]
        if self.cache_state == 'partial':
            # (C15) an earlier get_tracefield_values(1) left ONE of the stored arrays in the cache, padded convention
            grid = g.nT if g.two_d else mul(g.nI, g.nX)
            rd.fields['variant_headers'] = {1: SArray((grid,), lambda idx: footer_word(add(offs[0].value, mul(4, idx[0]))), 'int32')}
            rd.fields['include_padding'] = True
        return dict(self=rd, _g=g, index=c.sym_int('index', name='index'), load_all_headers=self.load_all, _offs=offs, _const=const)

    def ntraces(self, g):
        return g.nT if g.two_d else mul(g.nI, g.nX)

    def raises(self, c, a):
        g = a['self'].geo
        n = self.ntraces(g)
        if g.two_d:
            # 2-D files keep whole header arrays in memory and index them like Python sequences (negative ordinals wrap)
            return {'IndexError': Not(in_range(a['index'], sub(0, n), n))}
        return {'IndexError': Not(in_range(a['index'], 0, n))}

    def post(self, c, a, result):
        g = a['self'].geo
        self.check_no_fault(c)
        c.ensure(mk_bool(isinstance(result, dict) and set(result.keys()) == {1, 5, 189, 193}), 'all_template_fields_present')
        idx = a['index']
        if g.two_d:
            idx = Ite(lt(idx, 0), add(idx, self.ntraces(g)), idx)
        for k, off in ((1, a['_offs'][0]), (189, a['_offs'][1])):
            want = footer_word(add(off.value, mul(4, idx)))
            got = result.get(k)
            got = getattr(got, 'value', got)
            c.ensure(mk_bool(got is not None) and eq(got, want), f'field{k}.is_the_int32_at_array_offset_plus_4i')
        c.ensure(eq(result.get(5), a['_const']), 'constant_field_from_template')
        c.ensure(eq(result.get(193), 0), 'absent_field_is_zero')
        if g.two_d:
            # whole arrays, each exactly once, nothing else
            evs = GH.reads(c)
            c.ensure(mk_bool(len(evs) == 2), 'reads.one_per_stored_array', kind='ghost')
            for ev, off in zip(evs, a['_offs']):
                c.ensure(And(eq(ev.off, off.value), eq(ev.n, F(a['self'], 'header_entry_length_bytes'))), 'reads.the_whole_array_once', kind='ghost')
        elif self.load_all:
            evs = GH.reads(c)
            want = 1 if self.cache_state == 'partial' else 2
            c.ensure(mk_bool(len(evs) == want), 'reads.only_the_arrays_not_yet_cached', kind='ghost')
        elif not self.load_all:
            evs = GH.reads(c)
            c.ensure(mk_bool(len(evs) == 2), 'reads.one_per_stored_array', kind='ghost')
            for ev, off in zip(evs, a['_offs']):
                c.ensure(And(eq(ev.off, add(off.value, mul(4, a['index']))), eq(ev.n, 4)), 'reads.four_bytes_of_that_trace', kind='ghost')


register(GenTraceHeader, 'read.py::SgzReader.gen_trace_header', ['C04', 'C07', 'C14'], [CFG_DEFAULT[3], CFG_ZSLICE[0]], modes=('file',))
register(type('GenTraceHeader2d', (GenTraceHeader,), dict(two_d=True)), 'read.py::SgzReader.gen_trace_header', ['C04', 'C07', 'C09', 'C14'], [ALL2[0]], modes=('file',), tag='2d')
register(GenTraceHeader, 'read.py::SgzReader.gen_trace_header', ['C17', 'C18'], [CFG_DEFAULT[3]], modes=('fault',))
for _cs in ('fresh', 'partial'):
    register(type('GenTraceHeaderAll', (GenTraceHeader,), dict(load_all=True, cache_state=_cs)), 'read.py::SgzReader.gen_trace_header', ['C15', 'C04'], [CFG_DEFAULT[3]], modes=('file',), tag='load_all,cache:' + _cs)
register(type('GenTraceHeader2dF', (GenTraceHeader,), dict(two_d=True)), 'read.py::SgzReader.gen_trace_header', ['C17', 'C18'], [ALL2[0]], modes=('fault',), tag='2d')


# ---------------------------------------------------------------------------------------------
# header-array cache (C15): what read_variant_headers leaves in the cache depends on the file and the arguments only

from .c_read import footer_i32      # noqa: E402
from pyvc.npmodel import MaskedArray      # noqa: E402


class ReadVariantHeaders(ReadContract):
    """read_variant_headers(include_padding, tracefields): afterwards variant_headers[k], for every requested stored field k, is the whole
    footer array of k (one entry per grid position) -- or, on an irregular file without include_padding, its entries at the populated
    positions in ascending order -- WHATEVER the cache held before (fresh / loaded earlier with either flag); never an AssertionError"""
    structured = True
    state = 'fresh'            # fresh | loaded_padded | loaded_masked
    want_padding = False

    def inputs(self, c):
        g, rd = self.reader(c)
        foot0 = add(g.data_start, mul(BLK, g.diskblocks))
        stride = F(rd, 'padded_header_entry_length_bytes')
        offs = {189: foot0, 193: add(foot0, stride)}
        rd.fields['segy_traceheader_template'] = {k: TaggedInt(v, 'FileOffset') for k, v in offs.items()}
        rd.fields['segy_traceheader_template'][5] = 7
        rd.fields['stored_header_keys'] = [189, 193]
        grid = mul(g.nI, g.nX)
        full = {k: SArray((grid,), (lambda o: (lambda idx: footer_i32(add(o, mul(4, idx[0])))))(o), 'int32') for k, o in offs.items()}
        spec_mask = SArray((grid,), lambda idx: ops_cmp('!=', footer_i32(add(foot0, mul(4, idx[0]))), 0), 'bool')
        if self.state == 'loaded_padded':
            rd.fields['variant_headers'] = {189: full[189]}
            rd.fields['include_padding'] = True
        elif self.state == 'loaded_masked':
            rd.fields['mask'] = spec_mask
            rd.fields['variant_headers'] = {189: MaskedArray(full[189], spec_mask)} if not self.structured else {189: full[189]}
            rd.fields['include_padding'] = False
        return dict(self=rd, _g=g, include_padding=self.want_padding, tracefields=None, _full=full, _mask=spec_mask)

    def post(self, c, a, result):
        g = a['self'].geo
        vh = a['self'].fields.get('variant_headers')
        c.ensure(mk_bool(isinstance(vh, dict) and set(int(k) for k in vh) == {189, 193}), 'cache_holds_exactly_the_stored_fields')
        masked = (not self.structured) and (not self.want_padding)
        j = c.sym_int('vj', lo=0, name='grid_position')
        c.assume(lt(j, mul(g.nI, g.nX)))
        for k in (189, 193):
            arr = vh.get(k) if isinstance(vh, dict) else None
            if masked:
                ok = isinstance(arr, MaskedArray)
                c.ensure(mk_bool(ok), f'field{k}.populated_entries_only')
                if ok:
                    c.ensure(eq(arr.arr.fn((j,)), a['_full'][k].fn((j,))) and eq(arr.arr.shape[0], mul(g.nI, g.nX)), f'field{k}.selected_from_the_whole_footer_array')
                    c.ensure(Iff(arr.mask.fn((j,)), a['_mask'].fn((j,))), f'field{k}.selected_by_the_population_mask')
            else:
                ok = isinstance(arr, SArray)
                c.ensure(mk_bool(ok), f'field{k}.one_entry_per_grid_position')
                if ok:
                    c.ensure(eq(arr.shape[0], mul(g.nI, g.nX)) and eq(arr.fn((j,)), a['_full'][k].fn((j,))), f'field{k}.is_the_footer_array')


for _st in (True, False):
    for _state in ('fresh', 'loaded_padded', 'loaded_masked'):
        for _wp in (False, True):
            _cls = type('ReadVariantHeaders', (ReadVariantHeaders,), dict(structured=_st, state=_state, want_padding=_wp))
            register(_cls, 'read.py::SgzReader.read_variant_headers', ['C15'] + (['C08'] if not _st else ['C04', 'C06']), [CFG_DEFAULT[3]], modes=('file',),
                     tag=f'{"regular" if _st else "irregular"},{_state},include_padding={_wp}')


class GenTraceHeaderIrregular(GenTraceHeader):
    """gen_trace_header(i) on an irregular file: every stored field is the entry of the i-th POPULATED grid position of its footer array
    (population = stored inline number != 0), whatever load_all_headers says"""
    structured = False

    def inputs(self, c):
        d = GenTraceHeader.inputs(self, c)
        rd = d['self']
        g = d['_g']
        offs = d['_offs']
        # field 189 must be a stored field (it defines the population mask): stored fields 1 and 189
        d['_spec_mask'] = SArray((mul(g.nI, g.nX),), lambda idx: ops_cmp('!=', footer_word(add(offs[1].value, mul(4, idx[0]))), 0), 'bool')
        return d

    def raises(self, c, a):
        return {}

    def may_raise_at(self, c, a):
        return ('IndexError',)      # numpy sequence semantics on the populated list

    def post(self, c, a, result):
        g = a['self'].geo
        c.ensure(mk_bool(isinstance(result, dict) and set(result.keys()) == {1, 5, 189, 193}), 'all_template_fields_present')
        sels = c.ghost.get('mask_selects', [])
        c.ensure(mk_bool(len(sels) == 2), 'one_selection_per_stored_field')
        j = c.sym_int('gj', lo=0, name='grid_position')
        c.assume(lt(j, mul(g.nI, g.nX)))
        for (k, off) in ((1, a['_offs'][0]), (189, a['_offs'][1])):
            got = result.get(k)
            got = getattr(got, 'value', got)
            match = [s for s in sels if s[0] is a['self'].fields['variant_headers'].get(k)]
            c.ensure(mk_bool(len(match) == 1), f'field{k}.selected_from_its_own_array')
            if len(match) != 1:
                continue
            ma, kk, p = match[0]
            c.ensure(eq(ma.arr.fn((j,)), footer_word(add(off.value, mul(4, j)))) and eq(ma.arr.shape[0], mul(g.nI, g.nX)), f'field{k}.array_is_the_whole_footer_array')
            c.ensure(Iff(ma.mask.fn((j,)), a['_spec_mask'].fn((j,))), f'field{k}.populated_positions_by_the_inline_number_array')
            c.ensure(Or(eq(kk, a['index']), eq(kk, add(a['index'], SInt(ma.count)))), f'field{k}.entry_of_the_index_th_populated_position')
            c.ensure(eq(got, footer_word(add(off.value, mul(4, p)))), f'field{k}.value')
        c.ensure(eq(result.get(5), a['_const']), 'constant_field_from_template')


for _la in (False, True):
    register(type('GenTraceHeaderIrregular', (GenTraceHeaderIrregular,), dict(load_all=_la)), 'read.py::SgzReader.gen_trace_header', ['C04', 'C06', 'C08', 'C15'], [CFG_DEFAULT[3]], modes=('file',), tag=f'irregular,load_all={_la}')


class GetTracefield1d(GenTraceHeader):
    """get_tracefield_1d(field) / attributes(field): one int32 value per grid position (per trace for 2-D): the footer array of a stored field,
    the template value repeated for a constant or absent field -- never a KeyError (segyio returns an array for every header word)"""
    field = 1

    def inputs(self, c):
        d = GenTraceHeader.inputs(self, c)
        c.assume(ge(d['_const'], -2 ** 31), lt(d['_const'], 2 ** 31))       # table words are 32-bit signed integers
        return dict(self=d['self'], _g=d['_g'], tracefield=self.field, _offs=d['_offs'], _const=d['_const'])

    def raises(self, c, a):
        return {}

    def post(self, c, a, result):
        g = a['self'].geo
        n = self.ntraces(g)
        ok = isinstance(result, SArray) and len(result.shape) == 1
        c.ensure(mk_bool(ok) and eq(result.shape[0], n), 'one_value_per_grid_position')
        if not ok:
            return
        j = c.sym_int('tj', lo=0, name='grid_position')
        c.assume(lt(j, n))
        if self.field == 1:
            want = footer_word(add(a['_offs'][0].value, mul(4, j)))
        elif self.field == 189:
            want = footer_word(add(a['_offs'][1].value, mul(4, j)))
        elif self.field == 5:
            want = a['_const']
        else:
            want = 0
        c.ensure(eq(result.fn((j,)), want), 'value_of_that_position')


for _f in (1, 189, 5, 193):
    register(type('GetTracefield1d', (GetTracefield1d,), dict(field=_f)), 'read.py::SgzReader.get_tracefield_1d', ['C04', 'C13'], [CFG_DEFAULT[3]], modes=('file',), tag=f'field {_f}')


class AttributesOneTrace(GetTracefield1d):
    """attributes(field)[k] for ONE trace number k (C13: same kind and length as segyio, whose Attributes.__getitem__ turns an integer into the
    slice k:k+1 and so returns an array of length 1 holding the value of trace k).  SegyioEmulator.attributes IS get_tracefield_1d (contract
    EmulatorInit), so the expression is a subscript of this function's result."""
    field = 189

    def post(self, c, a, result):
        g = a['self'].geo
        n = self.ntraces(g)
        j = c.sym_int('tk', lo=0, name='trace_number')
        c.assume(lt(j, n))
        I = c.ex.interp
        one = I.stdlib.getitem(I, result, j, None)
        ok = isinstance(one, SArray) and len(one.shape) == 1
        c.ensure(mk_bool(ok) and eq(one.shape[0], 1), 'subscript_by_one_trace_number.array_of_length_1_as_in_segyio')
        if ok:
            c.ensure(eq(one.fn((0,)), footer_word(add(a['_offs'][1].value, mul(4, j)))), 'subscript_by_one_trace_number.value_of_that_trace')


register(AttributesOneTrace, 'read.py::SgzReader.get_tracefield_1d', ['C13'], [CFG_DEFAULT[3]], modes=('file',), tag='attributes(189)[k]')
