"""Contracts on the trace-header read path of seismic_zfp/read.py (C04 values, C07 cost, C14 bounds, C17 faults)."""
import z3

from pyvc.contract import fuc, Contract
from pyvc.values import (And, Or, Not, Implies, Iff, Ite, Min, Max, ops_binop, ops_cmp, mk_bool, mk_int, zint, zbool,
                         SInt, SObj, STok, is_sym, Unsupported, cur)
from pyvc.npmodel import SArray, wrap_int
from pyvc.symex import TaggedInt
from pyvc import bytesmodel as BM
from . import spec as S
from . import objects as O
from . import ghost as GH
from .c_loader import (register, CFG_DEFAULT, CFG_ZSLICE, ALL2, add, sub, mul, fdiv, mod, eq, le, lt, ge, gt, F, BLK)
from .c_read import ReadContract, in_range


def footer_word(off):
    """int32 stored at file offset `off` (footer arrays are little-endian int32)"""
    return wrap_int(mk_int(BM.U32(z3.IntVal(BM.K_FILE), zint(off))), 32, signed=True)


def template(c, g, alias=True):
    """a header template with the four kinds of entries: stored array, second stored array, alias of the first, constant.
    Offsets are where a conforming file keeps array k: foot0 + k*stride (stride from mk_reader)"""
    foot0 = add(g.data_start, mul(BLK, g.diskblocks))
    return foot0


class GenTraceHeader(ReadContract):
    """gen_trace_header(i) on a regular file: IndexError iff i is not a trace of the file; every stored field is the
    int32 at  array_offset + 4*i  (one 4-byte read per stored array), constants come from the template"""
    load_all = False

    def inputs(self, c):
        g, rd = self.reader(c)
        foot0 = add(g.data_start, mul(BLK, g.diskblocks))
        stride = F(rd, 'padded_header_entry_length_bytes')
        offs = [TaggedInt(foot0, 'FileOffset'), TaggedInt(add(foot0, stride), 'FileOffset')]
        const = c.sym_int('const5', name='constant_field_value')
        rd.fields['segy_traceheader_template'] = {1: offs[0], 5: const, 189: offs[1], 193: 0}
        rd.fields['stored_header_keys'] = [1, 189]
        return dict(self=rd, _g=g, index=c.sym_int('index', name='index'), load_all_headers=self.load_all, _offs=offs, _const=const)

    def ntraces(self, g):
        return g.nT if g.two_d else mul(g.nI, g.nX)

    def raises(self, c, a):
        g = a['self'].geo
        n = self.ntraces(g)
        if g.two_d:
            # 2-D files keep whole header arrays in memory and index them like Python sequences (negative ordinals wrap)
            return {'IndexError': Not(in_range(a['index'], sub(0, n), n))}
        return {'IndexError': Not(in_range(a['index'], 0, n))}

    def post(self, c, a, result):
        g = a['self'].geo
        self.check_no_fault(c)
        c.ensure(mk_bool(isinstance(result, dict) and set(result.keys()) == {1, 5, 189, 193}), 'all_template_fields_present')
        idx = a['index']
        if g.two_d:
            idx = Ite(lt(idx, 0), add(idx, self.ntraces(g)), idx)
        for k, off in ((1, a['_offs'][0]), (189, a['_offs'][1])):
            want = footer_word(add(off.value, mul(4, idx)))
            got = result.get(k)
            got = getattr(got, 'value', got)
            c.ensure(mk_bool(got is not None) and eq(got, want), f'field{k}.is_the_int32_at_array_offset_plus_4i')
        c.ensure(eq(result.get(5), a['_const']), 'constant_field_from_template')
        c.ensure(eq(result.get(193), 0), 'absent_field_is_zero')
        if g.two_d:
            # whole arrays, each exactly once, nothing else
            evs = GH.reads(c)
            c.ensure(mk_bool(len(evs) == 2), 'reads.one_per_stored_array', kind='ghost')
            for ev, off in zip(evs, a['_offs']):
                c.ensure(And(eq(ev.off, off.value), eq(ev.n, F(a['self'], 'header_entry_length_bytes'))), 'reads.the_whole_array_once', kind='ghost')
        elif not self.load_all:
            evs = GH.reads(c)
            c.ensure(mk_bool(len(evs) == 2), 'reads.one_per_stored_array', kind='ghost')
            for ev, off in zip(evs, a['_offs']):
                c.ensure(And(eq(ev.off, add(off.value, mul(4, a['index']))), eq(ev.n, 4)), 'reads.four_bytes_of_that_trace', kind='ghost')


register(GenTraceHeader, 'read.py::SgzReader.gen_trace_header', ['C04', 'C07', 'C14'], [CFG_DEFAULT[3], CFG_ZSLICE[0]], modes=('file',))
register(type('GenTraceHeader2d', (GenTraceHeader,), dict(two_d=True)), 'read.py::SgzReader.gen_trace_header', ['C04', 'C07', 'C09', 'C14'], [ALL2[0]], modes=('file',), tag='2d')
register(GenTraceHeader, 'read.py::SgzReader.gen_trace_header', ['C17', 'C18'], [CFG_DEFAULT[3]], modes=('fault',))
register(type('GenTraceHeader2dF', (GenTraceHeader,), dict(two_d=True)), 'read.py::SgzReader.gen_trace_header', ['C17', 'C18'], [ALL2[0]], modes=('fault',), tag='2d')
