NOT_APPLICABLE = {}
CLAIMED['C19'] = dict(
    text='Proof: define_blockshape_3d/_2d verified for all paths and all integer block dimensions, int/float/string bit rates: '
         'accepted => VALID and as requested; VALID request => accepted. 383 obligations, unbounded. Near-miss floats/strings: bounded grid under CPython.',
    note='floats as exact reals (S3a); ENGINE pyvc + z3/cvc5 trusted; faithful read-back of every valid setting is the layout obligation of C01/C02/C09')
