NOT_APPLICABLE = {}
TECH = 'contracts on the real functions; VCs generated from the AST of /repo by symbolic execution (pyvc) and discharged by z3/cvc5'
CLAIMED['C19'] = dict(
    text='Proof: define_blockshape_3d/_2d verified for all paths and all integer block dimensions, int/float/string bit rates: '
         'accepted => VALID and as requested; VALID request => accepted. Unbounded. Near-miss floats/strings: bounded grid under CPython. The check also runs the contract sets of C01, C02 and C03 (C19 promises their guarantees for every accepted setting): producers, header words, reader construction, loaders and readers over the configuration case split incl. blockshapes with unequal dimensions.',
    note='floats as exact reals (S3a); ENGINE pyvc + z3/cvc5 trusted; faithful read-back of every valid setting = the obligations of the included C01/C02/C03 sets (2-D: C09); configurations as a case split (quick: representatives; thorough: all)')
CLAIMED['C02'] = dict(
    text='Proof (per function, modular): every loader function and read_inline/crossline/zslice/subvolume/volume/subplane/get_trace return exactly '
         'the slice of the spec-defined volume V they denote, for all cube shapes and arguments, per valid (rate, blockshape) setting '
         '(quick: representative settings; thorough: all 401). Also under contract: both diagonal families, coordinate lookup (coord_to_index) and reads by line number, subvolume[a:b:c, ...] on ascending axes, accessor construction. '
         'z-slice and trace by sample time/depth (exact-real axis), tools.cube, raw indexing of the xarray backend (integer keys, bounded and stepped slices).',
    note='AX-ZFP-DEC, AX-NP-INDEX, AX-FILE, AX-POOL, AX-LRU assumed; reader object state: SgzReader.__init__ is under contract for the file-handle route (ReaderInit: state = mk_reader state for conforming files); ENGINE pyvc + z3/cvc5 trusted')
CLAIMED['C07'] = dict(
    text='Proof: ghost read log of every loader function / read method under contract equals exactly the ranges the property allows '
         '(group blocks, one unit per column, one block per tile, blocks of the box), disjoint, inside the data section; none with preload; '
         'file and blob backends at the choke point.',
    note='AX-FILE/AX-BLOB (one backend read per read_range call), AX-LRU; open cost / header 4-byte reads not covered here')
CLAIMED['C14'] = dict(
    text='Proof: for read_inline/crossline/zslice/subvolume/volume/subplane/get_trace: raises IndexError/WrongDimensionalityError iff an argument is '
         'outside the real extent (both directions, all paths), otherwise every element is a real stored sample.',
    note='also: diagonals, coordinate lookup / reads by line number, subvolume[...] subscripts, header reads; irregular ordinals follow numpy sequence semantics; same trusted base as C02')
CLAIMED['C03'] = dict(
    text='Proof of the header-assembly, version-codec and header-parsing part: make_header words = spec expressions (exact block count, array length, '
         'counts, version word) for every valid setting and all shapes; version encode/decode bijection and order (symbolic); reader parsers read the same words. '
         'Footer writers / file length / cropper / re-blocker conformance and version-string parsing are NOT covered by this check yet.',
    note='assumed contract for SeismicZfpVersion(str); AX-STRUCT; HeaderwordInfo.to_buffer/get_header_array_count abstracted at the make_header call site')
CLAIMED['C05'] = dict(
    text='Proof: make_header stores axis origin/step/count, first sample and microsecond interval in the specified words (3-D, irregular, 2-D); _parse_coordinates '
         'regenerates origin + k*step with int32 wrap and the version-gated interval unit; lemmas: the signed-pack/unsigned-read/int64-arange/int32-wrap chain is the identity '
         'on every int32 axis with non-zero step (descending included). Float rounding of the sample axis is assumed exact (S3a).',
    note='S3(a) exact reals for the sample axis; reader fields outside _parse_* (structured flag, 2-D branch of __init__) not yet under contract')
CLAIMED['C16'] = dict(
    text='Proof over thread skeletons extracted from the real source on every run: inductive global invariant (Owicki-Gries, all steps of all threads), '
         'file = header + blocks in order on return, workers parked and no step enabled after the return, deadlock freedom, decreasing variant; '
         'symbolic item count N >= 1 and queue capacities >= 1 (not only 1..3 plane sets / capacities 1,2,16). A failing obligation is given a reachable '
         'schedule by bounded search and the schedule is forced on the real pipeline. The three producer contracts are part of the check: one put per block in block order, and the array handed to the queue is not an object other iterations overwrite (a reused buffer).',
    note='AX-QUEUE / Thread / atomic file writes assumed; granularity = queue operations, thread starts, file writes (as the property states)',
    technique='Owicki-Gries invariant proof (z3) over a transition system extracted from the AST of the real thread functions')
CLAIMED['C10'] = dict(
    text='Proof: bounds validation (raises-iff, all None patterns) and outward alignment; by-index cropping for every layout: refusals leave no output, '
         'write sequence header/data/footer, data length = stated blocks, copied cells/blocks = source cells/blocks of the widened box, regenerated header words, '
         'footer arrays = source values of the box at the stride of the file version.',
    note='coordinate front end under contract for line-number ranges (concrete axis increments incl. descending); reader state per ReaderInit; AX-FILE for the output handle')
CLAIMED['C13'] = dict(
    text='Proof of the subscript semantics of the accessors (ordinal slices/ints with negative wrap; line-number slices with all default combinations on ascending and '
         'descending axes; len) against spec functions transcribed from segyio/CPython. Accessor construction binds each accessor to the count, axis and read method of its kind (those read methods are under the value contracts of C02/C04); subvolume[a:b:c, ...] by line number with steps. '
         'The emulator object: every documented attribute is the accessor / reader method of its kind on the same handle (2-D: line accessors refuse); tools.cube, tools.dt. Contents of bin / text objects (segyio Field) are not covered. The check also runs the C02 set (the read methods the accessors delegate to). Open finding D43: attributes(field)[k] for one integer k is a scalar, not segyio\'s length-1 array.',
    note='AX-SEGYIO-ACC transcription (hash pinned); values_function abstract; line numbers >= 1')
CLAIMED['C17'] = dict(
    text='Proof (fault mode: any range read may raise or come back short/empty): for the range-read primitives + choke point (file and blob) and every loader function / '
         'sample-reading method under contract, normal return implies that every range read succeeded, and no pool-task exception is dropped. With C02 this gives '
         '"raises or returns the true data". Footer/header reads only as far as their contracts exist.',
    note='AX-POOL, AX-GIL, AX-FILE/AX-BLOB weak form; value side is C02 (fault-free executions)')
CLAIMED['C01'] = dict(
    text='Proof of the producer side for the routes under contract (NumPy; regular SEG-Y through segyio and through the reduced-I/O reader incl. its byte offsets) + layout agreement: every array put on the compression queue = edge-replicated source on its box, '
         'exact shape, and its cells land at spec_off in the file, all cube shapes, every valid setting; reader side and header words: the contract sets of C02 and C03 are run as part of this check; pipeline order = C16. '
         'Irregular and 2-D SEG-Y: C08/C09. CLI/VDS/ZGY handles: assumed to behave like the segyio handle model.',
    note='AX-ZFP-ENC, AX-NP-INDEX, sequential loop order; composition across contracts by modularity, not re-proved end to end')
CLAIMED['C20'] = dict(
    text='Proof for the routes under contract (NumPy, regular SEG-Y with either reader): the byte strings fed to the hash object are exactly the real inlines of the source, each once, in trace order, for all shapes and settings (the contracts of io_thread_func / io_thread_func_2d / MinimalInlineReader.read_line that fill those buffers are part of the check); get_source_data_hash() returns the 40 hex digits of bytes 960..979.',
    note='AX-SHA1 (incl. collision resistance); write_hash under contract (20 bytes at 960, fed by the digest run_conversion_loop returns); re-blocker copy of the hash: bounded (C12)')
CLAIMED['C11'] = dict(
    text='Proof per function (modular): window acceptance in SeismicFileConverter.__init__ (0 is a bound), header-array sizing, make_header window words, io_thread_func '
         '(window samples + header capture; symbolic inline block extent), seismic_file_producer (layout agreement for the window shape, hash of the window rows) -- '
         'all cube shapes and all windows. Glue (run, run_conversion_loop) and the sgy2sgz command (options reach the converter unchanged) by data-flow contracts.',
    note='AX-SEGYIO-R handle model; reduce_iops falls back to segyio for windows (fix 7a327a8); composition by modularity')
CLAIMED['C04'] = dict(
    text='Proof per function of the header chain: capture (io_thread_func[_2d], reduced-I/O bytes), classification (HeaderwordInfo.__init__ list modes exactly; heuristic mode under the '
         'property\'s precondition with all but 2-3 header words zero), thorough re-classification + patch order, table serialisation and count, footer arrays (int32, ascending field order, '
         'stride 512*ceil(4n/512); NumPy route any integer dtype + default inline/crossline arrays), reader table parse + offsets (get_header_dict), gen_trace_header, SEG-Y file header copy. '
         'Unbounded in trace count and header values; the loops over the 89 header words are unrolled on tables with few non-trivial entries.',
    note='AX-SEGYIO-ENUM/-R, AX-NP-ALL; composition by modularity; found and fixed D3 (512 padding), D4 (int64 arrays), D34 (array order)')
CLAIMED['C09'] = dict(
    text='Proof per function of the 2-D chain: blockshape validation, header words, trace-group capture (symbolic group extent), producer layout agreement (spec_off2) and hash, '
         'reader construction (2-D branch incl. sample axis), 2-D loaders, read_subplane/get_trace windows, refusal of volume-style reads, gen_trace_header -- all trace/sample counts, per valid setting.',
    note='2-D detection in detect_geometry and the accessors of seismic_zfp.open not under contract; AX-ZFP 2-D, AX-SEGYIO-R; found and fixed D10 (2-D hash covered padding traces)')
CLAIMED['C08'] = dict(
    text='Proof per function: inferred axis (get_range), irregular header words, placement by (inline, crossline) lookup with zero-filled holes and padding (guarded family stores), '
         'producer layout agreement for the zero-filled grid, reader structured flag, population mask and ordinal-to-grid mapping in get_trace. All grids / populations; '
         'traces_ref construction and header reads of irregular files (masked arrays in read_variant_headers) not under contract.',
    note='AX-NP-WHERE, AX-SEGYIO-R, LEMMA-RANGE-LEN; found and fixed D9 (increments written to the wrong words)')
CLAIMED['C06'] = dict(
    text='Proof per function of the exporter up to the segyio boundary: spec = reader axes, format from the stored binary header (IBM/IEEE kept, otherwise IBM with only the format word patched), '
         'all traces and headers in ordinal order with the decoded samples / regenerated headers, stored 3600-byte SEG-Y file header written verbatim. The sgz2sgy command is under a data-flow contract. What segyio writes from that spec is assumed.',
    note='AX-SEGYIO-W assumed; get_trace per C02 contracts; found and fixed D35 (format word read from the wrong bytes)')
CLAIMED['C12'] = dict(
    category='exploration',
    text='BOUNDED stand-in, not a proof: the real convert_to_adv_sgz is run on a grid of default-layout 2-bit files (quick 14 / thorough 23 shape x array-count x regularity cases, one with a duplicated header word) and the output is '
         'compared with the source under the independent spec oracle and the real reader (conformance, every real voxel bitwise, axes, trace count, file headers, every trace header, hash). '
         'Proved (contract on the real function): every unsupported input is refused with AssertionError before any output exists.',
    note='bounded in cube shapes; the copying loops are outside the VC generator (out-of-range slice semantics, four nested symbolic loops); found and fixed D31, D32, D36, D44',
    technique='bounded stand-in: native execution of the real function on a stated grid against an independent spec oracle; refusal part by contract + VCs (pyvc, z3)')
CLAIMED['C15'] = dict(
    text='Proof by invariant: the state SgzReader.__init__ establishes is under contract; every read contract holds for any admissible cache state and its result is a function of file and arguments; '
         'explicit state variants for the header-array cache (fresh / padded / masked), the population mask (loaded or not) and the ordinal override; preload vs file mode give the same spec result; the C02 set (every read from the state __init__ establishes) is run as part of this check, plus a two-calls-on-one-loader variant of the multithreaded sub-volume read built by the real loader __init__. '
         'lru caches are assumed transparent (justified by the purity the loader contracts establish). Known finding D16 (irregular files: padding-convention mismatch raises AssertionError) is reported, not repaired.',
    note='AX-LRU; frozen-field frame condition enforced by the engine; multi-reader / emulator sharing argued from per-reader state + seek-before-read, not separately verified')
CLAIMED['C18'] = dict(
    text='Proof in two parts: (1) fault-mode contracts (any range read may be short, which is what a cut file does): reader construction, loaders, sample reads and header reads either raise or used only '
         'complete reads, hence return what the complete file returns; (2) write-order obligations: count/table patches precede every footer byte, footer arrays in table order at the reader stride, '
         'blocks in order (C16). Sequencing of the writer functions inside run() is under contract; the hash patch (last write) is out of scope.',
    note='AX-FILE (writes append in order; a cut inside a write is a byte-length cut); same trusted base as C17; found and fixed D25 (short reads were decoded)')
